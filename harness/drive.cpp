// Correspondence harness: drives the real teakra code (built from /repo's working tree with
// -DTEAKRA_VERIF) through the same line protocol as the Lean model driver.
// Responses go to the original stdout; the library's own stdout chatter is sent to /dev/null.
#include <unistd.h>
#include <cstdio>
#include <cstring>
#include <cstdlib>
#include <new>
#include <exception>
#include <iostream>
#include "crash.h"
#include "h.hpp"

namespace Teakra { class UnimplementedException; }

// Every heap allocation of the harness process is filled with a known byte (0 by default), so that
// members the constructors leave uninitialised (ICU vector arrays, Interpreter::vinterrupt_address …)
// do not make the unchanged tree look non-deterministic.  The C17 slice changes the fill byte on
// purpose (`g_new_fill`) to expose exactly those members.
unsigned char g_new_fill = 0;
void* operator new(std::size_t n) {
    void* p = std::malloc(n ? n : 1);
    if (!p) throw std::bad_alloc();
    std::memset(p, g_new_fill, n);
    return p;
}
void operator delete(void* p) noexcept { std::free(p); }
void operator delete(void* p, std::size_t) noexcept { std::free(p); }

std::map<std::string, Handler>& Registry() {
    static std::map<std::string, Handler> r;
    return r;
}

// implemented in u_interp.cpp (needs interpreter.h for the exception type)
bool IsUnimplemented(const std::exception& e);

int main() {
    int out_fd = dup(1);
    FILE* out = fdopen(out_fd, "w");
    if (!freopen("/dev/null", "w", stdout)) return 2;
    static char obuf[1 << 16];
    setvbuf(out, obuf, _IOFBF, sizeof obuf);

    std::string line;
    Args args;
    while (std::getline(std::cin, line)) {
        args.clear();
        {
            size_t i = 0, n = line.size();
            while (i < n) {
                while (i < n && (line[i] == ' ' || line[i] == '\r' || line[i] == '\t')) ++i;
                size_t j = i;
                while (j < n && line[j] != ' ' && line[j] != '\r' && line[j] != '\t') ++j;
                if (j > i) args.emplace_back(line, i, j - i);
                i = j;
            }
        }
        std::string resp;
        if (args.empty()) {
            resp = "";
        } else {
            auto it = Registry().find(args[0]);
            if (it == Registry().end()) {
                resp = "bad-unit";
            } else {
                try {
                    Args rest(args.begin() + 1, args.end());
                    resp = it->second(rest);
                } catch (const TeakraVerifAssert&) {
                    resp = "assert";
                } catch (const std::string& s) {
                    resp = s;
                } catch (const std::exception& e) {
                    resp = IsUnimplemented(e) ? "unimpl" : (std::string("exception ") + e.what());
                }
            }
        }
        fputs(resp.c_str(), out);
        fputc('\n', out);
    }
    fflush(out);
    return 0;
}
