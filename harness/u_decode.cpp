// unit "dec": the decode table (src/decoder.h, matcher.h, operand.h) as the real consumers see it.
//   dec dec <w> <e>      Decode<RecordingVisitor>(w).call(v, w, e): index of the matching entry in
//                        GetDecodeTable order, handler name, overload signature, NeedExpansion, raw operands
//   dec gdec <w> <e>     the same answer (the model answers from the golden table)
//   dec consumers <w>    do Disassembler::NeedExpansion(w) (the assembler's parser uses the same call) and
//                        Decode<Interpreter>(w) agree with Decode<RecordingVisitor>(w) on name and length
//   dec count            number of table entries;   dec reset -> ok (stateless unit)
#include "h.hpp"
#include "decoder.h"
#include "interpreter.h"
#include "teakra/disassembler.h"
#include "recvis.gen.h"

namespace {
using recvis::RecordingVisitor;

const std::vector<Matcher<RecordingVisitor>>& Table() {
    static const auto table = GetDecodeTable<RecordingVisitor>();
    return table;
}

std::string Dec(u16 w, u16 e) {
    // Decode<V> ASSERTs that no second entry matches (-> "assert" under TEAKRA_VERIF)
    auto m = Decode<RecordingVisitor>(w);
    const auto& t = Table();
    size_t idx = t.size();
    for (size_t i = 0; i < t.size(); ++i) {
        if (t[i].Matches(w)) { idx = i; break; }
    }
    RecordingVisitor v;
    m.call(v, w, e);
    if (idx == t.size()) {
        if (std::string(v.name) != "undefined" || std::string(m.GetName()) != "*") return "DIFF undefined-vs-" + std::string(v.name);
        return "undefined";
    }
    Out o;
    o << idx << m.GetName();
    if (std::string(m.GetName()) != v.name) o << "DIFF-called" << v.name;
    o << (v.sig[0] ? v.sig : "-") << (m.NeedExpansion() ? 1u : 0u);
    for (u16 x : v.vals) o << x;
    return o.s;
}

std::string Consumers(u16 w) {
    auto rec = Decode<RecordingVisitor>(w);
    auto interp = Decode<Teakra::Interpreter>(w);
    bool dis = Teakra::Disassembler::NeedExpansion(w);
    std::string rn = rec.GetName(), in = interp.GetName();
    bool re = rec.NeedExpansion(), ie = interp.NeedExpansion();
    if (rn == in && re == ie && re == dis) return "same " + rn + " " + (re ? "1" : "0");
    return "DIFF recording=" + rn + "/" + (re ? "1" : "0") + " interpreter=" + in + "/" + (ie ? "1" : "0") +
           " disassembler-NeedExpansion=" + (dis ? "1" : "0");
}

std::string Do(const Args& a) {
    if (a.empty()) throw std::string("bad-op");
    const std::string& op = a[0];
    if (op == "reset" && a.size() == 1) return "ok";
    if (op == "count" && a.size() == 1) return Hex(Table().size());
    if ((op == "dec" || op == "gdec") && a.size() == 3) return Dec((u16)H(a[1]), (u16)H(a[2]));
    if (op == "consumers" && a.size() == 2) return Consumers((u16)H(a[1]));
    throw std::string("bad-op");
}
Registrar reg("dec", [](const Args& a) { return Do(a); });
} // namespace
