// unit "regs": include/teakra/impl/register.h pseudo-registers on a real Teakra::RegisterState,
// and the ar/arp decoding of src/disassembler.cpp through the public Teakra::Disassembler API.
// State fill, digest and sweep definitions mirror lean/Drive/Regs.lean line by line.
#include <optional>
#include "h.hpp"
#include "register.h"
#include "teakra/disassembler.h"

namespace {
using Teakra::RegisterState;

struct Cell {
    const char* name;
    unsigned idx;
    u16 RegisterState::*scalar;
    unsigned bits;
    std::function<u16&(RegisterState&)> ref;
};

// every u16 member of RegisterState in declaration order, with the hardware width from the
// header's comments -- same order and widths as `fieldTable` in lean/TeakraModel/RegFile.lean
std::vector<Cell> MakeCells() {
    std::vector<Cell> c;
    auto S = [&](const char* n, u16 RegisterState::*m, unsigned bits) {
        c.push_back({n, 0, m, bits, [m](RegisterState& r) -> u16& { return r.*m; }});
    };
#define A(NAME, N, BITS)                                                                           \
    for (unsigned i = 0; i < N; ++i)                                                               \
        c.push_back({#NAME, i, nullptr, BITS, [i](RegisterState& r) -> u16& { return r.NAME[i]; }});
    S("prpage", &RegisterState::prpage, 4);
    S("cpc", &RegisterState::cpc, 1);
    S("repc", &RegisterState::repc, 16);
    S("repcs", &RegisterState::repcs, 16);
    S("crep", &RegisterState::crep, 1);
    S("bcn", &RegisterState::bcn, 3);
    S("lp", &RegisterState::lp, 1);
    S("ccnta", &RegisterState::ccnta, 1);
    S("sat", &RegisterState::sat, 1);
    S("sata", &RegisterState::sata, 1);
    S("s", &RegisterState::s, 1);
    S("sv", &RegisterState::sv, 16);
    S("fz", &RegisterState::fz, 1);
    S("fm", &RegisterState::fm, 1);
    S("fn", &RegisterState::fn, 1);
    S("fv", &RegisterState::fv, 1);
    S("fe", &RegisterState::fe, 1);
    S("fc0", &RegisterState::fc0, 1);
    S("fc1", &RegisterState::fc1, 1);
    S("flm", &RegisterState::flm, 1);
    S("fvl", &RegisterState::fvl, 1);
    S("fr", &RegisterState::fr, 1);
    S("vtr0", &RegisterState::vtr0, 16);
    S("vtr1", &RegisterState::vtr1, 16);
    A(x, 2, 16)
    A(y, 2, 16)
    S("hwm", &RegisterState::hwm, 2);
    A(pe, 2, 1)
    A(ps, 2, 2)
    S("p0h_cbs", &RegisterState::p0h_cbs, 16);
    A(r, 8, 16)
    S("mixp", &RegisterState::mixp, 16);
    S("sp", &RegisterState::sp, 16);
    S("page", &RegisterState::page, 8);
    S("pcmhi", &RegisterState::pcmhi, 2);
    S("r0b", &RegisterState::r0b, 16);
    S("r1b", &RegisterState::r1b, 16);
    S("r4b", &RegisterState::r4b, 16);
    S("r7b", &RegisterState::r7b, 16);
    S("stepi", &RegisterState::stepi, 7);
    S("stepj", &RegisterState::stepj, 7);
    S("modi", &RegisterState::modi, 9);
    S("modj", &RegisterState::modj, 9);
    S("stepi0", &RegisterState::stepi0, 16);
    S("stepj0", &RegisterState::stepj0, 16);
    S("stepib", &RegisterState::stepib, 7);
    S("stepjb", &RegisterState::stepjb, 7);
    S("modib", &RegisterState::modib, 9);
    S("modjb", &RegisterState::modjb, 9);
    S("stepi0b", &RegisterState::stepi0b, 16);
    S("stepj0b", &RegisterState::stepj0b, 16);
    A(m, 8, 1)
    A(br, 8, 1)
    S("stp16", &RegisterState::stp16, 1);
    S("cmd", &RegisterState::cmd, 1);
    S("epi", &RegisterState::epi, 1);
    S("epj", &RegisterState::epj, 1);
    A(arstep, 4, 3)
    A(arpstepi, 4, 3)
    A(arpstepj, 4, 3)
    A(aroffset, 4, 2)
    A(arpoffseti, 4, 2)
    A(arpoffsetj, 4, 2)
    A(arrn, 4, 3)
    A(arprni, 4, 2)
    A(arprnj, 4, 2)
    A(ip, 3, 1)
    S("ipv", &RegisterState::ipv, 1);
    A(im, 3, 1)
    S("imv", &RegisterState::imv, 1);
    A(ic, 3, 1)
    S("nimc", &RegisterState::nimc, 1);
    S("ie", &RegisterState::ie, 1);
    A(ou, 5, 1)
    A(iu, 2, 1)
    A(ext, 4, 16)
    S("mod0_unk_const", &RegisterState::mod0_unk_const, 3);
#undef A
    return c;
}

struct Word {
    const char* name;
    u16 (*get)(const RegisterState&);
    void (*set)(RegisterState&, u16);
};

#define W(NAME)                                                                                    \
    Word {                                                                                         \
        #NAME, [](const RegisterState& r) -> u16 { return r.Get<Teakra::NAME>(); },                \
            [](RegisterState& r, u16 v) { r.Set<Teakra::NAME>(v); }                                \
    }
// the 19 words in header order
const std::vector<Word> kWords = {W(cfgi), W(cfgj), W(stt0), W(stt1), W(stt2), W(mod0), W(mod1),
                                  W(mod2), W(mod3), W(st0),  W(st1),  W(st2),  W(icr),  W(ar0),
                                  W(ar1),  W(arp0), W(arp1), W(arp2), W(arp3)};
#undef W

u64 Sm64(u64& x) {
    x += 0x9E3779B97F4A7C15ULL;
    u64 z = x;
    z = (z ^ (z >> 30)) * 0xBF58476D1CE4E5B9ULL;
    z = (z ^ (z >> 27)) * 0x94D049BB133111EBULL;
    return z ^ (z >> 31);
}
u64 Mix(u64 h, u64 x) {
    h = (h ^ x) * 0x9E3779B97F4A7C15ULL;
    return h ^ (h >> 32);
}
constexpr u64 kDigest0 = 0xCBF29CE484222325ULL;
u64 Sx40(u64 r) {
    u64 v = r & 0xFFFFFFFFFFULL;
    return (v & 0x8000000000ULL) ? (v | 0xFFFFFF0000000000ULL) : v;
}
u64 StrDigest(u64 h, const std::string& s) {
    for (unsigned char ch : s) h = Mix(h, ch);
    return Mix(h, 0xFF);
}

const char* const kStepNames[8] = {"++0", "++1", "--1", "++s", "++2", "--2", "++2*", "--2*"};
const char* const kOffsetNames[4] = {"+0", "+1", "-1", "-1*"};

struct RegsUnit {
    RegisterState r{};
    std::vector<Cell> cells = MakeCells();

    // (opcode, token position) whose token, without settings, is "[arrn<k>+ars<j>]" etc.
    RegsUnit() { Fill(0, false); }  // both sides start from `set 0`
    bool searched = false;
    std::optional<std::pair<u16, size_t>> ars[4][4], arpsi[4][4], arpsj[4][4];

    void Search() {
        if (searched) return;
        searched = true;
        // "[<a><k>+<b><j>]" with single digits k, j in 0..3
        auto match = [](const std::string& t, const char* a, const char* b, int& k, int& j) {
            std::string pa = std::string("[") + a, pb = std::string("+") + b;
            size_t n = pa.size() + 1 + pb.size() + 1 + 1;
            if (t.size() != n || t.compare(0, pa.size(), pa) != 0) return false;
            k = t[pa.size()] - '0';
            if (t.compare(pa.size() + 1, pb.size(), pb) != 0) return false;
            j = t[pa.size() + 1 + pb.size()] - '0';
            return t.back() == ']' && k >= 0 && k < 4 && j >= 0 && j < 4;
        };
        for (u32 op = 0; op < 0x10000; ++op) {
            std::vector<std::string> t;
            try {
                t = Teakra::Disassembler::GetTokenList((u16)op, 0, std::nullopt);
            } catch (...) {
                continue;
            }
            for (size_t i = 0; i < t.size(); ++i) {
                int k, j;
                if (match(t[i], "arrn", "ars", k, j)) {
                    if (!ars[k][j]) ars[k][j] = std::make_pair((u16)op, i);
                } else if (match(t[i], "arprni", "arpsi", k, j)) {
                    if (!arpsi[k][j]) arpsi[k][j] = std::make_pair((u16)op, i);
                } else if (match(t[i], "arprnj", "arpsj", k, j)) {
                    if (!arpsj[k][j]) arpsj[k][j] = std::make_pair((u16)op, i);
                }
            }
        }
    }

    std::string Token(const std::optional<std::pair<u16, size_t>>& e,
                      const Teakra::Disassembler::ArArpSettings& s) {
        if (!e) return "no-opcode";
        auto t = Teakra::Disassembler::GetTokenList(e->first, 0, s);
        if (e->second >= t.size()) return "no-token";
        return t[e->second];
    }

    void Fill(u64 seed, bool raw) {
        r = RegisterState{};
        u64 x = seed;
        for (auto& c : cells) {
            u64 v = Sm64(x);
            u64 masked = v & ((1ULL << c.bits) - 1);
            c.ref(r) = (u16)((raw && ((v >> 56) & 3) == 0) ? (v & 0xFFFF) : masked);
        }
        u64 r0 = Sm64(x), r1 = Sm64(x);
        r.a[0] = raw ? r0 : Sx40(r0);
        r.a[1] = raw ? r1 : Sx40(r1);
        r.pc = (u32)(Sm64(x) & 0x3FFFF);
        r.rep = (Sm64(x) & 1) != 0;
        for (auto& f : r.bkrep_stack) {
            f.start = (u32)(Sm64(x) & 0x3FFFF);
            f.end = (u32)(Sm64(x) & 0x3FFFF);
            f.lc = (u16)(Sm64(x) & 0xFFFF);
        }
        r.b[0] = Sx40(Sm64(x));
        r.b[1] = Sx40(Sm64(x));
        r.a1s = Sx40(Sm64(x));
        r.b1s = Sx40(Sm64(x));
        r.p[0] = (u32)(Sm64(x) & 0xFFFFFFFF);
        r.p[1] = (u32)(Sm64(x) & 0xFFFFFFFF);
    }

    template <typename F>
    void Others(const RegisterState& s, F f) {
        f(s.pc);
        f(s.rep ? 1 : 0);
        for (auto& fr : s.bkrep_stack) {
            f(fr.start);
            f(fr.end);
            f(fr.lc);
        }
        f(s.b[0]);
        f(s.b[1]);
        f(s.a1s);
        f(s.b1s);
        f(s.p[0]);
        f(s.p[1]);
    }

    // first: members, a[0..1], unreachable members; second: the same extended by the 19 words as read
    std::pair<u64, u64> StateDigest(RegisterState& s) {
        u64 h = kDigest0;
        for (auto& c : cells) h = Mix(h, c.ref(s));
        h = Mix(h, s.a[0]);
        h = Mix(h, s.a[1]);
        Others(s, [&](u64 v) { h = Mix(h, v); });
        u64 hm = h;
        for (auto& w : kWords) h = Mix(h, w.get(s));
        return {hm, h};
    }

    std::string Dump() {
        Out o;
        for (auto& c : cells) o << c.ref(r);
        o << r.a[0] << r.a[1];
        Others(r, [&](u64 v) { o << v; });
        for (auto& w : kWords) o << w.get(r);
        return o.s;
    }

    const Word& FindWord(const std::string& n) {
        for (auto& w : kWords)
            if (n == w.name) return w;
        throw std::string("bad-op");
    }

    // word `idx` of the swept array holds v, every other word of that array its complement
    Teakra::Disassembler::ArArpSettings SweepSetting(bool arp, unsigned idx, u16 v) {
        Teakra::Disassembler::ArArpSettings s{};
        if (arp) {
            for (unsigned i = 0; i < 4; ++i) s.arp[i] = i == idx ? v : (u16)~v;
        } else {
            for (unsigned i = 0; i < 2; ++i) s.ar[i] = i == idx ? v : (u16)~v;
        }
        return s;
    }

    std::string Do(const Args& a) {
        if (a.empty()) throw std::string("bad-op");
        const std::string& op = a[0];
        if ((op == "set" || op == "setraw") && a.size() == 2) {
            Fill(H(a[1]), op == "setraw");
            return "ok";
        }
        if (op == "cells" && a.size() == 1) {
            std::string s;
            for (auto& c : cells) {
                if (!s.empty()) s += ' ';
                s += c.name;
                s += '[' + std::to_string(c.idx) + ']';
            }
            s += " |";
            for (auto& w : kWords) s += std::string(" ") + w.name;
            return s;
        }
        if (op == "dump" && a.size() == 1) return Dump();
        if (op == "get" && a.size() == 2) return Hex(FindWord(a[1]).get(r));
        if (op == "put" && a.size() == 3) {
            const Word& w = FindWord(a[1]);
            w.set(r, (u16)H(a[2]));
            auto d = StateDigest(r);
            return Hex(w.get(r)) + " " + Hex(d.first) + " " + Hex(d.second);
        }
        if (op == "check" && a.size() == 4) {
            const Word& w = FindWord(a[1]);
            u64 v = H(a[2]), m = H(a[3]);
            w.set(r, (u16)v);
            u64 g = w.get(r);
            if ((g & m) == ((v & 0xFFFF) & m)) return "same";
            return "DIFF roundtrip wrote=" + Hex(v) + " read=" + Hex(g) + " mask=" + Hex(m);
        }
        if (op == "sweep" && a.size() == 4) {
            const Word& w = FindWord(a[1]);
            u64 lo = H(a[2]), hi = H(a[3]);
            u64 hm = kDigest0, ha = kDigest0;
            for (u64 v = lo; v < hi; ++v) {
                RegisterState s = r;
                w.set(s, (u16)v);
                u64 g = w.get(s);
                auto d = StateDigest(s);
                hm = Mix(Mix(hm, g), d.first);
                ha = Mix(Mix(ha, g), d.second);
            }
            return Hex(hm) + " " + Hex(ha);
        }
        if (op == "dsmar" && a.size() == 5) {
            u64 k = H(a[1]), j = H(a[2]);
            if (k >= 4 || j >= 4) throw std::string("bad-op");
            Search();
            Teakra::Disassembler::ArArpSettings s{};
            s.ar[0] = (u16)H(a[3]);
            s.ar[1] = (u16)H(a[4]);
            return Token(ars[k][j], s);
        }
        if (op == "dsmarp" && a.size() == 8) {
            u64 k = H(a[1]), ji = H(a[2]), jj = H(a[3]);
            if (k >= 4 || ji >= 4 || jj >= 4) throw std::string("bad-op");
            Search();
            Teakra::Disassembler::ArArpSettings s{};
            for (unsigned i = 0; i < 4; ++i) s.arp[i] = (u16)H(a[4 + i]);
            return Token(arpsi[k][ji], s) + " " + Token(arpsj[k][jj], s);
        }
        if (op == "dsmsweep" && a.size() == 5) {
            bool arp = a[1] == "arp";
            if (!arp && a[1] != "ar") throw std::string("bad-op");
            u64 idx = H(a[2]), lo = H(a[3]), hi = H(a[4]);
            if (idx >= (arp ? 4u : 2u)) throw std::string("bad-op");
            Search();
            u64 h = kDigest0;
            for (u64 v = lo; v < hi; ++v) {
                auto s = SweepSetting(arp, (unsigned)idx, (u16)v);
                for (unsigned k = 0; k < 4; ++k) {
                    if (arp) {
                        h = StrDigest(h, Token(arpsi[k][k], s));
                        h = StrDigest(h, Token(arpsj[k][k], s));
                    } else {
                        h = StrDigest(h, Token(ars[k][k], s));
                    }
                }
            }
            return Hex(h);
        }
        if (op == "archeck" && a.size() == 5) {
            // the property on the implementation itself: Set<ar/arp>(v) on a RegisterState, then the
            // members the interpreter reads, rendered like the disassembler, against the
            // disassembler's own reading of the raw word
            bool arp = a[1] == "arp";
            if (!arp && a[1] != "ar") throw std::string("bad-op");
            u64 idx = H(a[2]), lo = H(a[3]), hi = H(a[4]);
            if (idx >= (arp ? 4u : 2u)) throw std::string("bad-op");
            Search();
            const Word& w = FindWord((arp ? "arp" : "ar") + std::to_string(idx));
            for (u64 v = lo; v < hi; ++v) {
                RegisterState s{};
                w.set(s, (u16)v);
                Teakra::Disassembler::ArArpSettings st{};
                for (auto& x : st.ar) x = (u16)v;
                for (auto& x : st.arp) x = (u16)v;
                auto name = [](u16 i, const char* const* t, unsigned n) {
                    return i < n ? std::string(t[i]) : std::string("?");
                };
                if (arp) {
                    std::string ia = "[%r" + std::to_string(s.arprni[idx]) +
                                     name(s.arpoffseti[idx], kOffsetNames, 4) +
                                     name(s.arpstepi[idx], kStepNames, 8) + "] [%r" +
                                     std::to_string(s.arprnj[idx] + 4) +
                                     name(s.arpoffsetj[idx], kOffsetNames, 4) +
                                     name(s.arpstepj[idx], kStepNames, 8) + "]";
                    std::string d = Token(arpsi[idx][idx], st) + " " + Token(arpsj[idx][idx], st);
                    if (ia != d) return "DIFF v=" + Hex(v) + " interp=" + ia + " dsm=" + d;
                } else {
                    for (unsigned k = 2 * idx; k < 2 * idx + 2; ++k) {
                        std::string ia = "[%r" + std::to_string(s.arrn[k]) +
                                         name(s.aroffset[k], kOffsetNames, 4) +
                                         name(s.arstep[k], kStepNames, 8) + "]";
                        std::string d = Token(ars[k][k], st);
                        if (ia != d)
                            return "DIFF v=" + Hex(v) + " k=" + std::to_string(k) + " interp=" + ia +
                                   " dsm=" + d;
                    }
                }
            }
            return "same";
        }
        throw std::string("bad-op");
    }
};
RegsUnit unit;
Registrar reg("regs", [](const Args& a) { return unit.Do(a); });
} // namespace
