// units "apbp" (one stand-alone Teakra::Apbp, src/apbp.cpp) and "apbpsys" (the two Apbp
// instances as wired into a real Teakra::Teakra: host API of src/teakra.cpp + MMIO cells of
// src/mmio.cpp 0x0C0..0x0D8, ICU request/acknowledge 0x200/0x202).
// Response of every op: "<ret> <events> <dump>"; see lean/Drive/Apbp.lean.
#include <memory>
#include "h.hpp"
#include "apbp.h"
#include "teakra/teakra.h"

namespace {

struct Events {
    std::string s;
    void Add(const std::string& e) {
        if (!s.empty()) s += ',';
        s += e;
    }
    std::string Take() {
        std::string r = s.empty() ? "-" : s;
        s.clear();
        return r;
    }
};

// A channel index >= 3 indexes std::array<DataChannel, 3> out of bounds (no check in the C++):
// never performed, answered as "oob".
unsigned Chan(const std::string& a) {
    uint64_t c = H(a);
    if (c >= 3) throw std::string("oob");
    return (unsigned)c;
}

struct ApbpUnit {
    std::unique_ptr<Teakra::Apbp> a;
    Events ev;

    void New() {
        a = std::make_unique<Teakra::Apbp>();
        for (unsigned i = 0; i < 3; ++i)
            a->SetDataHandler(i, [this, i] { ev.Add("d" + Hex(i)); });
        a->SetSemaphoreHandler([this] { ev.Add("s"); });
    }
    ApbpUnit() { New(); }

    std::string Reply(uint64_t ret) {
        Out o;
        o << ret << ev.Take();
        for (unsigned i = 0; i < 3; ++i)
            o << (uint64_t)a->IsDataReady(i) << a->PeekData(i) << a->GetDisableInterrupt(i);
        o << a->GetSemaphore() << a->GetSemaphoreMask() << (uint64_t)a->IsSemaphoreSignaled();
        return o.s;
    }
    bool Signal() const { return (a->GetSemaphore() & ~a->GetSemaphoreMask() & 0xFFFF) != 0; }

    // the property, evaluated on the implementation around one semaphore operation
    template <typename F>
    std::string Checked(bool check, F&& f) {
        bool before = a->IsSemaphoreSignaled();
        f();
        if (!check) return Reply(0);
        bool after = a->IsSemaphoreSignaled();
        bool irq = ev.s.find('s') != std::string::npos;
        std::string bad;
        auto add = [&bad](const char* w) { bad += bad.empty() ? "" : "+"; bad += w; };
        if (after != Signal()) add("signal");
        if (!before && after && !irq) add("rise-without-irq");
        if (!before && !after && irq) add("irq-while-zero");
        return (bad.empty() ? std::string("same ") : "DIFF:" + bad + " ") + Reply(0);
    }

    std::string Do(const Args& x) {
        ev.s.clear();
        if (x.empty()) throw std::string("bad-op");
        const std::string& op = x[0];
        size_t n = x.size();
        if (op == "new" && n == 1) { New(); return Reply(0); }
        if (op == "reset" && n == 1) { a->Reset(); return Reply(0); }
        if (op == "sigcheck" && n == 1)
            return (a->IsSemaphoreSignaled() == Signal() ? std::string("same ") : std::string("DIFF:signal ")) + Reply(0);
        if (op == "semget" && n == 1) return Reply(a->GetSemaphore());
        if (op == "maskget" && n == 1) return Reply(a->GetSemaphoreMask());
        if (op == "signaled" && n == 1) return Reply(a->IsSemaphoreSignaled());
        if (n == 2) {
            bool chk = op.size() > 5 && op.compare(op.size() - 5, 5, "check") == 0;
            std::string base = chk ? op.substr(0, op.size() - 5) : op;
            if (base == "semset") { u16 v = (u16)H(x[1]); return Checked(chk, [&] { a->SetSemaphore(v); }); }
            if (base == "semclear") { u16 v = (u16)H(x[1]); return Checked(chk, [&] { a->ClearSemaphore(v); }); }
            if (base == "semmask") { u16 v = (u16)H(x[1]); return Checked(chk, [&] { a->MaskSemaphore(v); }); }
            if (op == "recv") { unsigned c = Chan(x[1]); return Reply(a->RecvData(c)); }
            if (op == "peek") { unsigned c = Chan(x[1]); return Reply(a->PeekData(c)); }
            if (op == "ready") { unsigned c = Chan(x[1]); return Reply(a->IsDataReady(c)); }
            if (op == "getdis") { unsigned c = Chan(x[1]); return Reply(a->GetDisableInterrupt(c)); }
        }
        if (n == 3) {
            if (op == "send") { unsigned c = Chan(x[1]); a->SendData(c, (u16)H(x[2])); return Reply(0); }
            if (op == "setdis") { unsigned c = Chan(x[1]); a->SetDisableInterrupt(c, (u16)H(x[2])); return Reply(0); }
        }
        throw std::string("bad-op");
    }
};

struct SysUnit {
    std::unique_ptr<Teakra::Teakra> t;
    Events ev;

    void New() {
        t = std::make_unique<Teakra::Teakra>(Teakra::UserConfig{});
        for (unsigned i = 0; i < 3; ++i)
            t->SetRecvDataHandler((std::uint8_t)i, [this, i] { ev.Add("d" + Hex(i)); });
        t->SetSemaphoreHandler([this] { ev.Add("s"); });
    }

    static bool Readable(uint64_t a) {
        return (a >= 0xC0 && a <= 0xD8 && a % 2 == 0) || a == 0x200 || a == 0x202;
    }
    static bool Writable(uint64_t a) {
        return (a >= 0xC0 && a <= 0xD8 && a % 2 == 0) || a == 0x202;
    }

    std::string Reply(uint64_t ret) {
        Out o;
        o << ret << ev.Take();
        for (unsigned i = 0; i < 3; ++i) o << (uint64_t)t->SendDataIsEmpty((std::uint8_t)i);
        for (unsigned i = 0; i < 3; ++i) o << (uint64_t)t->RecvDataIsReady((std::uint8_t)i);
        o << t->GetSemaphore() << t->MMIORead(0xD6) << t->MMIORead(0xD8) << t->MMIORead(0xD2)
          << t->MMIORead(0xCE) << t->MMIORead(0xD4) << t->MMIORead(0x200);
        return o.s;
    }

    // "the DSP-side status registers and the host API report the same data-ready flags"
    std::string StatCheck() {
        u16 d6 = t->MMIORead(0xD6), d8 = t->MMIORead(0xD8);
        static const unsigned cpu6[3] = {8, 12, 13};
        std::string bad;
        for (unsigned i = 0; i < 3; ++i) {
            bool ready = t->RecvDataIsReady((std::uint8_t)i);
            bool full = !t->SendDataIsEmpty((std::uint8_t)i);
            if (((d6 >> (5 + i)) & 1) != ready) bad += "+d6.reply" + Hex(i);
            if (((d8 >> (10 + i)) & 1) != ready) bad += "+d8.reply" + Hex(i);
            if (((d6 >> cpu6[i]) & 1) != full) bad += "+d6.cmd" + Hex(i);
            if (((d8 >> (13 + i)) & 1) != full) bad += "+d8.cmd" + Hex(i);
        }
        // bit 9 of both words is apbp_from_cpu's signal flag; DSP-side it must equal
        // (semaphore 0x0D2 & ~mask 0x0CE) != 0
        bool signal = (t->MMIORead(0xD2) & ~t->MMIORead(0xCE) & 0xFFFF) != 0;
        if (((d6 >> 9) & 1) != signal) bad += "+d6.signal";
        if (((d8 >> 9) & 1) != signal) bad += "+d8.signal";
        return bad.empty() ? "same" : "DIFF:" + bad.substr(1);
    }

    std::string Do(const Args& x) {
        ev.s.clear();
        if (x.empty()) throw std::string("bad-op");
        const std::string& op = x[0];
        size_t n = x.size();
        if (op == "new" && n == 1) { New(); return Reply(0); }
        if (!t) New();
        if (op == "statcheck" && n == 1) { std::string v = StatCheck(); return v + " " + Reply(0); }
        if (op == "hsemget" && n == 1) return Reply(t->GetSemaphore());
        if (n == 2) {
            if (op == "mr") {
                uint64_t a = H(x[1]);
                if (!Readable(a)) throw std::string("bad-op");
                return Reply(t->MMIORead((u16)a));
            }
            if (op == "hempty") { unsigned c = Chan(x[1]); return Reply(t->SendDataIsEmpty((std::uint8_t)c)); }
            if (op == "hready") { unsigned c = Chan(x[1]); return Reply(t->RecvDataIsReady((std::uint8_t)c)); }
            if (op == "hrecv") { unsigned c = Chan(x[1]); return Reply(t->RecvData((std::uint8_t)c)); }
            if (op == "hpeek") { unsigned c = Chan(x[1]); return Reply(t->PeekRecvData((std::uint8_t)c)); }
            if (op == "hsemset") { t->SetSemaphore((u16)H(x[1])); return Reply(0); }
            if (op == "hsemclear") { t->ClearSemaphore((u16)H(x[1])); return Reply(0); }
            if (op == "hsemmask") { t->MaskSemaphore((u16)H(x[1])); return Reply(0); }
        }
        if (n == 3) {
            if (op == "hsend") { unsigned c = Chan(x[1]); t->SendData((std::uint8_t)c, (u16)H(x[2])); return Reply(0); }
            if (op == "mw") {
                uint64_t a = H(x[1]);
                if (!Writable(a)) throw std::string("bad-op");
                t->MMIOWrite((u16)a, (u16)H(x[2]));
                return Reply(0);
            }
        }
        throw std::string("bad-op");
    }
};

ApbpUnit apbp_unit;
SysUnit sys_unit;
Registrar reg_apbp("apbp", [](const Args& a) { return apbp_unit.Do(a); });
Registrar reg_sys("apbpsys", [](const Args& a) { return sys_unit.Do(a); });
} // namespace
