// unit "bus": a real Teakra::Teakra (src/teakra.cpp) -- the facade without the processor core:
// MMIORegion (src/mmio.cpp), MemoryInterface / MemoryInterfaceUnit (src/memory_interface.*),
// SharedMemory, the wiring of Teakra::Impl, Impl::Reset, the host API and CoreTiming::Tick/Skip.
// Same ops and answers as lean/Drive/Bus.lean (see there for the protocol).
//
// Reaching the private `Teakra::Impl`: its definition is copied verbatim from src/teakra.cpp into
// teakra_impl.gen.h (tools/gen_impl.py; identical token sequence, as the one-definition rule requires),
// and the private member `Teakra::impl` is named in an explicit template instantiation (the standard
// exempts those from access checking).  Nothing of /repo is modified.
#include <algorithm>
#include <cstring>
#include <memory>
#include <unordered_map>
#include <vector>
#include "teakra_impl.gen.h"
#include "teakra/teakra_c.h"
#include "teakra_cobj.gen.h"   // verbatim copy of `struct TeakraObject` (src/teakra_c.cpp), see tools/gen_impl.py
#include "access.hpp"
#include "h.hpp"

using A = TeakraVerifAccess;

// ------------------------------------------------------------------ access to the private implementation
struct BusView {
    Teakra::CoreTiming* core_timing;
    Teakra::MemoryInterfaceUnit* miu;
    Teakra::ICU* icu;
    std::array<Teakra::Timer, 2>* timer;
    Teakra::Ahbm* ahbm;
    Teakra::Dma* dma;
    std::array<Teakra::Btdmp, 2>* btdmp;
    Teakra::Processor* processor;
    Teakra::SharedMemory* shared_memory;
};
BusView TeakraBusView(Teakra::Teakra& t);
Teakra::Interpreter& TeakraBusInterpreter(Teakra::Processor& p);

template <class I>
BusView TeakraBusMakeView(I& i) {
    return BusView{&i.core_timing, &i.miu, &i.icu, &i.timer, &i.ahbm, &i.dma, &i.btdmp, &i.processor,
                   &i.shared_memory};
}
template <class I>
Teakra::Interpreter& TeakraBusGetInterpreter(I& i) {
    return i.interpreter;
}

template <auto M>
struct TeakraBusRob {
    friend BusView TeakraBusView(Teakra::Teakra& t) { return TeakraBusMakeView(*(t.*M)); }
};
template struct TeakraBusRob<&Teakra::Teakra::impl>;

template <auto M>
struct TeakraBusRobP {
    friend Teakra::Interpreter& TeakraBusInterpreter(Teakra::Processor& p) { return TeakraBusGetInterpreter(*(p.*M)); }
};
template struct TeakraBusRobP<&Teakra::Processor::impl>;

extern unsigned char g_new_fill;
namespace {
using Teakra::RegisterState;
#include "regflat.inc"
struct BusOob {};

uint64_t SplitMix(uint64_t x) {
    uint64_t z = x + 0x9E3779B97F4A7C15ull;
    z = (z ^ (z >> 30)) * 0xBF58476D1CE4E5B9ull;
    z = (z ^ (z >> 27)) * 0x94D049BB133111EBull;
    return z ^ (z >> 31);
}
const uint64_t kFnvInit = 0xcbf29ce484222325ull;
inline uint64_t FnvByte(uint64_t h, uint64_t b) { return (h ^ (b & 0xFF)) * 0x100000001b3ull; }
inline uint64_t FnvLE(uint64_t h, uint64_t v, int bytes) {
    for (int i = 0; i < bytes; ++i) { h = FnvByte(h, v); v >>= 8; }
    return h;
}

struct List {
    std::string s;
    void Add(const std::string& e) {
        if (!s.empty()) s += ',';
        s += e;
    }
    std::string Take() {
        std::string r = s.empty() ? "-" : s;
        s.clear();
        return r;
    }
};

// memory-observer hook: record, and report an access outside the array instead of performing it
List* g_acc = nullptr;
bool BusMemHook(std::uint32_t byte_address, bool is_write, std::uint16_t value) {
    if ((uint64_t)byte_address + 1 >= 0x80000) throw BusOob{};
    if (g_acc) g_acc->Add(is_write ? "w" + Hex(byte_address) + ":" + Hex(value) : "r" + Hex(byte_address));
    return true;
}
struct HookGuard {
    HookGuard(List* l) { g_acc = l; TeakraVerifMemHook = &BusMemHook; }
    ~HookGuard() { TeakraVerifMemHook = nullptr; g_acc = nullptr; }
};

struct ExtMemory {
    uint64_t seed = 0;
    std::unordered_map<u32, u8> ov;
    u8 Bg(u32 a) const { return (u8)(SplitMix(seed + 0x100000000ull + a) & 0xFF); }
    u8 Get(u32 a) const { auto it = ov.find(a); return it == ov.end() ? Bg(a) : it->second; }
    u32 Read(u32 a, int bytes) const {
        u32 v = 0;
        for (int i = 0; i < bytes; ++i) v |= (u32)Get(a + i) << (8 * i);
        return v;
    }
    void Write(u32 a, u32 v, int bytes) {
        for (int i = 0; i < bytes; ++i) ov[a + i] = (u8)(v >> (8 * i));
    }
};

// The host API either through the C++ facade or through the C binding (src/teakra_c.cpp, `bus new capi`): the same
// instance underneath, so every script of the unit also checks that the binding forwards faithfully.
struct Api {
    Teakra::Teakra* t = nullptr;
    TeakraContext* c = nullptr;
    u16 MMIORead(u16 a) { return c ? Teakra_MMIORead(c, a) : t->MMIORead(a); }
    void MMIOWrite(u16 a, u16 v) { if (c) Teakra_MMIOWrite(c, a, v); else t->MMIOWrite(a, v); }
    u16 DataRead(u16 a, bool b) { return c ? Teakra_DataRead(c, a, b) : t->DataRead(a, b); }
    void DataWrite(u16 a, u16 v, bool b) { if (c) Teakra_DataWrite(c, a, v, b); else t->DataWrite(a, v, b); }
    u16 ProgramRead(u32 a) { return c ? Teakra_ProgramRead(c, a) : t->ProgramRead(a); }
    void ProgramWrite(u32 a, u16 v) { if (c) Teakra_ProgramWrite(c, a, v); else t->ProgramWrite(a, v); }
    u16 DataReadA32(u32 a) { return c ? Teakra_DataReadA32(c, a) : t->DataReadA32(a); }
    void DataWriteA32(u32 a, u16 v) { if (c) Teakra_DataWriteA32(c, a, v); else t->DataWriteA32(a, v); }
    u8* GetDspMemory() { return c ? Teakra_GetDspMemory(c) : t->GetDspMemory(); }
    void Run(unsigned n) { if (c) Teakra_Run(c, n); else t->Run(n); }
    void Reset() { if (c) Teakra_Reset(c); else t->Reset(); }
    bool SendDataIsEmpty(std::uint8_t i) { return c ? Teakra_SendDataIsEmpty(c, i) != 0 : t->SendDataIsEmpty(i); }
    void SendData(std::uint8_t i, u16 v) { if (c) Teakra_SendData(c, i, v); else t->SendData(i, v); }
    bool RecvDataIsReady(std::uint8_t i) { return c ? Teakra_RecvDataIsReady(c, i) != 0 : t->RecvDataIsReady(i); }
    u16 RecvData(std::uint8_t i) { return c ? Teakra_RecvData(c, i) : t->RecvData(i); }
    u16 PeekRecvData(std::uint8_t i) { return c ? Teakra_PeekRecvData(c, i) : t->PeekRecvData(i); }
    void SetSemaphore(u16 v) { if (c) Teakra_SetSemaphore(c, v); else t->SetSemaphore(v); }
    void ClearSemaphore(u16 v) { if (c) Teakra_ClearSemaphore(c, v); else t->ClearSemaphore(v); }
    void MaskSemaphore(u16 v) { if (c) Teakra_MaskSemaphore(c, v); else t->MaskSemaphore(v); }
    u16 GetSemaphore() { return c ? Teakra_GetSemaphore(c) : t->GetSemaphore(); }
    u16 DMAChan0GetSrcHigh() { return c ? Teakra_DMAChan0GetSrcHigh(c) : t->DMAChan0GetSrcHigh(); }
    u16 DMAChan0GetDstHigh() { return c ? Teakra_DMAChan0GetDstHigh(c) : t->DMAChan0GetDstHigh(); }
    u16 AHBMGetUnitSize(u16 i) { return c ? Teakra_AHBMGetUnitSize(c, i) : t->AHBMGetUnitSize(i); }
    u16 AHBMGetDirection(u16 i) { return c ? Teakra_AHBMGetDirection(c, i) : t->AHBMGetDirection(i); }
    u16 AHBMGetDmaChannel(u16 i) { return c ? Teakra_AHBMGetDmaChannel(c, i) : t->AHBMGetDmaChannel(i); }
    u16 AHBMRead16(u32 a) { return c ? Teakra_AHBMRead16(c, a) : t->AHBMRead16(a); }
    void AHBMWrite16(u32 a, u16 v) { if (c) Teakra_AHBMWrite16(c, a, v); else t->AHBMWrite16(a, v); }
    u16 AHBMRead32(u32 a) { return c ? Teakra_AHBMRead32(c, a) : t->AHBMRead32(a); }
    void AHBMWrite32(u32 a, u32 v) { if (c) Teakra_AHBMWrite32(c, a, v); else t->AHBMWrite32(a, v); }
};

struct BusUnit {
    std::unique_ptr<Teakra::Teakra> owned;
    TeakraContext* ctx = nullptr;      // `new capi`: the instance lives inside a TeakraContext made by Teakra_Create()
    Teakra::Teakra* t = nullptr;
    Api api;
    std::vector<u8> user_buf;
    bool user = false;
    BusView v{};
    ExtMemory ext;
    List ev;
    std::pair<BusUnit*, unsigned> recv_ud[3];

    void X(const char* k, int width, u32 a, u32 val) {
        ev.Add(std::string("x") + k + std::to_string(width) + ":" + Hex(a) + ":" + Hex(val));
    }

    void New(bool use_user, bool has_seed, uint64_t seed, bool raw = false, bool capi = false) {
        owned.reset();
        if (ctx) { Teakra_Destroy(ctx); ctx = nullptr; }
        t = nullptr;
        user = use_user && !capi;
        Teakra::UserConfig cfg;
        if (user) {
            user_buf.assign(0x80000, 0);
            cfg.dsp_memory = user_buf.data();
        } else {
            user_buf.clear();
        }
        if (capi) {
            ctx = Teakra_Create();
            t = &ctx->teakra;
        } else {
            owned = std::make_unique<Teakra::Teakra>(cfg);
            t = owned.get();
        }
        api.t = t;
        api.c = ctx;
        if (user && api.GetDspMemory() != user_buf.data()) throw std::string("DIFF:raw-pointer");
        if (capi && Teakra_GetDspMemory(ctx) != api.GetDspMemory()) throw std::string("DIFF:capi-raw-pointer");
        if (has_seed) {
            u8* raw = api.GetDspMemory();
            for (u32 wa = 0; wa < 0x40000; ++wa) {
                u16 w = (u16)SplitMix(seed * 0x100000 + wa);
                raw[2 * wa] = (u8)w;
                raw[2 * wa + 1] = (u8)(w >> 8);
            }
        }
        ext = ExtMemory{};
        ext.seed = has_seed ? seed : 0;
        ev.s.clear();
        v = TeakraBusView(*t);
        if (capi) {
            Teakra_SetAudioCallback(ctx, [](void* u, int16_t s[2]) {
                static_cast<BusUnit*>(u)->ev.Add("a" + Hex((u16)s[0]) + ":" + Hex((u16)s[1])); }, this);
            recv_ud[0] = {this, 0}; recv_ud[1] = {this, 1}; recv_ud[2] = {this, 2};
            for (unsigned i = 0; i < 3; ++i)
                Teakra_SetRecvDataHandler(ctx, (std::uint8_t)i, [](void* u) {
                    auto* p = static_cast<std::pair<BusUnit*, unsigned>*>(u); p->first->ev.Add("d" + Hex(p->second)); }, &recv_ud[i]);
            Teakra_SetSemaphoreHandler(ctx, [](void* u) { static_cast<BusUnit*>(u)->ev.Add("s"); }, this);
        } else {
        t->SetAudioCallback([this](std::array<std::int16_t, 2> s) { ev.Add("a" + Hex((u16)s[0]) + ":" + Hex((u16)s[1])); });
        for (unsigned i = 0; i < 3; ++i)
            t->SetRecvDataHandler((std::uint8_t)i, [this, i] { ev.Add("d" + Hex(i)); });
        t->SetSemaphoreHandler([this] { ev.Add("s"); });
        }
        Teakra::AHBMCallback cb;
        cb.read8 = [this](u32 a) { u8 r = (u8)ext.Read(a, 1); X("r", 8, a, r); return r; };
        cb.write8 = [this](u32 a, u8 w) { X("w", 8, a, w); ext.Write(a, w, 1); };
        cb.read16 = [this](u32 a) { u16 r = (u16)ext.Read(a, 2); X("r", 16, a, r); return r; };
        cb.write16 = [this](u32 a, u16 w) { X("w", 16, a, w); ext.Write(a, w, 2); };
        cb.read32 = [this](u32 a) { u32 r = ext.Read(a, 4); X("r", 32, a, r); return r; };
        cb.write32 = [this](u32 a, u32 w) { X("w", 32, a, w); ext.Write(a, w, 4); };
        if (capi) {
            Teakra_SetAHBMCallback(ctx,
                [](void* u, uint32_t a) -> uint8_t { auto* b = static_cast<BusUnit*>(u); u8 r = (u8)b->ext.Read(a, 1); b->X("r", 8, a, r); return r; },
                [](void* u, uint32_t a, uint8_t w) { auto* b = static_cast<BusUnit*>(u); b->X("w", 8, a, w); b->ext.Write(a, w, 1); },
                [](void* u, uint32_t a) -> uint16_t { auto* b = static_cast<BusUnit*>(u); u16 r = (u16)b->ext.Read(a, 2); b->X("r", 16, a, r); return r; },
                [](void* u, uint32_t a, uint16_t w) { auto* b = static_cast<BusUnit*>(u); b->X("w", 16, a, w); b->ext.Write(a, w, 2); },
                [](void* u, uint32_t a) -> uint32_t { auto* b = static_cast<BusUnit*>(u); u32 r = b->ext.Read(a, 4); b->X("r", 32, a, r); return r; },
                [](void* u, uint32_t a, uint32_t w) { auto* b = static_cast<BusUnit*>(u); b->X("w", 32, a, w); b->ext.Write(a, w, 4); },
                this);
        } else {
            t->SetAHBMCallback(cb);
        }
        // observe the ICU -> processor signalling in emission order, keeping the original wiring
        auto oi = A::IcuOnInterrupt(*v.icu);
        auto ov = A::IcuOnVectored(*v.icu);
        A::IcuOnInterrupt(*v.icu) = [this, oi](u32 i) { ev.Add("i" + Hex(i)); oi(i); };
        A::IcuOnVectored(*v.icu) = [this, ov](u32 a, bool c) { ev.Add("v" + Hex(a) + ":" + Hex(c)); ov(a, c); };
        // the constructor leaves the ICU vector arrays uninitialised (`newraw` keeps them as constructed: C17)
        for (unsigned i = 0; i < 16 && !raw; ++i) {
            api.MMIOWrite((u16)(0x212 + 4 * i), 0);
            api.MMIOWrite((u16)(0x214 + 4 * i), 0);
        }
    }

    // ---- guards for what the C++ leaves undefined / endless
    static bool IsWindow(unsigned off) { return off >= 0x1C0 && off <= 0x1DE && off % 2 == 0; }
    u16 Active() { return api.MMIORead(0x1BE); }
    void PreRead(unsigned off) {
        if (IsWindow(off) && Active() >= 8) throw std::string("oob");
    }
    void PreWrite(unsigned off, u16 val) {
        if (!IsWindow(off)) return;
        u16 a = Active();
        if (a >= 8) throw std::string("oob");
        if (off == 0x1DE && val == 0x40C0) {
            auto& c = A::DmaChannel(*v.dma, a);
            if (c.dword_mode != 0 && c.size0 == 0xFFFF) throw std::string("hang");
            uint64_t n0 = std::max<uint64_t>(c.size0, 1), n1 = std::max<uint64_t>(c.size1, 1),
                     n2 = std::max<uint64_t>(c.size2, 1);
            if (c.dword_mode != 0) n0 = (n0 + 1) / 2;
            if (n0 * n1 * n2 > 0x10000) throw std::string("toolong");
        }
    }
    // offset reached by a data access, -1 if it does not go to the MMIO window (or ToMMIO asserts first)
    int WindowOff(u16 addr, bool bypass) {
        if (v.miu->InMMIO(addr) && !bypass && v.miu->z_page == 0) return (u16)(addr - v.miu->mmio_base) & 0x7FF;
        return -1;
    }
    // ConvertDataAddress without its ASSERTs
    bool Convert(u16 addr, u32& out) {
        auto& m = *v.miu;
        u16 page;
        if (m.page_mode == 0) page = m.z_page;
        else if (addr <= m.x_size[0] * 0x400) page = m.x_page;
        else page = m.y_page;
        if (page >= 2) return false;
        out = 0x20000u + addr + page * 0x10000u;
        return true;
    }
    static unsigned Index(const std::string& a) {
        uint64_t c = H(a);
        if (c >= 3) throw std::string("oob");
        return (unsigned)c;
    }

    uint64_t Digest() {
        uint64_t h = kFnvInit;
        bool bad_window = Active() >= 8;
        for (unsigned off = 0; off < 0x800; ++off) {
            if (off == 0xC2 || off == 0xC6 || off == 0xCA) continue;
            uint64_t val = (bad_window && IsWindow(off)) ? 0x10000 : api.MMIORead((u16)off);
            h = FnvLE(h, val, 3);
        }
        return h;
    }
    uint64_t MemDigest() {
        const u8* raw = api.GetDspMemory();
        uint64_t h = kFnvInit;
        for (u32 i = 0; i < 0x80000; ++i) h = FnvByte(h, raw[i]);
        return h;
    }
    std::string TState() {
        std::string s;
        for (unsigned i = 0; i < 2; ++i) {
            auto& tm = (*v.timer)[i];
            Out o;
            o << tm.update_mmio << tm.pause << (u16)tm.count_mode << tm.scale << tm.start_high << tm.start_low
              << tm.counter << tm.counter_high << tm.counter_low;
            s += o.s + " / ";
        }
        for (unsigned i = 0; i < 2; ++i) {
            auto& b = (*v.btdmp)[i];
            Out o;
            auto q = A::BtQueue(b);
            o << A::BtClockConfig(b) << A::BtPeriod(b) << A::BtTimer(b) << A::BtEnable(b) << (uint64_t)A::BtEmpty(b)
              << (uint64_t)A::BtFull(b) << q.size();
            while (!q.empty()) { o << q.front(); q.pop(); }
            s += o.s + (i == 0 ? " / " : "");
        }
        return s;
    }


    static bool IsFifo(unsigned off) { return off == 0xC2 || off == 0xC6 || off == 0xCA; }
    void Snapshot(std::vector<uint32_t>& out) {
        out.assign(0x800, 0);
        bool bad_window = Active() >= 8;
        for (unsigned off = 0; off < 0x800; ++off) {
            if (IsFifo(off)) continue;
            out[off] = (bad_window && IsWindow(off)) ? 0x10000u : api.MMIORead((u16)off);
        }
    }
    // one write between two snapshots of every side-effect-free read
    std::string WCheck(unsigned path, unsigned off, u16 val) {
        if (off >= 0x800 || path > 1) throw std::string("bad-op");
        u16 host_addr = (u16)(off + 0x800 * ((val ^ off) % 32));
        unsigned dsp_addr = v.miu->mmio_base + off;
        if (path == 1 && !(v.miu->z_page == 0 && dsp_addr <= 0xFFFF)) return "skip";
        PreWrite(off, val);
        std::vector<uint32_t> before, after;
        Snapshot(before);
        ev.s.clear();
        if (path == 0) api.MMIOWrite(host_addr, val);
        else api.DataWrite((u16)dsp_addr, val, false);
        std::string events = ev.Take();
        Snapshot(after);
        std::string chg;
        for (unsigned o = 0; o < 0x800; ++o)
            if (o != off && before[o] != after[o]) {
                if (!chg.empty()) chg += ',';
                chg += Hex(o) + ":" + Hex(before[o]) + ">" + Hex(after[o]);
            }
        std::string rb = "-";
        if (!IsFifo(off)) {
            bool bad = IsWindow(off) && Active() >= 8;
            if (path == 0) {
                rb = bad ? "oob" : Hex(api.MMIORead(host_addr));
            } else {
                unsigned a2 = v.miu->mmio_base + off;
                if (v.miu->z_page == 0 && a2 <= 0xFFFF) rb = bad ? "oob" : Hex(api.DataRead((u16)a2, false));
            }
        }
        ev.s.clear();
        return "ok | " + events + " | " + rb + " | " + (chg.empty() ? "-" : chg);
    }


    // a store into the MMIO window must not touch memory; with bypass it must touch only memory
    std::string WinCheck(u16 addr, u16 val) {
        int off = WindowOff(addr, false);
        if (off < 0 || (off == 0x1DE && val == 0x40C0)) return "skip";
        PreWrite(off, val);
        u8* raw = api.GetDspMemory();
        std::vector<u8> before(raw, raw + 0x80000);
        std::string bad;
        api.DataWrite(addr, val, false);
        if (std::memcmp(raw, before.data(), 0x80000) != 0) bad += "+mem-changed";
        std::string events = ev.Take();
        u32 conv;
        if (!Convert(addr, conv)) return std::string(bad.empty() ? "same" : "DIFF:" + bad.substr(1)) + " | " + events + " | noconv";
        u32 byte = conv * 2;
        u16 under = (u16)(before[byte] | (before[byte + 1] << 8));
        if (api.DataRead(addr, true) != under) bad += "+bypass-read";
        bool fifo = IsFifo(off), badw = IsWindow(off) && Active() >= 8;
        u16 reg0 = (fifo || badw) ? 0 : api.MMIORead((u16)off);
        api.DataWrite(addr, (u16)~val, true);
        if ((u16)(raw[byte] | (raw[byte + 1] << 8)) != (u16)~val) bad += "+bypass-write";
        for (u32 i = 0; i < 0x80000; ++i)
            if (i != byte && i != byte + 1 && raw[i] != before[i]) { bad += "+other@" + Hex(i); break; }
        u16 reg1 = (fifo || badw) ? 0 : api.MMIORead((u16)off);
        if (reg0 != reg1) bad += "+register-changed-by-bypass";
        ev.s.clear();
        return std::string(bad.empty() ? "same" : "DIFF:" + bad.substr(1)) + " | " + events + " | " + Hex(under);
    }

    std::string MirrorCheck(unsigned off) {
        PreRead(off);
        u16 v0 = api.MMIORead((u16)off);
        std::string bad;
        for (unsigned j = 1; j < 32; ++j)
            if (api.MMIORead((u16)(off + 0x800 * j)) != v0) bad += "+mirror" + Hex(j);
        auto& m = *v.miu;
        unsigned addr = m.mmio_base + off;
        if (m.z_page == 0 && addr <= 0xFFFF && m.InMMIO((u16)addr)) {
            if (api.DataRead((u16)addr, false) != v0) bad += "+data";
        }
        return bad.empty() ? "same " + Hex(v0) : "DIFF:" + bad.substr(1) + " " + Hex(v0);
    }

    // write `val` into the memory cell with word index w through `path`, then look at it through every view
    std::string ViewCheck(const std::string& path, u32 w, u16 val) {
        if (w >= 0x40000) throw std::string("bad-op");
        u8* raw = api.GetDspMemory();
        std::vector<u8> before(raw, raw + 0x80000);
        if (path == "pw") {
            api.ProgramWrite(w, val);
        } else if (path == "aw") {
            if (w < 0x20000) return "skip";
            api.DataWriteA32(w - 0x20000, val);
        } else if (path == "raw") {
            raw[2 * w] = (u8)val;
            raw[2 * w + 1] = (u8)(val >> 8);
        } else if (path == "dw" || path == "dwb") {
            if (w < 0x20000) return "skip";
            u16 addr = (u16)((w - 0x20000) % 0x10000);
            bool byp = path == "dwb";
            u32 conv;
            if (!Convert(addr, conv) || conv != w || (!byp && v.miu->InMMIO(addr))) return "skip";
            api.DataWrite(addr, val, byp);
        } else {
            throw std::string("bad-op");
        }
        std::string bad;
        if (api.ProgramRead(w) != val) bad += "+pr";
        if (raw[2 * w] != (u8)val || raw[2 * w + 1] != (u8)(val >> 8)) bad += "+raw";
        if (user && (user_buf[2 * w] != (u8)val || user_buf[2 * w + 1] != (u8)(val >> 8))) bad += "+userbuf";
        if (w >= 0x20000) {
            if (api.DataReadA32(w - 0x20000) != val) bad += "+ar";
            if (api.DataReadA32((w - 0x20000) | 0xABC20000u) != val) bad += "+ar-mask";
            u16 addr = (u16)((w - 0x20000) % 0x10000);
            u32 conv;
            if (Convert(addr, conv) && conv == w) {
                if (api.DataRead(addr, true) != val) bad += "+dr-bypass";
                if (!v.miu->InMMIO(addr) && api.DataRead(addr, false) != val) bad += "+dr";
            }
        }
        for (u32 i = 0; i < 0x80000; ++i)
            if (i != 2 * w && i != 2 * w + 1 && raw[i] != before[i]) { bad += "+other@" + Hex(i); break; }
        return bad.empty() ? "same" : "DIFF:" + bad.substr(1);
    }

    std::string E() { return " | " + ev.Take(); }

    // ---- the processor core (system-level ops): registers in the flat protocol order of tools/gen_flat.py
    RegisterState& Regs() { return t->GetRegisterState(); }
    // the same draw procedure as Drive/Interp.lean genRegs (and harness/u_interp.cpp)
    void GenRegs(uint64_t seed) {
        RegisterState& r = Regs();
        uint64_t s = seed;
        auto next = [&s]() { s += 1; return SplitMix(s * 0x2545F4914F6CDD1Dull + 0x1234567); };
        for (int i = 0; i < kFlatCount; ++i) {
            const FlatField& f = kFlat[i];
            uint64_t vv = next(), val = 0;
            std::string k = f.kind;
            if (k == "z") val = 0;
            else if (k[0] == 'c') val = std::stoull(k.substr(1));
            else if (k == "acc") {
                uint64_t x = next();
                unsigned sel = vv & 7;
                if (sel == 0) val = 0;
                else if (sel < 4) val = (uint64_t)(int64_t)(int32_t)(uint32_t)x;
                else val = (x & 0x8000000000ull) ? (x | 0xFFFFFF0000000000ull) : (x & 0xFFFFFFFFFFull);
            } else {
                uint64_t mask = f.width >= 64 ? ~0ull : ((1ull << f.width) - 1);
                unsigned sel = vv & 7;
                uint64_t x = (vv >> 8) & mask;
                if (sel == 0) val = 0;
                else if (sel == 1) val = mask;
                else if (sel == 2) val = 1ull << (f.width - 1);
                else if (sel == 3) val = (1ull << (f.width - 1)) - 1;
                else val = x;
                if (k == "pc" && val > 0x3FFF0) val -= 0x10;
            }
            f.set(r, val);
        }
    }
    std::string DumpRegs() {
        Out o;
        for (int i = 0; i < kFlatCount; ++i) o << kFlat[i].get(Regs());
        return o.s;
    }
    uint64_t RegDigest() {
        uint64_t h = kFnvInit;
        for (int i = 0; i < kFlatCount; ++i) h = FnvLE(h, kFlat[i].get(Regs()), 8);
        return h;
    }
    std::string Latches() {   // non-destructive
        auto& in = TeakraBusInterpreter(*v.processor);
        Out o;
        for (unsigned i = 0; i < 3; ++i) o << (uint64_t)A::IntPending(in)[i].load();
        bool vp = A::VintPending(in).load();
        o << (uint64_t)vp;
        if (vp) o << (uint64_t)A::VintContext(in).load() << (uint64_t)A::VintAddress(in).load();
        else o << (uint64_t)0 << (uint64_t)0;
        return o.s;
    }

    std::string Do(const Args& x) {
        ev.s.clear();
        if (x.empty()) throw std::string("bad-op");
        const std::string& op = x[0];
        size_t n = x.size();
        if (op == "new" || op == "newraw") {
            if (n < 2 || n > 3 || (x[1] != "own" && x[1] != "user" && x[1] != "capi")) throw std::string("bad-op");
            uint64_t seed = n == 3 ? H(x[2]) : 0;
            New(x[1] == "user", n == 3, seed, op == "newraw", x[1] == "capi");
            return "ok";
        }
        if (op == "fill" && n == 2) {   // byte every later heap allocation is pre-filled with (C17)
            g_new_fill = (unsigned char)H(x[1]);
            return "ok";
        }
        if (!t) New(false, false, 0);
        List acc;
        HookGuard hook(&acc);
        try {
            return Op(x, op, n, acc);
        } catch (const BusOob&) {
            return "oob";
        }
    }

    std::string Op(const Args& x, const std::string& op, size_t n, List& acc) {
        if (n == 1) {
            if (op == "rst") { api.Reset(); return "ok"; }
            if (op == "semget") return Hex(api.GetSemaphore()) + " | -";
            if (op == "srchi") return Hex(api.DMAChan0GetSrcHigh()) + " | -";
            if (op == "dsthi") return Hex(api.DMAChan0GetDstHigh()) + " | -";
            if (op == "tick") { v.core_timing->Tick(); return "ok" + E(); }
            if (op == "tstate") return TState();
            if (op == "digest") return Hex(Digest());
            if (op == "memdigest") return Hex(MemDigest());
            if (op == "dump") return DumpRegs();
            if (op == "regdigest") return Hex(RegDigest());
            if (op == "state") return Hex(RegDigest()) + " " + Hex(Digest()) + " " + Hex(MemDigest()) + " | " + Latches();
            if (op == "latches") return Latches();
            if (op == "latch") {
                auto& in = TeakraBusInterpreter(*v.processor);
                Out o;
                for (unsigned i = 0; i < 3; ++i) o << (uint64_t)A::IntPending(in)[i].exchange(false);
                bool vp = A::VintPending(in).exchange(false);
                o << (uint64_t)vp;
                if (vp) o << (uint64_t)A::VintContext(in).load() << (uint64_t)A::VintAddress(in).load();
                else o << (uint64_t)0 << (uint64_t)0;
                return o.s;
            }
        }
        if (n == 4 && op == "wcheck") return WCheck((unsigned)H(x[1]), (unsigned)H(x[2]), (u16)H(x[3]));
        if (n == 2 && op == "reg") {   // reg <field name>: one register-file field
            for (int i = 0; i < kFlatCount; ++i)
                if (x[1] == kFlat[i].name) return Hex(kFlat[i].get(Regs()));
            throw std::string("bad-op");
        }
        if (n == 2 && op == "kind") return "model-only";
        if (n == 4 && op == "viewcheck") return ViewCheck(x[1], (u32)H(x[2]), (u16)H(x[3]));
        if (n == 2) {
            uint64_t a = H(x[1]);
            if (op == "mr") { PreRead(a & 0x7FF); u16 r = api.MMIORead((u16)a); return Hex(r) + E(); }
            if (op == "mirrorcheck") {
                if (a >= 0x800 || a == 0xC2 || a == 0xC6 || a == 0xCA) throw std::string("bad-op");
                return MirrorCheck((unsigned)a);
            }
            if (op == "pr") { u16 r = api.ProgramRead((u32)a); return Hex(r) + " | - | " + acc.Take(); }
            if (op == "ar") { u16 r = api.DataReadA32((u32)a); return Hex(r) + " | - | " + acc.Take(); }
            if (op == "raw") { if (a >= 0x80000) throw std::string("bad-op"); return Hex(api.GetDspMemory()[a]); }
            if (op == "recv") { unsigned i = Index(x[1]); return Hex(api.RecvData((std::uint8_t)i)) + " | -"; }
            if (op == "peek") { unsigned i = Index(x[1]); return Hex(api.PeekRecvData((std::uint8_t)i)) + " | -"; }
            if (op == "ready") { unsigned i = Index(x[1]); return Hex(api.RecvDataIsReady((std::uint8_t)i)) + " | -"; }
            if (op == "empty") { unsigned i = Index(x[1]); return Hex(api.SendDataIsEmpty((std::uint8_t)i)) + " | -"; }
            if (op == "semset") { api.SetSemaphore((u16)a); return "ok" + E(); }
            if (op == "semclr") { api.ClearSemaphore((u16)a); return "ok" + E(); }
            if (op == "semmask") { api.MaskSemaphore((u16)a); return "ok" + E(); }
            if (op == "hr16") { u16 r = api.AHBMRead16((u32)a); return Hex(r) + E(); }
            if (op == "hr32") { u16 r = api.AHBMRead32((u32)a); return Hex(r) + E(); }
            if (op == "ausz") { unsigned i = Index(x[1]); return Hex(api.AHBMGetUnitSize((u16)i)) + " | -"; }
            if (op == "adir") { unsigned i = Index(x[1]); return Hex(api.AHBMGetDirection((u16)i)) + " | -"; }
            if (op == "adma") { unsigned i = Index(x[1]); return Hex(api.AHBMGetDmaChannel((u16)i)) + " | -"; }
            if (op == "gen") { GenRegs(a); return "ok"; }
            if (op == "run" || op == "steps") {   // Teakra::Run(a) resp. a times Teakra::Run(1)
                if (a > 0x4000000) throw std::string("bad-op");
                g_acc = nullptr;   // only the bounds check of the observer stays on
                if (op == "run") api.Run((unsigned)a);
                else for (uint64_t k = 0; k < a; ++k) api.Run(1);
                return "ok" + E();
            }
            if (op == "ticks") {
                if (a > 0x20000) throw std::string("bad-op");
                for (uint64_t k = 0; k < a; ++k) v.core_timing->Tick();
                return "ok" + E();
            }
            if (op == "skip") { if (a > 0x10000) throw std::string("bad-op"); u64 k = v.core_timing->Skip(a); return Hex(k) + E(); }
        }
        if (n == 3 && op == "poke") {   // poke <field name> <value>
            for (int i = 0; i < kFlatCount; ++i)
                if (x[1] == kFlat[i].name) { kFlat[i].set(Regs(), H(x[2])); return "ok"; }
            throw std::string("bad-op");
        }
        if (n == 3) {
            uint64_t a = H(x[1]), b = H(x[2]);
            if (op == "mw") { PreWrite(a & 0x7FF, (u16)b); api.MMIOWrite((u16)a, (u16)b); return "ok" + E(); }
            if (op == "dr") {
                int off = WindowOff((u16)a, b != 0);
                if (off >= 0) PreRead(off);
                u16 r = api.DataRead((u16)a, b != 0);
                return Hex(r) + E() + " | " + (off >= 0 ? std::string("-") : acc.Take());
            }
            if (op == "pw") { api.ProgramWrite((u32)a, (u16)b); return "ok | - | " + acc.Take(); }
            if (op == "aw") { api.DataWriteA32((u32)a, (u16)b); return "ok | - | " + acc.Take(); }
            if (op == "wincheck") return WinCheck((u16)a, (u16)b);
            if (op == "rawset") {
                if (a >= 0x80000) throw std::string("bad-op");
                api.GetDspMemory()[a] = (u8)b;
                return "ok";
            }
            if (op == "send") { unsigned i = Index(x[1]); api.SendData((std::uint8_t)i, (u16)b); return "ok" + E(); }
            if (op == "hw16") { api.AHBMWrite16((u32)a, (u16)b); return "ok" + E(); }
            if (op == "hw32") { api.AHBMWrite32((u32)a, (u32)b); return "ok" + E(); }
            if (op == "btperiod") {
                if (a >= 2 || b == 0 || b > 0xFFFF) throw std::string("bad-op");
                A::BtPeriod((*v.btdmp)[a]) = (u16)b;
                return "ok";
            }
        }
        if (n == 4 && op == "dw") {
            uint64_t a = H(x[1]), b = H(x[2]), c = H(x[3]);
            int off = WindowOff((u16)a, c != 0);
            if (off >= 0) PreWrite(off, (u16)b);
            api.DataWrite((u16)a, (u16)b, c != 0);
            // (a DMA started through the window reaches memory behind the facade: not an access of this call)
            return "ok" + E() + " | " + (off >= 0 ? std::string("-") : acc.Take());
        }
        throw std::string("bad-op");
    }
};

BusUnit bus_unit;
Registrar reg_bus("bus", [](const Args& a) { return bus_unit.Do(a); });
} // namespace
