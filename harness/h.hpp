// Shared helpers of the correspondence harness (line protocol, hex, unit registry).
#pragma once
#include <cstdint>
#include <cstdio>
#include <functional>
#include <map>
#include <sstream>
#include <string>
#include <vector>

using Args = std::vector<std::string>;
using Handler = std::function<std::string(const Args&)>;

std::map<std::string, Handler>& Registry();

struct Registrar {
    Registrar(const char* unit, Handler h) { Registry()[unit] = std::move(h); }
};

inline bool ParseHex(const std::string& s, uint64_t& out) {
    if (s.empty()) return false;
    out = 0;
    for (char c : s) {
        int d;
        if (c >= '0' && c <= '9') d = c - '0';
        else if (c >= 'a' && c <= 'f') d = c - 'a' + 10;
        else if (c >= 'A' && c <= 'F') d = c - 'A' + 10;
        else return false;
        out = out * 16 + d;
    }
    return true;
}

inline uint64_t H(const std::string& s) {
    uint64_t v = 0;
    if (!ParseHex(s, v)) throw std::string("bad-op");
    return v;
}

inline std::string Hex(uint64_t v) {
    char buf[32];
    std::snprintf(buf, sizeof buf, "%llx", (unsigned long long)v);
    return buf;
}

struct Out {
    std::string s;
    Out& operator<<(uint64_t v) {
        if (!s.empty()) s += ' ';
        s += Hex(v);
        return *this;
    }
    Out& operator<<(const char* t) {
        if (!s.empty()) s += ' ';
        s += t;
        return *this;
    }
    Out& operator<<(const std::string& t) {
        if (!s.empty()) s += ' ';
        s += t;
        return *this;
    }
};
