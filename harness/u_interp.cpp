// unit "interp" and friends: src/interpreter.h (heavy translation unit)
#include "h.hpp"
#include "interpreter.h"

bool IsUnimplemented(const std::exception& e) {
    return dynamic_cast<const Teakra::UnimplementedException*>(&e) != nullptr;
}
