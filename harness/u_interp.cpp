// unit "interp": one Interpreter::Run(1) on the real Teakra facade from a constructed state.
#include <cstring>
#include <unordered_map>
#include "h.hpp"
#include "interpreter.h"
#include "shared_memory.h"
#include "teakra/teakra.h"

bool IsUnimplemented(const std::exception& e) {
    return dynamic_cast<const Teakra::UnimplementedException*>(&e) != nullptr;
}

namespace {
using Teakra::RegisterState;

#include "regflat.inc"

u64 SplitMix(u64 x) {
    u64 z = x + 0x9E3779B97F4A7C15ull;
    z = (z ^ (z >> 30)) * 0xBF58476D1CE4E5B9ull;
    z = (z ^ (z >> 27)) * 0x94D049BB133111EBull;
    return z ^ (z >> 31);
}

struct Fnv {
    u64 h = 0xcbf29ce484222325ull;
    void Add(u64 v) {
        for (int i = 0; i < 8; ++i) {
            h ^= (v >> (8 * i)) & 0xFF;
            h *= 0x100000001b3ull;
        }
    }
};

struct InterpUnit;
InterpUnit* g_unit = nullptr;
} // namespace
extern void (*TeakraVerifMmioHook)(std::uint16_t address, bool is_write, std::uint16_t value);
namespace {
bool g_mmio_touched = false;

struct InterpUnit {
    std::unique_ptr<Teakra::Teakra> t;
    u64 bg_seed = 0;
    bool bg_on = false;
    // words materialised / written during the current case: word address -> original raw bytes
    std::unordered_map<u32, u16> saved;
    std::vector<std::pair<u32, std::pair<bool, u16>>> log;  // byte address, (is_write, value)
    bool oob = false;

    InterpUnit() {
        g_unit = this;
        Fresh();
    }
    void Fresh() {
        t = std::make_unique<Teakra::Teakra>(Teakra::UserConfig{});
        t->Reset();  // also defines the ShadowSwapAr/Arp members the constructor leaves uninitialised
        t->SetAudioCallback([](std::array<s16, 2>) {});
        for (int i = 0; i < 3; ++i) t->SetRecvDataHandler(i, [] {});
        t->SetSemaphoreHandler([] {});
        Teakra::AHBMCallback cb;
        cb.read8 = [](u32) -> u8 { return 0; };
        cb.write8 = [](u32, u8) {};
        cb.read16 = [](u32) -> u16 { return 0; };
        cb.write16 = [](u32, u16) {};
        cb.read32 = [](u32) -> u32 { return 0; };
        cb.write32 = [](u32, u32) {};
        t->SetAHBMCallback(cb);
        TeakraVerifMemHook = &Hook;
        TeakraVerifMmioHook = [](u16, bool, u16) { g_mmio_touched = true; };
        g_mmio_touched = false;
    }
    static u16 Bg(u64 seed, u32 wa) { return (u16)SplitMix(seed * 0x100000 + wa); }

    void Touch(u32 wa) {
        if (saved.count(wa)) return;
        u8* raw = t->GetDspMemory();
        u16 old = raw[wa * 2] | (raw[wa * 2 + 1] << 8);
        saved[wa] = old;
        if (bg_on) {
            u16 v = Bg(bg_seed, wa);
            raw[wa * 2] = v & 0xFF;
            raw[wa * 2 + 1] = v >> 8;
        }
    }
    static bool Hook(u32 byte_address, bool is_write, u16 value) {
        InterpUnit& u = *g_unit;
        u.log.push_back({byte_address, {is_write, value}});
        if ((u64)byte_address + 1 >= 0x80000) {
            u.oob = true;
            throw std::string("oob");
        }
        u.Touch(byte_address / 2);
        return true;
    }
    void RestoreMem() {
        u8* raw = t->GetDspMemory();
        for (auto& kv : saved) {
            raw[kv.first * 2] = kv.second & 0xFF;
            raw[kv.first * 2 + 1] = kv.second >> 8;
        }
        saved.clear();
        log.clear();
        oob = false;
    }
    void Poke(u32 wa, u16 v) {
        Touch(wa);
        u8* raw = t->GetDspMemory();
        raw[wa * 2] = v & 0xFF;
        raw[wa * 2 + 1] = v >> 8;
    }

    // `gen`: the same draw procedure as Drive/Interp.lean genState
    void Gen(u64 seed) {
        RegisterState& r = t->GetRegisterState();
        u64 s = seed;
        auto next = [&s]() { s += 1; return SplitMix(s * 0x2545F4914F6CDD1Dull + 0x1234567); };
        for (int i = 0; i < kFlatCount; ++i) {
            const FlatField& f = kFlat[i];
            u64 v = next();
            u64 val = 0;
            std::string k = f.kind;
            if (k == "z") val = 0;
            else if (k[0] == 'c') val = std::stoull(k.substr(1));
            else if (k == "acc") {
                u64 x = next();
                unsigned sel = v & 7;
                if (sel == 0) val = 0;
                else if (sel < 4) val = (u64)(s64)(s32)(u32)x;                 // fits 32 bits
                else val = (x & 0x8000000000ull) ? (x | 0xFFFFFF0000000000ull) : (x & 0xFFFFFFFFFFull);
            } else {
                u64 mask = f.width >= 64 ? ~0ull : ((1ull << f.width) - 1);
                unsigned sel = v & 7;
                u64 x = (v >> 8) & mask;
                if (sel == 0) val = 0;
                else if (sel == 1) val = mask;
                else if (sel == 2) val = 1ull << (f.width - 1);
                else if (sel == 3) val = (1ull << (f.width - 1)) - 1;
                else val = x;
                if (k == "pc" && val > 0x3FFF0) val -= 0x10;
            }
            f.set(r, val);
        }
    }

    std::string DumpAll() {
        RegisterState& r = t->GetRegisterState();
        Out o;
        for (int i = 0; i < kFlatCount; ++i) o << kFlat[i].get(r);
        return o.s;
    }
    u64 RegDigest() {
        RegisterState& r = t->GetRegisterState();
        Fnv f;
        for (int i = 0; i < kFlatCount; ++i) f.Add(kFlat[i].get(r));
        return f.h;
    }
    u64 LogDigest() {
        Fnv f;
        for (auto& e : log) {
            f.Add(e.first);
            f.Add(e.second.first);
            f.Add(e.second.second);
        }
        return f.h;
    }

    std::string Do(const Args& a) {
        if (a.empty()) throw std::string("bad-op");
        const std::string& op = a[0];
        RegisterState& r = t->GetRegisterState();
        if (op == "new") { RestoreMem(); Fresh(); return "ok"; }
        if (op == "gen" && a.size() == 2) {   // resync: registers from seed, memory background from seed
            RestoreMem();
            if (g_mmio_touched) Fresh();   // a previous case reached a peripheral: start from a new Teakra
            else t->Reset();
            bg_seed = H(a[1]);
            bg_on = true;
            Gen(bg_seed);
            return "ok";
        }
        if (op == "set" && (int)a.size() == kFlatCount + 1) {
            RestoreMem();
            bg_on = false;
            for (int i = 0; i < kFlatCount; ++i) kFlat[i].set(r, H(a[i + 1]));
            return "ok";
        }
        if (op == "poke" && a.size() == 3) {  // poke <field name|index> <value>
            for (int i = 0; i < kFlatCount; ++i)
                if (a[1] == kFlat[i].name) { kFlat[i].set(r, H(a[2])); return "ok"; }
            throw std::string("bad-op");
        }
        if (op == "mem" && a.size() == 3) { Poke((u32)H(a[1]), (u16)H(a[2])); return "ok"; }
        if (op == "peek" && a.size() == 2) {
            u32 wa = (u32)H(a[1]);
            Touch(wa);
            u8* raw = t->GetDspMemory();
            return Hex(raw[wa * 2] | (raw[wa * 2 + 1] << 8));
        }
        if (op == "dump") return DumpAll();
        if ((op == "step" || op == "stepv") && a.size() == 3) {
            // place opcode + expansion at pc, run exactly one cycle
            u32 pc = r.pc | ((u32)r.prpage << 18);
            if (pc + 1 < 0x40000) {
                Poke(pc, (u16)H(a[1]));
                Poke(pc + 1, (u16)H(a[2]));
            }
            log.clear();
            try {
                t->Run(1);
            } catch (...) {
                throw;
            }
            if (op == "stepv") return "ok " + DumpAll() + " | " + LogText();
            Out o;
            o << "ok" << RegDigest() << LogDigest() << (u64)log.size();
            return o.s;
        }
        if (op == "run" && a.size() == 2) {
            log.clear();
            t->Run((unsigned)H(a[1]));
            Out o;
            o << "ok" << RegDigest() << LogDigest() << (u64)log.size();
            return o.s;
        }
        if (op == "log") return LogText();
        throw std::string("bad-op");
    }
    std::string LogText() {
        Out o;
        for (auto& e : log) o << (e.second.first ? "w" : "r") << e.first << e.second.second;
        return o.s;
    }
};
InterpUnit* unit = nullptr;
Registrar reg("interp", [](const Args& a) {
    if (!unit) unit = new InterpUnit();
    return unit->Do(a);
});
} // namespace
