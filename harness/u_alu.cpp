// unit "alu": the arithmetic helpers of src/interpreter.h called directly on chosen arguments
// (AddSub, SetAccFlag, SaturateAcc, ShiftBus40, Exp, DoMultiplication, ProductToBus40,
//  StepAddress, OffsetAddress-free parts).  One bare Interpreter on its own register file.
#include "h.hpp"
#include "interpreter.h"
#include "shared_memory.h"
#include "access.hpp"

namespace {
struct AluUnit {
    Teakra::CoreTiming ct;
    Teakra::RegisterState regs;
    Teakra::SharedMemory mem;
    Teakra::MemoryInterfaceUnit miu;
    Teakra::MemoryInterface mi{mem, miu};
    Teakra::Interpreter in{ct, regs, mi};

    std::string Do(const Args& a) {
        using A = TeakraVerifAccess;
        if (a.empty()) throw std::string("bad-op");
        const std::string& op = a[0];
        Out o;
        if (op == "addsub" && a.size() == 5) {          // a b sub fvl_in
            regs.fvl = (u16)H(a[4]);
            u64 r = in.AddSub(H(a[1]), H(a[2]), H(a[3]) != 0);
            o << r << regs.fc0 << regs.fv << regs.fvl;
            return o.s;
        }
        if (op == "flags" && a.size() == 2) {
            A::SetAccFlag(in, H(a[1]));
            o << regs.fz << regs.fm << regs.fe << regs.fn;
            return o.s;
        }
        if (op == "sat" && a.size() == 3) {             // value flm_in
            regs.flm = (u16)H(a[2]);
            u64 r = A::SaturateAcc(in, H(a[1]));
            o << r << regs.flm;
            return o.s;
        }
        if (op == "shift" && a.size() == 8) {           // value sv s sata fv_in fvl_in flm_in
            regs.s = (u16)H(a[3]);
            regs.sata = (u16)H(a[4]);
            regs.fv = (u16)H(a[5]);
            regs.fvl = (u16)H(a[6]);
            regs.flm = (u16)H(a[7]);
            regs.a[0] = 0;
            in.ShiftBus40(H(a[1]), (u16)H(a[2]), RegName::a0);
            o << regs.a[0] << regs.fc0 << regs.fv << regs.fvl << regs.flm << regs.fz << regs.fm << regs.fe << regs.fn;
            return o.s;
        }
        if (op == "exp" && a.size() == 2) {
            o << in.Exp(H(a[1]));
            return o.s;
        }
        if (op == "mul" && a.size() == 7) {             // x y hwm unit xs ys
            u32 unit = (u32)H(a[4]) & 1;
            regs.x[unit] = (u16)H(a[1]);
            regs.y[unit] = (u16)H(a[2]);
            regs.hwm = (u16)H(a[3]);
            in.DoMultiplication(unit, H(a[5]) != 0, H(a[6]) != 0);
            o << regs.p[unit] << regs.pe[unit];
            return o.s;
        }
        if (op == "p2b" && a.size() == 4) {             // p pe ps
            regs.p[0] = (u32)H(a[1]);
            regs.pe[0] = (u16)H(a[2]);
            regs.ps[0] = (u16)H(a[3]);
            o << A::ProductToBus40(in, 0);
            return o.s;
        }
        if (op == "step" && a.size() == 14) {
            // unit address step dmod | cmd stp16 m br modx stepx stepx0 epi epj
            unsigned unit = (unsigned)H(a[1]) & 7;
            regs.cmd = (u16)H(a[5]);
            regs.stp16 = (u16)H(a[6]);
            regs.m[unit] = (u16)H(a[7]);
            regs.br[unit] = (u16)H(a[8]);
            (unit < 4 ? regs.modi : regs.modj) = (u16)H(a[9]);
            (unit < 4 ? regs.stepi : regs.stepj) = (u16)H(a[10]);
            (unit < 4 ? regs.stepi0 : regs.stepj0) = (u16)H(a[11]);
            regs.epi = (u16)H(a[12]);
            regs.epj = (u16)H(a[13]);
            regs.r[unit] = (u16)H(a[2]);
            u16 ret = A::RnAndModify(in, unit, static_cast<StepValue>(H(a[3]) & 7), H(a[4]) != 0);
            u16 addr = A::RnAddress(in, unit, ret);
            o << ret << addr << regs.r[unit];
            return o.s;
        }
        if (op == "bitrev" && a.size() == 2) {
            o << BitReverse((u16)H(a[1]));
            return o.s;
        }
        throw std::string("bad-op");
    }
};
AluUnit* unit = nullptr;
Registrar reg("alu", [](const Args& a) {
    if (!unit) unit = new AluUnit();
    return unit->Do(a);
});
} // namespace
