// unit "conc": two real threads on one Teakra::Teakra - used ONLY under ThreadSanitizer
// (vlib.harness_build("tsan")) to confirm a data race that checks/c19.py derived from the translated lock
// table; it decides nothing.  Thread A makes the host API call of the reported pair, thread B performs the
// DSP-side MMIO access of the pair through Teakra::MMIOWrite (the same Cell::set the interpreter's store
// into the MMIO window reaches).
//   conc race disable <iters>   A: SendData(0, v)            B: MMIO write 0x0D4 (SetDisableInterrupt, bit 8)
//   conc race vector <iters>    A: SendData(0, v)            B: MMIO writes 0x214+4*14 / 0x212+4*14 (ICU vector of IRQ 0xE)
//   conc race recv <iters>      A: SendData(0, v)            B: MMIO read 0x0C2 (RecvData) + 0x0D6 (status)   [control]
// Response: "done <iters>" (TSan reports go to stderr).
#include <atomic>
#include <memory>
#include <thread>
#include "h.hpp"
#include "teakra/teakra.h"

namespace {

std::string Race(const std::string& kind, uint64_t iters) {
    auto t = std::make_unique<Teakra::Teakra>(Teakra::UserConfig{});
    // route request 0xE to interrupt line 0 and to the vectored interrupt, so that Trigger reads the vector tables
    t->MMIOWrite(0x206, 1 << 0xE);
    t->MMIOWrite(0x20C, 1 << 0xE);
    std::atomic<bool> go{false};
    std::thread a([&] {
        while (!go.load()) {}
        for (uint64_t i = 0; i < iters; ++i) t->SendData(0, (uint16_t)i);
    });
    std::thread b([&] {
        while (!go.load()) {}
        for (uint64_t i = 0; i < iters; ++i) {
            if (kind == "disable") {
                t->MMIOWrite(0x0D4, (i & 1) ? 0x100 : 0);
            } else if (kind == "vector") {
                t->MMIOWrite(0x214 + 4 * 0xE, (uint16_t)i);
                t->MMIOWrite(0x212 + 4 * 0xE, (uint16_t)((i & 3) | ((i & 4) ? 0x8000 : 0)));
            } else {
                (void)t->MMIORead(0x0C2);
                (void)t->MMIORead(0x0D6);
            }
        }
    });
    go.store(true);
    a.join();
    b.join();
    Out o;
    o << "done" << iters;
    return o.s;
}

Registrar reg_conc("conc", [](const Args& a) -> std::string {
    if (a.size() == 3 && a[0] == "race" && (a[1] == "disable" || a[1] == "vector" || a[1] == "recv"))
        return Race(a[1], H(a[2]));
    throw std::string("bad-op");
});

} // namespace
