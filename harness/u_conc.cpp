// unit "conc": two real threads on one Teakra::Teakra - used ONLY under ThreadSanitizer
// (vlib.harness_build("tsan")) to confirm a data race that checks/c19.py derived from the translated lock
// table; it decides nothing.  Thread A makes the host API call of the reported pair, thread B performs the
// DSP-side MMIO access of the pair through Teakra::MMIOWrite (the same Cell::set the interpreter's store
// into the MMIO window reaches).
//   conc race disable <iters>   A: SendData(0, v)            B: MMIO write 0x0D4 (SetDisableInterrupt, bit 8)
//   conc race vector <iters>    A: SendData(0, v)            B: MMIO writes 0x214+4*14 / 0x212+4*14 (ICU vector of IRQ 0xE)
//   conc race recv <iters>      A: SendData(0, v)            B: MMIO read 0x0C2 (RecvData) + 0x0D6 (status)   [control]
// Response: "done <iters>" (TSan reports go to stderr).
//   conc lostwake <iters> <ms>  search for a lost wake-up on the real code (plain build).  Per round, from a quiescent
//                               state (mailbox 0 empty, its interrupt disabled, nothing requested): A: SendData(0, v);
//                               B: MMIO write 0x0D4 := 0 (enable), then one poll of the ready bit (MMIO 0x0D6).
//                               Afterwards "B's poll saw the word, or IRQ 0xE is requested" must hold - every
//                               interleaving of an atomic Send satisfies it.  Used by checks/c19.py to look for a failing
//                               schedule when `oneCriticalSection` fails for the send path; it decides nothing when it
//                               finds none.   Response: "lost <round> <word>" | "none <rounds>".
#include <atomic>
#include <chrono>
#include <memory>
#include <thread>
#include "h.hpp"
#include "teakra/teakra.h"

namespace {

std::string Race(const std::string& kind, uint64_t iters) {
    auto t = std::make_unique<Teakra::Teakra>(Teakra::UserConfig{});
    // route request 0xE to interrupt line 0 and to the vectored interrupt, so that Trigger reads the vector tables
    t->MMIOWrite(0x206, 1 << 0xE);
    t->MMIOWrite(0x20C, 1 << 0xE);
    std::atomic<bool> go{false};
    std::thread a([&] {
        while (!go.load()) {}
        for (uint64_t i = 0; i < iters; ++i) t->SendData(0, (uint16_t)i);
    });
    std::thread b([&] {
        while (!go.load()) {}
        for (uint64_t i = 0; i < iters; ++i) {
            if (kind == "disable") {
                t->MMIOWrite(0x0D4, (i & 1) ? 0x100 : 0);
            } else if (kind == "vector") {
                t->MMIOWrite(0x214 + 4 * 0xE, (uint16_t)i);
                t->MMIOWrite(0x212 + 4 * 0xE, (uint16_t)((i & 3) | ((i & 4) ? 0x8000 : 0)));
            } else {
                (void)t->MMIORead(0x0C2);
                (void)t->MMIORead(0x0D6);
            }
        }
    });
    go.store(true);
    a.join();
    b.join();
    Out o;
    o << "done" << iters;
    return o.s;
}

std::string LostWake(uint64_t iters, uint64_t ms) {
    auto t = std::make_unique<Teakra::Teakra>(Teakra::UserConfig{});
    std::atomic<uint64_t> go{0};
    std::atomic<int> done{0};
    std::atomic<bool> quit{false};
    bool saw_ready = false;
    auto spin = [](unsigned n) { for (volatile unsigned i = 0; i < n; ++i) {} };
    std::thread a([&] {
        for (uint64_t round = 0;;) {
            while (go.load(std::memory_order_acquire) == round) if (quit.load()) return;
            ++round;
            spin((unsigned)(round * 7) % 61);
            t->SendData(0, (uint16_t)round);
            done.fetch_add(1, std::memory_order_release);
        }
    });
    std::thread b([&] {
        for (uint64_t round = 0;;) {
            while (go.load(std::memory_order_acquire) == round) if (quit.load()) return;
            ++round;
            spin((unsigned)(round * 13) % 67);
            t->MMIOWrite(0x0D4, 0);
            saw_ready = (t->MMIORead(0x0D6) & 0x100) != 0;
            done.fetch_add(1, std::memory_order_release);
        }
    });
    auto t0 = std::chrono::steady_clock::now();
    Out o;
    uint64_t i = 0;
    bool lost = false;
    for (; i < iters; ++i) {
        t->MMIOWrite(0x0D4, 0x100);
        (void)t->MMIORead(0x0C2);
        t->MMIOWrite(0x202, 0xFFFF);
        done.store(0);
        go.fetch_add(1, std::memory_order_release);
        while (done.load(std::memory_order_acquire) != 2) {}
        bool irq = (t->MMIORead(0x200) & (1u << 0xE)) != 0;
        if (!saw_ready && !irq) {
            o << "lost" << i << (uint64_t)t->MMIORead(0x0C2);
            lost = true;
            break;
        }
        if ((i & 0x3FF) == 0 && std::chrono::steady_clock::now() - t0 > std::chrono::milliseconds(ms)) break;
    }
    quit = true;
    a.join();
    b.join();
    if (!lost) o << "none" << i;
    return o.s;
}

Registrar reg_conc("conc", [](const Args& a) -> std::string {
    if (a.size() == 3 && a[0] == "race" && (a[1] == "disable" || a[1] == "vector" || a[1] == "recv"))
        return Race(a[1], H(a[2]));
    if (a.size() == 3 && a[0] == "lostwake") return LostWake(H(a[1]), H(a[2]));
    throw std::string("bad-op");
});

} // namespace
