// unit "btdmp": src/btdmp.cpp / src/btdmp.h (audio port, transmit side)
//
// Canonical dump (all lower-case hex):
//   ok <irq> <clock_config> <period> <timer> <enable> <empty> <full> <n> <n queue words, oldest first>
//      <m> <a b for each of the first 64 frames emitted by this op>[ h<hash of all m frames> if m > 64]
#include <array>
#include <queue>
#include "h.hpp"
#include "btdmp.h"

#include "access.hpp"

namespace {
using A = TeakraVerifAccess;

struct BtdmpUnit {
    Teakra::CoreTiming ct;
    Teakra::Btdmp b{ct};
    unsigned irq = 0;
    std::vector<std::array<u16, 2>> frames;

    BtdmpUnit() {
        b.SetInterruptHandler([this] { ++irq; });
        b.SetAudioCallback([this](std::array<std::int16_t, 2> s) {
            frames.push_back({(u16)s[0], (u16)s[1]});
        });
    }

    std::string Dump() {
        Out o;
        o << "ok" << irq << A::BtClockConfig(b) << A::BtPeriod(b) << A::BtTimer(b) << A::BtEnable(b)
          << (u64)A::BtEmpty(b) << (u64)A::BtFull(b);
        std::queue<u16> q = A::BtQueue(b);
        o << (u64)q.size();
        while (!q.empty()) {
            o << q.front();
            q.pop();
        }
        o << (u64)frames.size();
        u32 h = 0;
        for (size_t i = 0; i < frames.size(); ++i) {
            if (i < 64) o << frames[i][0] << frames[i][1];
            h = h * 31u + (u32)frames[i][0] * 65536u + (u32)frames[i][1];
        }
        if (frames.size() > 64) o << ("h" + Hex(h));
        return o.s;
    }

    struct Saved {
        u16 cc, pe, ti, en;
        bool e, f;
        std::queue<u16> q;
    };
    Saved Save() {
        return {A::BtClockConfig(b), A::BtPeriod(b), A::BtTimer(b), A::BtEnable(b), A::BtEmpty(b),
                A::BtFull(b), A::BtQueue(b)};
    }
    void Restore(const Saved& s) {
        A::BtClockConfig(b) = s.cc; A::BtPeriod(b) = s.pe; A::BtTimer(b) = s.ti; A::BtEnable(b) = s.en;
        A::BtEmpty(b) = s.e; A::BtFull(b) = s.f; A::BtQueue(b) = s.q;
    }

    // Skip divides by transmit_period: undefined behaviour when enabled with period 0.  Never executed.
    bool SkipUndefined() { return A::BtEnable(b) != 0 && A::BtPeriod(b) == 0; }

    // k relative to horizon h: 0: 0, 1: min(1,h), 2: h, 3: h-1, 4: r mod (h+1), 5: h+1 (outside the contract)
    u64 PickK(u64 h, u64 mode, u64 r, bool check) {
        const u64 inf = ~(u64)0;
        u64 k;
        switch (mode) {
        case 0: k = 0; break;
        case 1: k = h < 1 ? h : 1; break;
        case 2: k = h == inf ? r : h; break;
        case 3: k = h == inf ? r : (h == 0 ? 0 : h - 1); break;
        case 4: k = h == inf ? r : r % (h + 1); break;
        default: k = h == inf ? r : h + 1; break;
        }
        if (check) {  // keep the tick loop affordable; stays within the horizon
            if (k > 0x12000) k = r % 0x12001;
            if (h != inf && k > h) k = h;
        }
        u64 p = A::BtPeriod(b);  // bound the number of frames one op can emit
        if (A::BtEnable(b) != 0 && p != 0 && k / p > 512) k = k % (512 * p);
        return k;
    }

    std::string Do(const Args& a) {
        irq = 0;
        frames.clear();
        if (a.empty()) throw std::string("bad-op");
        const std::string& op = a[0];
        if ((op == "set" && a.size() >= 5) || (op == "new" && a.size() >= 7)) {
            bool expl = op == "new";
            A::BtClockConfig(b) = (u16)H(a[1]);
            A::BtPeriod(b) = (u16)H(a[2]);
            A::BtTimer(b) = (u16)H(a[3]);
            A::BtEnable(b) = (u16)H(a[4]);
            std::queue<u16> q;
            for (size_t i = expl ? 7 : 5; i < a.size(); ++i) q.push((u16)H(a[i]));
            A::BtEmpty(b) = expl ? H(a[5]) != 0 : q.empty();
            A::BtFull(b) = expl ? H(a[6]) != 0 : q.size() == 16;
            A::BtQueue(b) = q;
            return "ok";
        }
        if (op == "reset" && a.size() == 1) { b.Reset(); return Dump(); }
        if (op == "get" && a.size() == 1) {
            Out o;
            o << b.GetTransmitClockConfig() << b.GetTransmitPeriod() << b.GetTransmitEnable()
              << b.GetTransmitEmpty() << b.GetTransmitFull() << b.GetTransmitFlush();
            return o.s;
        }
        if (op == "tick" && a.size() == 1) { b.Tick(); return Dump(); }
        if (op == "maxskip" && a.size() == 1) return Hex(b.GetMaxSkip());
        if (op == "flush" && a.size() == 1) { b.SetTransmitFlush(0); return Dump(); }
        if (a.size() == 2) {
            u64 v = H(a[1]);
            if (op == "send") { b.Send((u16)v); return Dump(); }
            if (op == "flush") { b.SetTransmitFlush((u16)v); return Dump(); }
            if (op == "enable") { b.SetTransmitEnable((u16)v); return Dump(); }
            if (op == "period") { b.SetTransmitPeriod((u16)v); return Dump(); }
            if (op == "clock") { b.SetTransmitClockConfig((u16)v); return Dump(); }
            if (op == "skip") {
                if (A::BtEnable(b) != 0 && A::BtPeriod(b) != 0 && v / A::BtPeriod(b) > 4096)
                    throw std::string("bad-op");
                if (SkipUndefined()) return "oob";
                b.Skip(v);
                return Dump();
            }
            throw std::string("bad-op");
        }
        if ((op == "ff" || op == "ffcheck") && a.size() == 3) {
            // skip by an amount chosen relative to the horizon the port itself reports
            u64 h = b.GetMaxSkip(), mode = H(a[1]), r = H(a[2]);
            bool check = op == "ffcheck";
            u64 k = PickK(h, mode, r, check);
            if (SkipUndefined()) return "oob";
            if (!check) {
                b.Skip(k);
                return "k " + Hex(k) + " " + Dump();
            }
            // the property itself, evaluated on the implementation:
            // Skip(k) == k x Tick in state, frames (same list, same order) and interrupt count
            Saved s0 = Save();
            b.Skip(k);
            std::string via_skip = Dump();
            Saved s1 = Save();
            Restore(s0);
            irq = 0;
            frames.clear();
            for (u64 i = 0; i < k; ++i) b.Tick();
            std::string via_ticks = Dump();
            Restore(s1);
            if (via_skip == via_ticks) return "k " + Hex(k) + " same " + via_skip;
            return "k " + Hex(k) + " DIFF skip: " + via_skip + " ticks: " + via_ticks;
        }
        throw std::string("bad-op");
    }
};
BtdmpUnit unit;
Registrar reg("btdmp", [](const Args& a) { return unit.Do(a); });
} // namespace
