// unit "timer": src/timer.cpp
#include "h.hpp"
#include "timer.h"

namespace {
struct TimerUnit {
    Teakra::CoreTiming ct;
    Teakra::Timer t{ct};
    unsigned irq = 0;
    TimerUnit() { t.SetInterruptHandler([this] { ++irq; }); }

    std::string Dump() {
        Out o;
        o << "ok" << irq << t.update_mmio << t.pause << (uint16_t)t.count_mode << t.scale
          << t.start_high << t.start_low << t.counter << t.counter_high << t.counter_low;
        return o.s;
    }

    struct Saved { u16 um, pa, cm, sc, sh, sl; u32 c; u16 ch, cl; };
    Saved Save() {
        return {t.update_mmio, t.pause, (u16)t.count_mode, t.scale, t.start_high, t.start_low,
                t.counter, t.counter_high, t.counter_low};
    }
    void Restore(const Saved& s) {
        t.update_mmio = s.um; t.pause = s.pa; t.count_mode = static_cast<Teakra::Timer::CountMode>(s.cm);
        t.scale = s.sc; t.start_high = s.sh; t.start_low = s.sl; t.counter = s.c;
        t.counter_high = s.ch; t.counter_low = s.cl;
    }
    // k relative to horizon h: 0: 0, 1: min(1,h), 2: h, 3: h-1, 4: r mod (h+1), 5: h+1 (outside the contract)
    static u64 PickK(u64 h, u64 mode, u64 r, bool check) {
        const u64 inf = ~(u64)0;
        u64 k;
        switch (mode) {
        case 0: k = 0; break;
        case 1: k = h < 1 ? h : 1; break;
        case 2: k = h == inf ? r : h; break;
        case 3: k = h == inf ? r : (h == 0 ? 0 : h - 1); break;
        case 4: k = h == inf ? r : r % (h + 1); break;
        default: k = h == inf ? r : h + 1; break;
        }
        if (check) {  // keep the tick loop affordable; stays within the horizon
            if (k > 4096) k = r % 4097;
            if (h != inf && k > h) k = h;
        }
        return k;
    }

    std::string Do(const Args& a) {
        irq = 0;
        if (a.empty()) throw std::string("bad-op");
        const std::string& op = a[0];
        if (op == "set" && a.size() == 10) {
            t.update_mmio = (u16)H(a[1]);
            t.pause = (u16)H(a[2]);
            t.count_mode = static_cast<Teakra::Timer::CountMode>((u16)H(a[3]));
            t.scale = (u16)H(a[4]);
            t.start_high = (u16)H(a[5]);
            t.start_low = (u16)H(a[6]);
            t.counter = (u32)H(a[7]);
            t.counter_high = (u16)H(a[8]);
            t.counter_low = (u16)H(a[9]);
            return "ok";
        }
        if (op == "reset") { t.Reset(); return Dump(); }
        if (op == "tick") { t.Tick(); return Dump(); }
        if (op == "event") { t.TickEvent(); return Dump(); }
        if (op == "restart") { t.Restart(); return Dump(); }
        if (op == "maxskip") return Hex(t.GetMaxSkip());
        if (op == "skip" && a.size() == 2) { t.Skip(H(a[1])); return Dump(); }
        if ((op == "ff" || op == "ffcheck") && a.size() == 3) {
            // skip by an amount chosen relative to the horizon the timer itself reports
            u64 h = t.GetMaxSkip(), mode = H(a[1]), r = H(a[2]);
            bool check = op == "ffcheck";
            u64 k = PickK(h, mode, r, check);
            if (!check) {
                t.Skip(k);
                return "k " + Hex(k) + " " + Dump();
            }
            // the property itself, evaluated on the implementation: Skip(k) == k x Tick, no interrupt
            Saved s0 = Save();
            t.Skip(k);
            std::string via_skip = Dump();
            Saved s1 = Save();
            Restore(s0);
            irq = 0;
            for (u64 i = 0; i < k; ++i) t.Tick();
            std::string via_ticks = Dump();
            Restore(s1);
            if (via_skip == via_ticks) return "k " + Hex(k) + " same " + via_skip;
            return "k " + Hex(k) + " DIFF skip: " + via_skip + " ticks: " + via_ticks;
        }
        throw std::string("bad-op");
    }
};
TimerUnit unit;
Registrar reg("timer", [](const Args& a) { return unit.Do(a); });
} // namespace
