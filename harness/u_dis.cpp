// unit "dis": disassembler text, the assembler's parser and the C binding as the real code has them
// (src/disassembler.cpp, src/parser.cpp, src/disassembler_c.cpp).
//   dis reset                                 -> ok (stateless; the parser is generated once, lazily)
//   dis tok <w> <e> [ar0 ar1 arp0 arp1 arp2 arp3]
//                                             -> n=<count> <token>... of Disassembler::GetTokenList, tokens escaped
//                                                (see Esc) and separated by one blank; `empty` if the list is empty
//   dis do <w> <e>                            -> Disassembler::Do text as lower-case hex bytes (`-` if empty);
//                                                `assert-empty` if the token list is empty (Do reads v.back())
//   dis need <w>                              -> 0/1 Disassembler::NeedExpansion
//   dis cneed <w>                             -> 0/1 Teakra_Disasm_NeedExpansion
//   dis parse <token>...                      -> invalid | valid <opcode> | expansion <opcode> from the real
//                                                Teakra::GenerateParser() (tokens escaped as in `tok`)
//   dis cdo <dstlen> <canary> <w> <e>         -> Teakra_Disasm_Do on a heap buffer of dstlen bytes with canary
//                                                bytes on both sides:
//                                                ret=<hex> buf=<dstlen bytes hex|-> oob=<off:val,...|->
//                                                (off = signed decimal offset from dst of a changed canary byte)
//   dis cdonull <dstlen> <w> <e>              -> ret=<hex> with dst = NULL
// Escaping: bytes <= 0x20, >= 0x7f and '%' are written %XX; the empty token is written %e.
#include <algorithm>
#include <cstring>
#include <memory>
#include <optional>
#include "crash.h"
#include "h.hpp"
#include "parser.h"
#include "teakra/disassembler.h"
#include "teakra/disassembler_c.h"

namespace {

std::string Esc(const std::string& t) {
    if (t.empty()) return "%e";
    std::string o;
    char b[8];
    for (unsigned char c : t) {
        if (c <= 0x20 || c >= 0x7f || c == '%') {
            std::snprintf(b, sizeof b, "%%%02X", c);
            o += b;
        } else {
            o += (char)c;
        }
    }
    return o;
}

int HexVal(char c) {
    if (c >= '0' && c <= '9') return c - '0';
    if (c >= 'a' && c <= 'f') return c - 'a' + 10;
    if (c >= 'A' && c <= 'F') return c - 'A' + 10;
    return -1;
}

std::string Unesc(const std::string& t) {
    if (t == "%e") return "";
    std::string o;
    for (size_t i = 0; i < t.size(); ++i) {
        if (t[i] == '%') {
            if (i + 2 >= t.size()) throw std::string("bad-op");
            int a = HexVal(t[i + 1]), b = HexVal(t[i + 2]);
            if (a < 0 || b < 0) throw std::string("bad-op");
            o += (char)(a * 16 + b);
            i += 2;
        } else {
            o += t[i];
        }
    }
    return o;
}

std::string HexBytes(const std::string& s) {
    if (s.empty()) return "-";
    std::string o;
    char b[4];
    for (unsigned char c : s) {
        std::snprintf(b, sizeof b, "%02x", c);
        o += b;
    }
    return o;
}

Teakra::Parser& TheParser() {
    // generated once; if the ASSERT in GenerateParser fires, every later `parse` answers `assert` at once
    static std::unique_ptr<Teakra::Parser> p;
    static bool tried = false;
    if (!tried) {
        tried = true;
        p = Teakra::GenerateParser(); // a failed ASSERT throws TeakraVerifAssert -> "assert"
    }
    if (!p) throw TeakraVerifAssert{"GenerateParser", __FILE__, __LINE__};
    return *p;
}

std::optional<Teakra::Disassembler::ArArpSettings> ArArp(const Args& a, size_t from) {
    if (a.size() == from) return std::nullopt;
    if (a.size() != from + 6) throw std::string("bad-op");
    Teakra::Disassembler::ArArpSettings s;
    s.ar = {(u16)H(a[from]), (u16)H(a[from + 1])};
    s.arp = {(u16)H(a[from + 2]), (u16)H(a[from + 3]), (u16)H(a[from + 4]), (u16)H(a[from + 5])};
    return s;
}

std::string Tok(const Args& a) {
    auto v = Teakra::Disassembler::GetTokenList((u16)H(a[1]), (u16)H(a[2]), ArArp(a, 3));
    if (v.empty()) return "empty";
    std::string o = "n=" + Hex(v.size());
    for (auto& t : v) o += " " + Esc(t);
    return o;
}

std::string DoText(const Args& a) {
    u16 w = (u16)H(a[1]), e = (u16)H(a[2]);
    if (Teakra::Disassembler::GetTokenList(w, e).empty()) return "assert-empty";
    return HexBytes(Teakra::Disassembler::Do(w, e));
}

std::string Parse(const Args& a) {
    std::vector<std::string> toks;
    for (size_t i = 1; i < a.size(); ++i) toks.push_back(Unesc(a[i]));
    auto r = TheParser().Parse(toks);
    switch (r.status) {
    case Teakra::Parser::Opcode::Invalid:
        return "invalid";
    case Teakra::Parser::Opcode::Valid:
        return "valid " + Hex(r.opcode);
    case Teakra::Parser::Opcode::ValidWithExpansion:
        return "expansion " + Hex(r.opcode);
    }
    return "DIFF status";
}

std::string CDo(const Args& a) {
    size_t dstlen = (size_t)H(a[1]);
    unsigned char canary = (unsigned char)H(a[2]);
    u16 w = (u16)H(a[3]), e = (u16)H(a[4]);
    if (dstlen > (1u << 20)) throw std::string("bad-op");
    if (Teakra::Disassembler::GetTokenList(w, e).empty()) return "assert-empty";
    // the guard areas are at least as long as the text (+1): the code under test, as it is today, copies the
    // whole text for dstlen = 0 and stores a NUL at dst[-1]; the guard keeps those stores inside our allocation
    size_t len = Teakra::Disassembler::Do(w, e).size();
    size_t guard = std::max<size_t>(64, len + 8);
    std::vector<unsigned char> mem(guard + dstlen + guard, canary);
    char* dst = (char*)mem.data() + guard;
    size_t ret = Teakra_Disasm_Do(dst, dstlen, w, e);
    std::string buf, oob;
    char b[32];
    for (size_t i = 0; i < dstlen; ++i) {
        std::snprintf(b, sizeof b, "%02x", mem[guard + i]);
        buf += b;
    }
    for (size_t i = 0; i < mem.size(); ++i) {
        if (i >= guard && i < guard + dstlen) continue;
        if (mem[i] != canary) {
            std::snprintf(b, sizeof b, "%s%ld:%02x", oob.empty() ? "" : ",", (long)i - (long)guard, mem[i]);
            oob += b;
        }
    }
    return "ret=" + Hex(ret) + " buf=" + (buf.empty() ? "-" : buf) + " oob=" + (oob.empty() ? "-" : oob);
}

std::string Do(const Args& a) {
    if (a.empty()) throw std::string("bad-op");
    const std::string& op = a[0];
    if (op == "reset" && a.size() == 1) return "ok";
    if (op == "tok" && (a.size() == 3 || a.size() == 9)) return Tok(a);
    if (op == "do" && a.size() == 3) return DoText(a);
    if (op == "need" && a.size() == 2) return Teakra::Disassembler::NeedExpansion((u16)H(a[1])) ? "1" : "0";
    if (op == "cneed" && a.size() == 2) return Teakra_Disasm_NeedExpansion((u16)H(a[1])) ? "1" : "0";
    if (op == "parse") return Parse(a);
    if (op == "cdo" && a.size() == 5) return CDo(a);
    if (op == "cdonull" && a.size() == 4)
        return "ret=" + Hex(Teakra_Disasm_Do(nullptr, (size_t)H(a[1]), (u16)H(a[2]), (u16)H(a[3])));
    throw std::string("bad-op");
}
Registrar reg("dis", [](const Args& a) { return Do(a); });
} // namespace
