// unit "icu": src/icu.h.  Response of every op: "<ret> <events> <dump>"; see lean/Drive/Icu.lean.
#include "h.hpp"
#include "icu.h"

// Friend of Teakra::ICU under TEAKRA_VERIF (declared in common_types.h).  Only the ICU accessors
// are defined here; the member names are unit-prefixed so that other unit files can add theirs.
#include "access.hpp"

namespace {
struct IcuUnit {
    Teakra::ICU icu;
    std::string ev;

    void Add(const std::string& e) {
        if (!ev.empty()) ev += ',';
        ev += e;
    }
    IcuUnit() {
        icu.SetInterruptHandler([this](u32 line) { Add("i" + Hex(line)); },
                                [this](u32 address, bool context) {
                                    Add("v" + Hex(address) + ":" + (context ? "1" : "0"));
                                });
        // the constructor leaves these three tables uninitialised
        icu.vector_low.fill(0);
        icu.vector_high.fill(0);
        icu.vector_context_switch.fill(0);
    }

    std::string Reply(uint64_t ret) {
        Out o;
        o << ret << (ev.empty() ? std::string("-") : ev) << icu.GetRequest() << icu.GetEnable(0)
          << icu.GetEnable(1) << icu.GetEnable(2) << icu.GetEnableVectored();
        ev.clear();
        return o.s;
    }

    std::string Do(const Args& x) {
        ev.clear();
        if (x.empty()) throw std::string("bad-op");
        const std::string& op = x[0];
        size_t n = x.size();
        if (op == "set") {
            if (n != 1 + 5 + 48) throw std::string("bad-op");
            uint64_t v[53];
            for (size_t i = 0; i < 53; ++i) v[i] = H(x[1 + i]);
            TeakraVerifAccess::IcuRequest(icu) = Teakra::ICU::IrqBits((u16)v[0]);
            for (unsigned i = 0; i < 3; ++i)
                TeakraVerifAccess::IcuEnabled(icu)[i] = Teakra::ICU::IrqBits((u16)v[1 + i]);
            TeakraVerifAccess::IcuVectoredEnabled(icu) = Teakra::ICU::IrqBits((u16)v[4]);
            for (unsigned i = 0; i < 16; ++i) {
                icu.vector_low[i] = (u16)v[5 + i];
                icu.vector_high[i] = (u16)v[21 + i];
                icu.vector_context_switch[i] = (u16)v[37 + i];
            }
            return Reply(0);
        }
        if (op == "req" && n == 1) return Reply(icu.GetRequest());
        if (op == "getack" && n == 1) return Reply(icu.GetAcknowledge());
        if (op == "gettrig" && n == 1) return Reply(icu.GetTrigger());
        if (op == "getven" && n == 1) return Reply(icu.GetEnableVectored());
        if (n == 2) {
            uint64_t a = H(x[1]);
            if (op == "ack") { icu.Acknowledge((u16)a); return Reply(0); }
            if (op == "trig") { icu.Trigger((u16)a); return Reply(0); }
            if (op == "single") {
                if (a >= 32) throw std::string("oob");  // shift count of `1 << irq` on an int
                icu.TriggerSingle((u32)a);
                return Reply(0);
            }
            if (op == "ven") { icu.SetEnableVectored((u16)a); return Reply(0); }
            if (op == "geten") {
                if (a >= 3) throw std::string("oob");  // std::array<IrqBits, 3>, unchecked
                return Reply(icu.GetEnable((u32)a));
            }
            if (op == "vec") {
                if (a >= 16) throw std::string("oob");  // std::array<u16, 16>, unchecked
                return Reply(icu.GetVector((u32)a));
            }
        }
        if (op == "en" && n == 3) {
            uint64_t i = H(x[1]);
            if (i >= 3) throw std::string("oob");
            icu.SetEnable((u32)i, (u16)H(x[2]));
            return Reply(0);
        }
        throw std::string("bad-op");
    }
};
IcuUnit unit;
Registrar reg("icu", [](const Args& a) { return unit.Do(a); });
} // namespace
