// The one definition of the friend struct named by the TEAKRA_VERIF hooks in /repo: static
// accessors to private members, one group per unit.  (One definition for all harness
// translation units, so there is no ODR hazard.)
#pragma once
#include <queue>
#include <array>
#include "btdmp.h"
#include "icu.h"

struct TeakraVerifAccess {
    // Btdmp
    static u16& BtClockConfig(Teakra::Btdmp& b) { return b.transmit_clock_config; }
    static u16& BtPeriod(Teakra::Btdmp& b) { return b.transmit_period; }
    static u16& BtTimer(Teakra::Btdmp& b) { return b.transmit_timer; }
    static u16& BtEnable(Teakra::Btdmp& b) { return b.transmit_enable; }
    static bool& BtEmpty(Teakra::Btdmp& b) { return b.transmit_empty; }
    static bool& BtFull(Teakra::Btdmp& b) { return b.transmit_full; }
    static std::queue<u16>& BtQueue(Teakra::Btdmp& b) { return b.transmit_queue; }
    // ICU
    static Teakra::ICU::IrqBits& IcuRequest(Teakra::ICU& i) { return i.request; }
    static std::array<Teakra::ICU::IrqBits, 3>& IcuEnabled(Teakra::ICU& i) { return i.enabled; }
    static Teakra::ICU::IrqBits& IcuVectoredEnabled(Teakra::ICU& i) { return i.vectored_enabled; }
};
