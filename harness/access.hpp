// The one definition of the friend struct named by the TEAKRA_VERIF hooks in /repo: static
// accessors to private members, one group per unit.  (One definition for all harness
// translation units, so there is no ODR hazard.)
#pragma once
#include <queue>
#include <array>
#include "btdmp.h"
#include "icu.h"
#include "ahbm.h"
#include "dma.h"
#include "interpreter.h"

struct TeakraVerifAccess {
    // Btdmp
    static u16& BtClockConfig(Teakra::Btdmp& b) { return b.transmit_clock_config; }
    static u16& BtPeriod(Teakra::Btdmp& b) { return b.transmit_period; }
    static u16& BtTimer(Teakra::Btdmp& b) { return b.transmit_timer; }
    static u16& BtEnable(Teakra::Btdmp& b) { return b.transmit_enable; }
    static bool& BtEmpty(Teakra::Btdmp& b) { return b.transmit_empty; }
    static bool& BtFull(Teakra::Btdmp& b) { return b.transmit_full; }
    static std::queue<u16>& BtQueue(Teakra::Btdmp& b) { return b.transmit_queue; }
    // Interpreter (private arithmetic / addressing helpers)
    static void SetAccFlag(Teakra::Interpreter& i, u64 v) { i.SetAccFlag(v); }
    static u64 SaturateAcc(Teakra::Interpreter& i, u64 v) { return i.SaturateAcc(v); }
    static u64 ProductToBus40(Teakra::Interpreter& i, u16 unit) { return i.ProductToBus40(Px{unit}); }
    static u16 RnAndModify(Teakra::Interpreter& i, unsigned unit, StepValue s, bool dmod) {
        return i.RnAndModify(unit, s, dmod);
    }
    static u16 RnAddress(Teakra::Interpreter& i, unsigned unit, unsigned value) { return i.RnAddress(unit, value); }
    static bool& Idle(Teakra::Interpreter& i) { return i.idle; }
    // Dma / Ahbm
    static auto& DmaChannel(Teakra::Dma& d, unsigned i) { return d.channels[i]; }
    static std::function<void()>& DmaInterruptHandler(Teakra::Dma& d) { return d.interrupt_handler; }
    static auto& AhbmChannel(Teakra::Ahbm& a, unsigned i) { return a.channels[i]; }
    // ICU
    static Teakra::ICU::IrqBits& IcuRequest(Teakra::ICU& i) { return i.request; }
    static std::array<Teakra::ICU::IrqBits, 3>& IcuEnabled(Teakra::ICU& i) { return i.enabled; }
    static Teakra::ICU::IrqBits& IcuVectoredEnabled(Teakra::ICU& i) { return i.vectored_enabled; }
    static std::function<void(u32)>& IcuOnInterrupt(Teakra::ICU& i) { return i.on_interrupt; }
    static std::function<void(u32, bool)>& IcuOnVectored(Teakra::ICU& i) { return i.on_vectored_interrupt; }
    // Interpreter interrupt latches (written by Processor::SignalInterrupt / SignalVectoredInterrupt)
    static std::array<std::atomic<bool>, 3>& IntPending(Teakra::Interpreter& i) { return i.interrupt_pending; }
    static std::atomic<bool>& VintPending(Teakra::Interpreter& i) { return i.vinterrupt_pending; }
    static std::atomic<bool>& VintContext(Teakra::Interpreter& i) { return i.vinterrupt_context_switch; }
    static std::atomic<u32>& VintAddress(Teakra::Interpreter& i) { return i.vinterrupt_address; }
};
