// unit "gentest": the generator clause of C01 evaluated on the real code.
// `gentest run <path> <max>`: calls the project's own Teakra::Test::GenerateTestCasesToFile(path), then
// executes every emitted record exactly as src/test_verifier/main.cpp sets it up (bare Interpreter,
// opcode/expansion at program address 0) and checks, per record: no ASSERT/UNREACHABLE abort,
// pc == instruction length, every data access inside the two windows the verifier compares.
#include <cstdio>
#include <memory>
#include "h.hpp"
#include "interpreter.h"
#include "shared_memory.h"
#include "test.h"
#include "test_generator.h"
#include "teakra/disassembler.h"

namespace {
struct Acc { u32 byte; bool w; };
std::vector<Acc> g_acc;
bool GenHook(u32 byte_address, bool is_write, u16) {
    g_acc.push_back({byte_address, is_write});
    return (u64)byte_address + 1 < 0x80000;
}

std::string Run(const std::string& path, u64 max_records) {
    if (!Teakra::Test::GenerateTestCasesToFile(path.c_str())) throw std::string("generator-failed");
    std::unique_ptr<std::FILE, fclose_deleter> file{std::fopen(path.c_str(), "rb")};
    if (!file) throw std::string("cannot-open");
    Teakra::CoreTiming core_timing;
    Teakra::SharedMemory shared_memory;
    Teakra::MemoryInterfaceUnit miu;
    Teakra::MemoryInterface memory_interface{shared_memory, miu};
    Teakra::RegisterState regs;
    Teakra::Interpreter interpreter(core_timing, regs, memory_interface);
    auto* old = TeakraVerifMemHook;
    u64 total = 0, ok = 0, unimpl = 0, asserted = 0, badpc = 0, outside = 0, oob = 0, opcodes = 0;
    u16 last_op = 0xFFFF;
    std::string first;
    auto note = [&](const char* what, const TestCase& tc, const std::string& extra) {
        if (first.empty()) {
            Out o;
            o << what << (u64)tc.opcode << (u64)tc.expand << extra;
            first = o.s;
        }
    };
    auto tc = std::make_unique<TestCase>();
    while (total < max_records && std::fread(tc.get(), sizeof(TestCase), 1, file.get()) == 1) {
        const TestCase& t = *tc;
        ++total;
        if (t.opcode != last_op) { ++opcodes; last_op = t.opcode; }
        TeakraVerifMemHook = nullptr;
        regs.Reset();
        regs.a = t.before.a; regs.b = t.before.b; regs.p = t.before.p; regs.r = t.before.r;
        regs.x = t.before.x; regs.y = t.before.y;
        regs.stepi0 = t.before.stepi0; regs.stepj0 = t.before.stepj0; regs.mixp = t.before.mixp;
        regs.sv = t.before.sv; regs.repc = t.before.repc; regs.Lc() = t.before.lc;
        regs.Set<Teakra::cfgi>(t.before.cfgi); regs.Set<Teakra::cfgj>(t.before.cfgj);
        regs.Set<Teakra::stt0>(t.before.stt0); regs.Set<Teakra::stt1>(t.before.stt1);
        regs.Set<Teakra::stt2>(t.before.stt2); regs.Set<Teakra::mod0>(t.before.mod0);
        regs.Set<Teakra::mod1>(t.before.mod1); regs.Set<Teakra::mod2>(t.before.mod2);
        regs.Set<Teakra::ar0>(t.before.ar[0]); regs.Set<Teakra::ar1>(t.before.ar[1]);
        regs.Set<Teakra::arp0>(t.before.arp[0]); regs.Set<Teakra::arp1>(t.before.arp[1]);
        regs.Set<Teakra::arp2>(t.before.arp[2]); regs.Set<Teakra::arp3>(t.before.arp[3]);
        for (u16 off = 0; off < TestSpaceSize; ++off) {
            memory_interface.DataWrite(TestSpaceX + off, t.before.test_space_x[off]);
            memory_interface.DataWrite(TestSpaceY + off, t.before.test_space_y[off]);
        }
        memory_interface.ProgramWrite(0, t.opcode);
        memory_interface.ProgramWrite(1, t.expand);
        g_acc.clear();
        TeakraVerifMemHook = &GenHook;
        bool completed = false;
        try {
            interpreter.Run(1);
            completed = true;
        } catch (const Teakra::UnimplementedException&) {
            ++unimpl;
        } catch (const TeakraVerifAssert& a) {
            ++asserted;
            note("assert", t, std::string(a.expression));
        }
        TeakraVerifMemHook = nullptr;
        bool bad = false;
        for (auto& a : g_acc) {
            if ((u64)a.byte + 1 >= 0x80000) { ++oob; note("oob", t, Hex(a.byte)); bad = true; break; }
            u32 wa = a.byte / 2;
            if (wa == 0 || wa == 1) continue;                      // instruction fetch
            bool in_x = wa >= 0x20000u + TestSpaceX && wa < 0x20000u + TestSpaceX + TestSpaceSize;
            bool in_y = wa >= 0x20000u + TestSpaceY && wa < 0x20000u + TestSpaceY + TestSpaceSize;
            if (!in_x && !in_y) { ++outside; note("outside-window", t, Hex(wa)); bad = true; break; }
        }
        if (completed) {
            u32 len = 1 + (u32)Teakra::Disassembler::NeedExpansion(t.opcode);
            if (regs.pc != len) { ++badpc; note("pc", t, Hex(regs.pc)); bad = true; }
            if (!bad) ++ok;
        }
    }
    TeakraVerifMemHook = old;
    std::remove(path.c_str());
    Out o;
    o << "records" << total << "opcodes" << opcodes << "ok" << ok << "unimpl" << unimpl << "assert" << asserted
      << "badpc" << badpc << "outside" << outside << "oob" << oob << "first" << (first.empty() ? "-" : first);
    return o.s;
}

Registrar reg("gentest", [](const Args& a) -> std::string {
    if (a.size() == 3 && a[0] == "run") return Run(a[1], H(a[2]));
    throw std::string("bad-op");
});
} // namespace
