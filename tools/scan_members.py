#!/usr/bin/env python3
"""Member table of the classes that make up a Teakra instance (property C17).

For every class below, clang's typed AST (clang++-14 -Xclang -ast-dump=json, filtered by class name) of the current
sources gives each non-static data member with: its type, whether it has an in-class initialiser, whether the class's
constructors name it in a member-initialiser list, and whether the class's `Reset()` refers to it (or replaces the whole
object).  `compare` reports the differences against the committed table checks/golden/c17_members.json, which adds to each
member how the C17 model covers it.

  scan_members.py [--repo /repo] [--write-golden]
"""
import json
import os
import subprocess
import sys

ROOT = os.path.dirname(os.path.dirname(os.path.abspath(__file__)))

# class name -> translation unit that sees its definition
CLASSES = [
    ("Impl", "teakra.cpp", "Teakra::Teakra::Impl"),
    ("Impl", "processor.cpp", "Teakra::Processor::Impl"),
    ("Impl", "apbp.cpp", "Teakra::Apbp::Impl"),
    ("DataChannel", "apbp.cpp", "Teakra::DataChannel"),
    ("ICU", "teakra.cpp", "Teakra::ICU"),
    ("Timer", "timer.cpp", "Teakra::Timer"),
    ("Btdmp", "btdmp.cpp", "Teakra::Btdmp"),
    ("Dma", "dma.cpp", "Teakra::Dma"),
    ("Ahbm", "ahbm.cpp", "Teakra::Ahbm"),
    ("MemoryInterfaceUnit", "teakra.cpp", "Teakra::MemoryInterfaceUnit"),
    ("MemoryInterface", "teakra.cpp", "Teakra::MemoryInterface"),
    ("SharedMemory", "teakra.cpp", "Teakra::SharedMemory"),
    ("CoreTiming", "teakra.cpp", "Teakra::CoreTiming"),
    ("Interpreter", "processor.cpp", "Teakra::Interpreter"),
    ("RegisterState", "processor.cpp", "Teakra::RegisterState"),
    ("Impl", "mmio.cpp", "Teakra::MMIORegion::Impl"),
    ("Cell", "mmio.cpp", "Teakra::Cell"),
]


class ScanError(Exception):
    pass


def ast_objects(repo, tu, flt):
    cmd = ["clang++-14", "-std=gnu++17", "-fsyntax-only", "-w", "-I" + os.path.join(repo, "src"),
           "-I" + os.path.join(repo, "include"), "-I" + os.path.join(repo, "include", "teakra", "impl"),
           "-Xclang", "-ast-dump=json", "-Xclang", "-ast-dump-filter=" + flt, os.path.join(repo, "src", tu)]
    p = subprocess.run(cmd, stdout=subprocess.PIPE, stderr=subprocess.PIPE, text=True, timeout=600)
    if p.returncode != 0:
        raise ScanError("clang failed on %s: %s" % (tu, p.stderr[-500:]))
    dec = json.JSONDecoder()
    txt = p.stdout
    i, out = 0, []
    while True:
        while i < len(txt) and txt[i] in " \n\r\t":
            i += 1
        if i >= len(txt):
            break
        obj, j = dec.raw_decode(txt, i)
        out.append(obj)
        i = j
    return out


def walk(n):
    yield n
    for c in n.get("inner", []) or []:
        yield from walk(c)


def member_names(n):
    return {x.get("name") for x in walk(n) if x.get("kind") == "MemberExpr" and x.get("name")}


def record_info(rec):
    fields = []
    reset_refs, whole = set(), False
    ctor_inits = set()
    nested = {}
    for c in rec.get("inner", []) or []:
        k = c.get("kind")
        if k == "FieldDecl":
            fields.append({"name": c.get("name", ""), "type": c.get("type", {}).get("qualType", ""),
                           "init": bool(c.get("hasInClassInitializer"))})
        elif k == "CXXMethodDecl" and c.get("name") == "Reset" and c.get("inner"):
            reset_refs |= member_names(c)
            # `*this = T();` style
            for x in walk(c):
                if x.get("kind") == "CXXThisExpr":
                    pass
                if x.get("kind") in ("CXXOperatorCallExpr",) and any(y.get("kind") == "UnaryOperator" and y.get("opcode") == "*" and
                                                                     any(z.get("kind") == "CXXThisExpr" for z in walk(y)) for y in x.get("inner", [])):
                    whole = True
        elif k == "CXXConstructorDecl" and not c.get("isImplicit"):
            for x in c.get("inner", []) or []:
                if x.get("kind") == "CXXCtorInitializer" and x.get("anyInit", {}).get("name"):
                    # an initialiser the compiler adds for a class-type member is a zero-argument construct expression
                    e = (x.get("inner") or [{}])[0]
                    implicit = e.get("kind") == "CXXConstructExpr" and not e.get("inner") and not e.get("list")
                    if not implicit:
                        ctor_inits.add(x["anyInit"]["name"])
        elif k == "CXXRecordDecl" and c.get("completeDefinition") and c.get("name"):
            nested[c["name"]] = c
        elif k == "ClassTemplateDecl" and c.get("name"):
            for x in c.get("inner", []) or []:
                if x.get("kind") == "CXXRecordDecl" and x.get("completeDefinition"):
                    nested[c["name"]] = x
                    break
    return fields, reset_refs, whole, ctor_inits, nested


SELF_INIT = ("std::function<", "std::mutex", "std::recursive_mutex", "std::queue<", "std::bitset<", "std::unique_ptr<",
             "std::vector<", "const std::vector<", "Teakra::ICU::IrqBits", "IrqBits")
OWN_CLASSES = ("DataChannel", "Channel", "Btdmp", "Timer", "Cell", "Teakra::Ahbm", "Teakra::Dma", "Teakra::ICU", "Teakra::Apbp",
               "Teakra::MemoryInterfaceUnit", "Teakra::MemoryInterface", "Teakra::SharedMemory", "Teakra::CoreTiming",
               "Teakra::Processor", "Teakra::MMIORegion", "Teakra::Interpreter", "Teakra::RegisterState", "BlockRepeatFrame",
               "Shadow")


def self_initialising(ty):
    """Types whose default initialisation leaves nothing indeterminate: references, standard containers / function /
    mutex / bitset / unique_ptr, the project's own classes (scanned member by member), and arrays of those.
    Scalars, enums, std::atomic<T> and std::array of those are NOT (indeterminate without an initialiser)."""
    ty = ty.strip()
    if ty.endswith("&"):
        return True
    if ty.startswith("std::array<"):
        inner = ty[len("std::array<"):ty.rfind(",")].strip()
        return self_initialising(inner)
    if ty.startswith(SELF_INIT):
        return True
    return any(ty.startswith(c) or ty.startswith("Teakra::" + c) for c in OWN_CLASSES)


def scan(repo="/repo"):
    table = {}
    cache = {}
    for flt, tu, qual in CLASSES:
        key = (tu, flt)
        if key not in cache:
            cache[key] = ast_objects(repo, tu, flt)
        want_parent = qual.split("::")[-2] if flt == "Impl" else None
        recs = [o for o in cache[key] if o.get("kind") == "CXXRecordDecl" and o.get("completeDefinition") and o.get("name") == flt]
        if want_parent:
            # nested Impl: the filter also matches other Impls of the TU; pick by file of definition
            src = {"Teakra": "teakra.cpp", "Processor": "processor.cpp", "Apbp": "apbp.cpp", "MMIORegion": "mmio.cpp"}[want_parent]
            recs = [o for o in recs if (o.get("loc", {}).get("file") or o.get("range", {}).get("begin", {}).get("file") or
                                        os.path.join(repo, "src", tu)).endswith(src) or "file" not in o.get("loc", {})]
        if not recs:
            raise ScanError("%s: class definition not found in %s" % (qual, tu))
        rec = recs[0]
        # out-of-line `void T::Reset() {...}` of this TU
        extra_refs = {}
        for o in cache[key]:
            if o.get("kind") == "CXXMethodDecl" and o.get("name") == "Reset" and o.get("inner") and o.get("parentDeclContextId"):
                extra_refs.setdefault(o["parentDeclContextId"], set()).update(member_names(o))
                for x in walk(o):
                    if x.get("kind") == "CXXOperatorCallExpr" and any(z.get("kind") == "CXXThisExpr" for z in walk(x)):
                        pass

        def add(prefix, r):
            fields, refs, whole, inits, nested = record_info(r)
            refs = refs | extra_refs.get(r.get("id"), set())
            for f in fields:
                table["%s::%s" % (prefix, f["name"])] = {
                    "type": f["type"], "initialised": f["init"] or f["name"] in inits or self_initialising(f["type"]),
                    "reset": whole or f["name"] in refs}
            for nn, nr in nested.items():
                add(prefix + "::" + nn, nr)
        add(qual, rec)
    return table


def compare(tab, gold):
    """Differences between the scanned table and the committed one (only the scanned attributes) that matter for C17:
    a member that lost its initialiser or its place in Reset, a member that disappeared, a new member that is not
    initialised or - in a class whose members Reset handles one by one - not reset.  A new member that IS initialised
    and reset, and pure type changes, are returned by `benign` instead."""
    return [d for d, bad in _diff(tab, gold) if bad]


def benign(tab, gold):
    return [d for d, bad in _diff(tab, gold) if not bad]


def _diff(tab, gold):
    out = []
    cls = lambda k: k.rsplit("::", 1)[0]
    # classes whose members are reset one by one in the committed table (at least one member has reset=True)
    itemised = {cls(k) for k, v in gold.items() if v["reset"]}
    for k in sorted(set(tab) | set(gold)):
        if k not in gold:
            t = tab[k]
            bad = (not t["initialised"]) or (cls(k) in itemised and not t["reset"])
            out.append(("new member %s (%s; initialised=%s, reset=%s)" % (k, t["type"], t["initialised"], t["reset"]), bad))
        elif k not in tab:
            out.append(("member %s disappeared" % k, True))
        else:
            for a in ("initialised", "reset"):
                if tab[k][a] != gold[k][a]:
                    out.append(("%s: %s was %r, is %r" % (k, a, gold[k][a], tab[k][a]), gold[k][a] and not tab[k][a]))
            if tab[k]["type"] != gold[k]["type"]:
                out.append(("%s: type was %r, is %r" % (k, gold[k]["type"], tab[k]["type"]), False))
    return out


def main():
    repo = "/repo"
    if "--repo" in sys.argv:
        repo = sys.argv[sys.argv.index("--repo") + 1]
    tab = scan(repo)
    gpath = os.path.join(ROOT, "checks", "golden", "c17_members.json")
    if "--write-golden" in sys.argv:
        old = json.load(open(gpath)) if os.path.exists(gpath) else {}
        for k, v in tab.items():
            v["covered_by"] = old.get(k, {}).get("covered_by", "")
        json.dump(tab, open(gpath, "w"), indent=1, sort_keys=True)
        print("wrote", gpath, len(tab))
    else:
        for k, v in sorted(tab.items()):
            print("%-60s init=%-5s reset=%-5s %s" % (k, v["initialised"], v["reset"], v["type"]))


if __name__ == "__main__":
    main()
