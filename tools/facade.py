"""The facade (src/teakra.cpp) translated on every run: which property owns which part, the proof obligations over the
regenerated table (Proofs/Facade.lean) and the agreement with the pinned translation (Proofs/FacadeGolden.lean)."""
import os
import re

import vlib
import translate_facade

GOLDEN_MODULE = "Proofs.FacadeGolden"
T = "Teakra."
# theorems of Proofs/Facade.lean audited under each property
EXTRA = {
    "C07": [T + "wiring_complete", T + "wiring_irq_eq_model", T + "site_irq"],
    "C14": [T + "wiring_complete", T + "wiring_irq_eq_model"],
    "C15": [T + "wiring_complete", T + "wiring_irq_eq_model"],
    "C16": [T + "wiring_complete", T + "wiring_irq_eq_model"],
    "C17": [T + "reset_covers_members", T + "reset_no_unknown", T + "member_reset"],
}
# which `Teakra::method`s (and which other parts of the table) a property's model functions were written against
METHODS = {
    "C06": ["Run("],
    "C11": ["ProgramRead(", "ProgramWrite(", "DataRead(", "DataWrite(", "DataReadA32(", "DataWriteA32(", "GetDspMemory("],
    "C12": ["MMIORead(", "MMIOWrite("],
    "C13": ["DMAChan0GetSrcHigh(", "DMAChan0GetDstHigh(", "AHBMRead16(", "AHBMWrite16(", "AHBMRead32(", "AHBMWrite32(",
            "AHBMGetUnitSize(", "AHBMGetDirection(", "AHBMGetDmaChannel(", "SetAHBMCallback("],
    "C14": ["SendDataIsEmpty(", "SendData(", "RecvDataIsReady(", "RecvData(", "PeekRecvData(", "SetRecvDataHandler(",
            "SetSemaphore(", "SetSemaphoreHandler(", "GetSemaphore(", "ClearSemaphore(", "MaskSemaphore("],
    "C16": ["SetAudioCallback("],
    "C17": ["Teakra(", "~Teakra(", "Reset(", "GetRegisterState("],
}
PARTS = {"C07": ["wiring", "icuToCore"], "C14": ["wiring"], "C15": ["wiring"], "C16": ["wiring"],
         "C17": ["members", "resetCalls"], "C12": ["setMmio"], "C11": ["setMmio"]}
OWNERS = sorted(set(EXTRA) | set(METHODS) | set(PARTS) | {"C06", "C07", "C11", "C12", "C14", "C17"})


def regenerate():
    return translate_facade.generate()


# theorems of Proofs/CBinding.lean (the C binding forwards faithfully), audited under the properties whose scripts go
# through the binding (`bus new capi`)
CB = [T + "cbinding_same_method", T + "cbinding_args_in_order", T + "cbinding_types_agree", T + "cbinding_forwards"]
CB_PROPS = ["C06", "C07", "C11", "C12", "C14", "C17"]


def extra_modules(prop):
    out = [("Proofs.Facade", EXTRA[prop])] if prop in EXTRA else []
    if prop in CB_PROPS:
        out.append(("Proofs.CBinding", CB))
    return out


def _crows(path):
    """{C function name (without the Teakra_ prefix): row text} of a translated C-binding table."""
    rows = {}
    for line in open(path):
        m = re.match(r"^\s+⟨\d+ /- (\w+) -/", line) or re.match(r"^\s+\(\d+, \d+\) /- (\w+) -/", line)
        if m:
            rows[m.group(1)] = line.strip()
    return rows


def _defs(path):
    """{definition name: text} of a translated facade table."""
    out = {}
    cur = None
    for line in open(path):
        m = re.match(r"^def (\w+) ", line)
        if m:
            cur = m.group(1)
            out[cur] = ""
        elif line.startswith("/--") or line.startswith("end "):
            cur = None
        if cur:
            out[cur] += line
    return out


def golden(prop):
    """`facade_eq_golden`, attributed: a difference is reported by the property whose model functions mirror that part."""
    ok, log = vlib.lean_build([GOLDEN_MODULE])
    info = {"theorem": "Teakra.facade_eq_golden", "holds": ok}
    if ok:
        return info, None
    g = os.path.join(vlib.LEAN, "TeakraModel", "Golden", "Facade.lean")
    n = os.path.join(vlib.LEAN, "TeakraModel", "Generated", "Facade.lean")
    gd, nd = _defs(g), _defs(n)
    gm, nm = translate_facade.method_rows(g), translate_facade.method_rows(n)
    diffs = []
    for sig in sorted(set(gm) | set(nm)):
        if gm.get(sig) != nm.get(sig) and any(sig.startswith(p) for p in METHODS.get(prop, [])):
            diffs.append("Teakra::" + sig + (" (removed)" if sig not in nm else " (new)" if sig not in gm else " (body or return type changed)"))
    gc = _crows(os.path.join(vlib.LEAN, "TeakraModel", "Golden", "CBinding.lean"))
    nc = _crows(os.path.join(vlib.LEAN, "TeakraModel", "Generated", "CBinding.lean"))
    for name in sorted(set(gc) | set(nc)):
        if gc.get(name) != nc.get(name) and any((name + "(").startswith(p) for p in METHODS.get(prop, [])):
            diffs.append("C binding Teakra_%s" % name)
    for part in PARTS.get(prop, []):
        if gd.get(part) != nd.get(part):
            diffs.append("`%s`: %s" % (part, " ".join((nd.get(part) or "").split())[:300]))
    anything = gc != nc or any(gm.get(s) != nm.get(s) for s in set(gm) | set(nm)) or any(gd.get(k) != nd.get(k) for k in set(gd) | set(nd))
    info["differences_owned_by_this_property"] = diffs
    if not diffs and anything:
        return info, None            # another property's part of the facade changed
    desc = ("the facade translated from src/teakra.cpp differs from the one the model's host-API / wiring / Reset functions "
            "were written against (theorem facade_eq_golden no longer checks): " + ("; ".join(diffs) if diffs else log[-300:]))
    return info, (desc, {"kind": "proof", "failed": ["Teakra.facade_eq_golden"], "differences": diffs}, False)
