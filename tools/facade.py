"""The facade (src/teakra.cpp) translated on every run: which property owns which part, the proof obligations over the
regenerated table (Proofs/Facade.lean) and the agreement with the pinned translation (Proofs/FacadeGolden.lean)."""
import os
import re

import vlib
import translate_facade

GOLDEN_MODULE = "Proofs.FacadeGolden"
T = "Teakra."
# theorems of Proofs/Facade.lean audited under each property
EXTRA = {
    "C07": [T + "wiring_complete", T + "wiring_irq_eq_model", T + "site_irq"],
    "C14": [T + "wiring_complete", T + "wiring_irq_eq_model"],
    "C15": [T + "wiring_complete", T + "wiring_irq_eq_model"],
    "C16": [T + "wiring_complete", T + "wiring_irq_eq_model"],
    "C17": [T + "reset_covers_members", T + "reset_no_unknown", T + "member_reset"],
}
# which `Teakra::method`s (and which other parts of the table) a property's model functions were written against
METHODS = {
    "C06": ["Run("],
    "C11": ["ProgramRead(", "ProgramWrite(", "DataRead(", "DataWrite(", "DataReadA32(", "DataWriteA32(", "GetDspMemory("],
    "C12": ["MMIORead(", "MMIOWrite("],
    "C13": ["DMAChan0GetSrcHigh(", "DMAChan0GetDstHigh(", "AHBMRead16(", "AHBMWrite16(", "AHBMRead32(", "AHBMWrite32(",
            "AHBMGetUnitSize(", "AHBMGetDirection(", "AHBMGetDmaChannel(", "SetAHBMCallback("],
    "C14": ["SendDataIsEmpty(", "SendData(", "RecvDataIsReady(", "RecvData(", "PeekRecvData(", "SetRecvDataHandler(",
            "SetSemaphore(", "SetSemaphoreHandler(", "GetSemaphore(", "ClearSemaphore(", "MaskSemaphore("],
    "C16": ["SetAudioCallback("],
    "C17": ["Teakra(", "~Teakra(", "Reset(", "GetRegisterState("],
}
PARTS = {"C07": ["wiring", "icuToCore"], "C14": ["wiring"], "C15": ["wiring"], "C16": ["wiring"],
         "C17": ["members", "resetCalls"], "C12": ["setMmio"], "C11": ["setMmio"]}
OWNERS = sorted(set(EXTRA) | set(METHODS) | set(PARTS))


def regenerate():
    return translate_facade.generate()


def extra_modules(prop):
    return [("Proofs.Facade", EXTRA[prop])] if prop in EXTRA else []


def _defs(path):
    """{definition name: text} of a translated facade table."""
    out = {}
    cur = None
    for line in open(path):
        m = re.match(r"^def (\w+) ", line)
        if m:
            cur = m.group(1)
            out[cur] = ""
        elif line.startswith("/--") or line.startswith("end "):
            cur = None
        if cur:
            out[cur] += line
    return out


def golden(prop):
    """`facade_eq_golden`, attributed: a difference is reported by the property whose model functions mirror that part."""
    ok, log = vlib.lean_build([GOLDEN_MODULE])
    info = {"theorem": "Teakra.facade_eq_golden", "holds": ok}
    if ok:
        return info, None
    g = os.path.join(vlib.LEAN, "TeakraModel", "Golden", "Facade.lean")
    n = os.path.join(vlib.LEAN, "TeakraModel", "Generated", "Facade.lean")
    gd, nd = _defs(g), _defs(n)
    gm, nm = translate_facade.method_rows(g), translate_facade.method_rows(n)
    diffs = []
    for sig in sorted(set(gm) | set(nm)):
        if gm.get(sig) != nm.get(sig) and any(sig.startswith(p) for p in METHODS.get(prop, [])):
            diffs.append("Teakra::" + sig + (" (removed)" if sig not in nm else " (new)" if sig not in gm else " (body or return type changed)"))
    for part in PARTS.get(prop, []):
        if gd.get(part) != nd.get(part):
            diffs.append("`%s`: %s" % (part, " ".join((nd.get(part) or "").split())[:300]))
    anything = any(gm.get(s) != nm.get(s) for s in set(gm) | set(nm)) or any(gd.get(k) != nd.get(k) for k in set(gd) | set(nd))
    info["differences_owned_by_this_property"] = diffs
    if not diffs and anything:
        return info, None            # another property's part of the facade changed
    desc = ("the facade translated from src/teakra.cpp differs from the one the model's host-API / wiring / Reset functions "
            "were written against (theorem facade_eq_golden no longer checks): " + ("; ".join(diffs) if diffs else log[-300:]))
    return info, (desc, {"kind": "proof", "failed": ["Teakra.facade_eq_golden"], "differences": diffs}, False)
