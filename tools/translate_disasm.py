#!/usr/bin/env python3
"""Translate src/disassembler.cpp into lean/TeakraModel/Generated/DisasmTable.lean.

What is *interpreted* (re-translated on every run):
  * the enum -> text switch functions `DsmReg(RegName)`, `Dsm(Alm|Alu|Alb|Moda4|Moda3|Mul3|Mul2|Cond|StepZIDS|CbsCond)`
    and the `desc` switch of `swap` -> association lists `dsm_<T>`;
  * every visitor method of `class Disassembler` whose body is `return D(<args>);` (328 of the 331 methods):
    each argument is one of a dozen expression forms (string literal, an operand printed through its `Dsm` overload,
    `R(x)`, `DsmReg(x)`, `MemR(a, s)`, `MemAR/MemARS/MemARPSI/MemARPSJ(…)`, `A18(lo, hi)`, `ToHex((u16)x.Relative32())`,
    `PA(…)`, `Mul(…)`, `c ? "…" : "…"`) -> one Lean list of strings per decode-table entry, with the entry's operands
    (`decoder.h`, through tools/decode_sigs.py) bound to the method's parameters in order;
  * `enum class RegName` of operand.h (the integer printed by `DsmReg`'s default branch).
What is *pinned* (hand-written in lean/TeakraModel/Disasm.lean; a change is a loud failure, never a guess): everything
else in the file - `ToHex`, the `Dsm` overloads of immediates and memory operands, `R`, `MemR`, `A18`, `Mul`, `PA`, the
`ar/arp` helpers, `banke`, `mov(Register, Bx)`, `GetTokenList`, `Do` - compared by a hash of the file with the interpreted
parts cut out (comments and white space normalised).

The translation is tied to the real code by the complete enumeration in checks/c05.py (every first word x sampled second
words and ArArpSettings: model tokens = GetTokenList)."""
import hashlib, json, os, re, sys

sys.path.insert(0, os.path.dirname(os.path.abspath(__file__)))
import decode_sigs
from gen_dispatch import CN

PINNED_REST_SHA = "7c2a3c1b9d0a"      # placeholder, replaced by --pin

IMM = {"Imm2": 2, "Imm4": 4, "Imm5": 5, "Imm8": 8, "Imm9": 9, "Imm16": 16}
IMMS = {"Imm5s": 5, "Imm6s": 6, "Imm7s": 7, "Imm8s": 8}
ENUM_DSM = {"Alm": "AlmOp", "Alu": "AlmOp", "Alb": "AlbOp", "Moda4": "ModaOp", "Moda3": "ModaOp", "Mul3": "MulOp",
            "Mul2": "MulOp", "Cond": "CondValue", "StepZIDS": "StepValue", "CbsCond": "CbsCondValue"}
REG_TYPES = ["Register", "Ax", "Axl", "Axh", "Bx", "Bxl", "Bxh", "Ab", "Abl", "Abh", "Abe", "Ablh", "RnOld", "Rn",
             "R45", "R0123", "ArArpSttMod", "ArArp", "SttMod", "Ar", "Arp"]
AR_OFFSET = {"ArRn1": 0, "ArRn2": 0, "ArStep1": 0, "ArStep1Alt": 2, "ArStep2": 0, "ArpRn1": 0, "ArpRn2": 0,
             "ArpStep1": 0, "ArpStep2": 0}
LEAN_RESERVED = {"or", "and", "xor", "not", "true"}


class TranslateError(Exception):
    pass


def lean_ctor(cpp):
    n = cpp[0].lower() + cpp[1:]
    return n + "_" if n in LEAN_RESERVED else n


def lean_str(s):
    return '"' + s.replace("\\", "\\\\").replace('"', '\\"') + '"'


def strip_comments(src):
    out, i, n = [], 0, len(src)
    while i < n:
        c = src[i]
        if c == '"':
            j = i + 1
            while src[j] != '"':
                j += 2 if src[j] == "\\" else 1
            out.append(src[i:j + 1]); i = j + 1
        elif src.startswith("//", i):
            while i < n and src[i] != "\n":
                i += 1
        elif src.startswith("/*", i):
            i = src.index("*/", i) + 2
        else:
            out.append(c); i += 1
    return "".join(out)


def split_args(a):
    """split at top-level commas (strings, parentheses)"""
    out, d, cur, i = [], 0, "", 0
    while i < len(a):
        ch = a[i]
        if ch == '"':
            j = i + 1
            while a[j] != '"':
                j += 2 if a[j] == "\\" else 1
            cur += a[i:j + 1]; i = j + 1; continue
        if ch == "(":
            d += 1
        if ch == ")":
            d -= 1
        if ch == "," and d == 0:
            out.append(cur.strip()); cur = ""
        else:
            cur += ch
        i += 1
    if cur.strip():
        out.append(cur.strip())
    return out


def cstr(tok):
    """C++ string literal -> python str"""
    m = re.fullmatch(r'"((?:[^"\\]|\\.)*)"', tok)
    if not m:
        return None
    return bytes(m.group(1), "latin-1").decode("unicode_escape")


def parse_switch_table(body, what):
    """`case E::X: return "s";` / `case E::X: desc = "s"; break;` -> ([(X, s)], default)"""
    rows = []
    for m in re.finditer(r'case\s+\w+::(\w+):\s*(?:return|desc\s*=)\s*("(?:[^"\\]|\\.)*")\s*;', body):
        rows.append((m.group(1), cstr(m.group(2))))
    md = re.search(r'default:\s*(?:return|desc\s*=)\s*("(?:[^"\\]|\\.)*")\s*(\+\s*std::to_string\(\(int\)a\))?\s*;', body)
    if not rows or not md:
        raise TranslateError("cannot read the switch of " + what)
    n_case = len(re.findall(r"\bcase\b", body))
    if n_case != len(rows):
        raise TranslateError("unrecognised case label form in " + what)
    return rows, cstr(md.group(1)), bool(md.group(2))


def translate(repo):
    src = strip_comments(open(os.path.join(repo, "src", "disassembler.cpp")).read())
    oph = strip_comments(open(os.path.join(repo, "src", "operand.h")).read())
    cut = []                       # (start, end) spans that are interpreted
    tables = {}

    # --- RegName enum order
    m = re.search(r"enum class RegName \{(.*?)\};", oph, re.S)
    if not m:
        raise TranslateError("enum class RegName not found in operand.h")
    regorder = [x.strip() for x in m.group(1).split(",") if x.strip()]

    # --- enum -> text functions
    m = re.search(r"std::string DsmReg\(RegName a\) \{(.*?)\n\}\n", src, re.S)
    if not m:
        raise TranslateError("DsmReg not found")
    rows, dflt, plus_int = parse_switch_table(m.group(1), "DsmReg")
    if not plus_int:
        raise TranslateError("DsmReg default branch changed")
    tables["RegName"] = ("RegName", rows, dflt)
    cut.append(m.span())
    for ty, en in ENUM_DSM.items():
        m = re.search(r"std::string Dsm\(%s \w+\) \{(.*?)\n\}\n" % ty, src, re.S)
        if not m:
            raise TranslateError("Dsm(%s) not found" % ty)
        rows, dflt, plus_int = parse_switch_table(m.group(1), "Dsm(%s)" % ty)
        if plus_int:
            raise TranslateError("Dsm(%s) default branch changed" % ty)
        tables[ty] = (en, rows, dflt)
        cut.append(m.span())

    # --- visitor methods
    ci = src.index("class Disassembler {")
    ce = src.index("void SetArArp")
    handlers = []
    pat = re.compile(r"(?:template <([^>]*)>\s*)?std::vector<std::string> (\w+)\(([^)]*)\) \{(.*?)\n    \}\n", re.S)
    for m in pat.finditer(src, ci, ce):
        tparams = [t.strip().split()[-1] for t in (m.group(1) or "").split(",") if t.strip()]
        name, params, body = m.group(2), m.group(3), m.group(4).strip()
        ps = []
        for p in split_args(re.sub(r"\s+", " ", params)):
            t, n = p.rsplit(" ", 1)
            ps.append((t.strip(), n.strip()))
        h = {"name": name, "params": ps, "tparams": tparams, "span": m.span()}
        r = re.fullmatch(r"return D\((.*)\);", body, re.S)
        if r:
            h["args"] = split_args(re.sub(r"\s+", " ", r.group(1)))
            handlers.append(h)
            cut.append(m.span())
        elif name == "swap":
            r = re.fullmatch(r'std::string desc;\s*switch \(swap\.GetName\(\)\) \{(.*)\}\s*return D\("swap", desc\);', body, re.S)
            if not r:
                raise TranslateError("swap: body form changed")
            rows, dflt, _ = parse_switch_table(r.group(1), "swap")
            tables["SwapDesc"] = ("SwapTypeValue", rows, dflt)
            h["args"] = ['"swap"', "desc"]
            handlers.append(h)
            cut.append(m.span())
        else:
            h["special"] = True        # pinned: modelled by hand in Disasm.lean
            handlers.append(h)
    rest = "".join(src[a:b] for a, b in zip([0] + [e for _, e in sorted(cut)], [s for s, _ in sorted(cut)] + [len(src)]))
    rest_sha = hashlib.sha256(re.sub(r"\s+", " ", rest).encode()).hexdigest()[:12]
    specials = sorted(h["name"] + "(" + ",".join(t for t, _ in h["params"]) + ")" for h in handlers if h.get("special"))
    if specials != ["banke(BankFlags)", "mov(Register,Bx)"]:
        raise TranslateError("methods that are not of the form `return D(...)`: %s (hand-modelled: banke, mov(Register,Bx))" % specials)

    # --- bind decode-table entries to methods
    pats = decode_sigs.parse(repo)
    entries = []
    for i, p in enumerate(pats):
        actual = []      # (cpp type, lean value expression)
        n = 0
        for o in p["operands"]:
            if o["kind"] == "At":
                actual.append((o["ty"], "(o.getD %d 0)" % n)); n += 1
            elif o["kind"] == "AtNamed":
                actual.append(("RegName", "(%s.name (o.getD %d 0))" % (o["ty"], n))); n += 1
            elif o["kind"] == "Const":
                actual.append((o["ty"], "%d" % o["value"]))
            elif o["kind"] == "Cn":
                kind, v = CN[o["ty"]]
                actual.append(("bool", "true" if v else "false") if kind == "B" else ("SumBase", "(SumBase.decode %d)" % v))
        cands = []
        for h in handlers:
            if h["name"] != p["name"] or len(h["params"]) != len(actual):
                continue
            bind, ok = {}, True
            for (ft, _), (at, _) in zip(h["params"], actual):
                if ft in h["tparams"]:
                    if bind.setdefault(ft, at) != at:
                        ok = False
                elif ft != at:
                    ok = False
            if ok:
                cands.append(h)
        exact = [h for h in cands if not h["tparams"]]
        if len(exact) == 1:
            cands = exact
        if len(cands) != 1:
            raise TranslateError("decode entry %d (%s): %d matching Disassembler methods" % (i, p["name"], len(cands)))
        h = cands[0]
        env = {pn: (at, av) for (_, pn), (at, av) in zip(h["params"], actual)}
        if h.get("special"):
            if h["name"] == "banke":
                toks = "Dis.banke %s" % actual[0][1]
            else:
                a, b = actual[0][1], actual[1][1]
                toks = "Dis.movRegisterBx (Register.name %s) (dsm_RegName (Register.name %s)) (dsm_RegName (Bx.name %s))" % (a, a, b)
        else:
            toks = "[" + ", ".join(expr(a, env, "%s entry %d" % (h["name"], i)) for a in h["args"]) + "]"
        entries.append(toks)
    return {"tables": tables, "regorder": regorder, "entries": entries, "rest_sha": rest_sha,
            "methods": len(handlers), "interpreted_methods": len(handlers) - 2}


def expr(a, env, where):
    s = cstr(a)
    if s is not None:
        return lean_str(s)
    if re.fullmatch(r"\w+", a):
        if a == "desc":
            v = [x for x in env.values() if x[0] == "SwapType"]
            return "(dsm_SwapDesc (SwapType.name %s))" % v[0][1]
        if a not in env:
            raise TranslateError("%s: unknown identifier %s" % (where, a))
        t, v = env[a]
        if t in IMM:
            return "(Dis.dsmImm %d %s)" % (IMM[t], v)
        if t in IMMS:
            return "(Dis.dsmImms %d %s)" % (IMMS[t], v)
        if t in ("MemImm8", "MemImm16", "MemR7Imm16", "MemR7Imm7s"):
            return "(Dis.dsm%s %s)" % (t, v)
        if t in ENUM_DSM:
            return "(dsm_%s (%s.name %s))" % (t, t, v)
        if t == "Address16":
            return "(Dis.toHex 8 %s)" % v
        raise TranslateError("%s: operand %s of type %s printed through an unknown Dsm overload" % (where, a, t))
    m = re.fullmatch(r"(\w+)\((.*)\)", a)
    if m:
        f, xs = m.group(1), split_args(m.group(2))

        def arg(k, types=None):
            if xs[k] not in env:
                raise TranslateError("%s: %s(%s): not a parameter" % (where, f, xs[k]))
            t, v = env[xs[k]]
            if types and t not in types:
                raise TranslateError("%s: %s applied to %s" % (where, f, t))
            return t, v
        if f == "R" and len(xs) == 1:
            t, v = arg(0)
            if t == "Px":
                return '("p" ++ toString %s)' % v
            if t in REG_TYPES:
                return "(dsm_RegName (%s.name %s))" % (t, v)
            raise TranslateError("%s: R(%s)" % (where, t))
        if f == "DsmReg" and len(xs) == 1:
            t, v = arg(0, ["RegName"])
            return "(dsm_RegName %s)" % v
        if f == "MemR" and len(xs) == 2:
            t, v = arg(0, REG_TYPES)
            _, s = arg(1, ["StepZIDS"])
            return '("[" ++ dsm_RegName (%s.name %s) ++ dsm_StepZIDS (StepZIDS.name %s) ++ "]")' % (t, v, s)
        if f == "MemG" and len(xs) == 1:
            t, v = arg(0, REG_TYPES)
            return '("[" ++ dsm_RegName (%s.name %s) ++ "]")' % (t, v)
        if f in ("MemARS", "MemARPSI", "MemARPSJ") and len(xs) == 2:
            rt, rv = arg(0, AR_OFFSET)
            st, sv = arg(1, AR_OFFSET)
            return "(Dis.%s ar (%s + %d) (%s + %d))" % (f[0].lower() + f[1:], rv, AR_OFFSET[rt], sv, AR_OFFSET[st])
        if f == "MemAR" and len(xs) == 1:
            rt, rv = arg(0, AR_OFFSET)
            return "(Dis.memAR ar (%s + %d))" % (rv, AR_OFFSET[rt])
        if f == "A18" and len(xs) == 2:
            _, lo = arg(0, ["Address18_16"])
            _, hi = arg(1, ["Address18_2"])
            return "(Dis.toHex 8 (address18 %s %s).toNat)" % (lo, hi)
        if f == "PA" and len(xs) == 5:
            vs = [arg(0, ["SumBase"])[1]] + [arg(k, ["bool"])[1] for k in range(1, 5)]
            return "(Dis.dsmPA %s)" % " ".join(vs)
        if f == "Mul" and len(xs) == 2:
            return "(Dis.dsmMul %s %s)" % (arg(0, ["bool"])[1], arg(1, ["bool"])[1])
        if f == "ToHex" and len(xs) == 1:
            r = re.fullmatch(r"\(u16\)(\w+)\.Relative32\(\)", xs[0])
            if r and r.group(1) in env and env[r.group(1)][0] == "RelAddr7":
                return "(Dis.toHex 4 ((relAddr7 %s).toNat %% 65536))" % env[r.group(1)][1]
    m = re.fullmatch(r'(\w+) \? ("(?:[^"\\]|\\.)*") : ("(?:[^"\\]|\\.)*")', a)
    if m and m.group(1) in env and env[m.group(1)][0] == "bool":
        return "(if %s then %s else %s)" % (env[m.group(1)][1], lean_str(cstr(m.group(2))), lean_str(cstr(m.group(3))))
    raise TranslateError("%s: unrecognised token expression `%s`" % (where, a))


def emit(data):
    L = ["/- GENERATED by tools/translate_disasm.py from src/disassembler.cpp, src/decoder.h, src/operand.h — do not edit -/",
         "import TeakraModel.Disasm", "namespace Teakra", "open Teakra.Dis",
         "", "/-- `enum class RegName` in declaration order: `(int)a` is the index. -/",
         "def regNameOrder : List RegName := [%s]" % ", ".join("." + r for r in data["regorder"]), ""]
    for key in sorted(data["tables"]):
        en, rows, dflt = data["tables"][key]
        L.append("def dsm_%s_rows : List (%s × String) := [%s]" %
                 (key, en, ", ".join("(.%s, %s)" % (lean_ctor(c), lean_str(s)) for c, s in rows)))
        if key == "RegName":
            L.append("def dsm_RegName (r : RegName) : String :=\n  match dsm_RegName_rows.lookup r with\n  | some s => s\n"
                     "  | none => %s ++ toString (regNameOrder.findIdx (· == r))" % lean_str(dflt))
        else:
            L.append("def dsm_%s (x : %s) : String := (dsm_%s_rows.lookup x).getD %s" % (key, en, key, lean_str(dflt)))
        L.append("")
    L.append("/-- `Decode<Disassembler>(opcode).call(dsm, opcode, expansion)` for decode-table entry `idx` with extracted operand")
    L.append("values `o` (in parameter order) and optional `ArArpSettings`. -/")
    L.append("def disasmEntry (idx : Nat) (o : List Nat) (ar : Option ArArp) : List String :=")
    L.append("  match idx with")
    for i, t in enumerate(data["entries"]):
        L.append("  | %d => %s" % (i, t))
    L.append('  | _ => ["[ERROR]"]')
    L += ["", "def disasmEntryCount : Nat := %d" % len(data["entries"]), "end Teakra", ""]
    return "\n".join(L)


def pinned_sha():
    here = os.path.dirname(os.path.abspath(__file__))
    return open(os.path.join(here, "disasm_rest.sha")).read().strip()


def run(repo, root):
    """Translate; raises TranslateError (generated file left as it was) if the source cannot be read faithfully."""
    data = translate(repo)
    if data["rest_sha"] != pinned_sha():
        raise TranslateError("the hand-modelled part of disassembler.cpp (ToHex, Dsm overloads of immediates/memory operands, R, MemR, "
                             "A18, Mul, PA, ar/arp helpers, banke, mov(Register,Bx), GetTokenList, Do) changed: hash %s, pinned %s"
                             % (data["rest_sha"], pinned_sha()))
    text = emit(data)
    path = os.path.join(root, "lean", "TeakraModel", "Generated", "DisasmTable.lean")
    changed = not os.path.exists(path) or open(path).read() != text
    if changed:
        open(path, "w").write(text)
    return {"entries": len(data["entries"]), "methods": data["methods"], "interpreted_methods": data["interpreted_methods"],
            "enum_tables": len(data["tables"]), "rest_sha": data["rest_sha"], "rewritten": changed}


GOLDEN = os.path.join("lean", "TeakraModel", "Golden", "DisasmTable.lean.golden")


def run_checked(repo, root):
    """run(), then make sure the generated table compiles; otherwise put the committed (pinned-tree) table back, so that the
    model driver and the other checks keep building, and raise."""
    import vlib
    path = os.path.join(root, "lean", "TeakraModel", "Generated", "DisasmTable.lean")
    try:
        st = run(repo, root)
        ok, log = vlib.lean_build(["TeakraModel.Generated.DisasmTable"])
        if not ok:
            raise TranslateError("the table translated from disassembler.cpp does not compile: " + log[-600:])
    except TranslateError:
        gold = open(os.path.join(root, GOLDEN)).read()
        if not os.path.exists(path) or open(path).read() != gold:
            open(path, "w").write(gold)
        raise
    st["equals_golden"] = open(path).read() == open(os.path.join(root, GOLDEN)).read()
    return st


if __name__ == "__main__":
    root = os.path.dirname(os.path.dirname(os.path.abspath(__file__)))
    repo = os.environ.get("VERIF_REPO", "/repo")
    if len(sys.argv) > 1 and sys.argv[1] == "--pin":
        d = translate(repo)
        open(os.path.join(root, "tools", "disasm_rest.sha"), "w").write(d["rest_sha"] + "\n")
        print("pinned", d["rest_sha"])
    print(run(repo, root))
