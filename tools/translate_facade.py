#!/usr/bin/env python3
"""Translate the facade src/teakra.cpp into a Lean table: members of `struct Teakra::Impl`, the handler wiring of its
constructor, the call list of `Impl::Reset`, and every `Teakra::method` body (identified by a hash of its canonical text).

  translate_facade.py [--repo DIR] [--golden]   writes lean/TeakraModel/Generated/Facade.lean (or Golden/Facade.lean)

Anything the translator cannot read raises - the check then reports the obligation as unchecked.
"""
import hashlib
import os
import re
import sys

ROOT = os.path.dirname(os.path.dirname(os.path.abspath(__file__)))
sys.path.insert(0, os.path.join(ROOT, "tools"))
from translate_mmio import strip_comments, match_close, split_top     # noqa: E402

MEMBERS = {"core_timing": ".coreTiming", "shared_memory": ".sharedMemory", "miu": ".miu", "icu": ".icu",
           "apbp_from_cpu": ".apbpFromCpu", "apbp_from_dsp": ".apbpFromDsp", "timer": ".timer", "ahbm": ".ahbm",
           "dma": ".dma", "btdmp": ".btdmp", "mmio": ".mmio", "memory_interface": ".memoryInterface",
           "processor": ".processor"}
RESET = {"miu": ".miu", "icu": ".icu", "mmio": ".mmio", "apbp_from_cpu": ".apbpFromCpu", "apbp_from_dsp": ".apbpFromDsp",
         "timer[0]": ".timer 0", "timer[1]": ".timer 1", "ahbm": ".ahbm", "dma": ".dma", "btdmp[0]": ".btdmp 0",
         "btdmp[1]": ".btdmp 1", "processor": ".processor"}
ICU_TO_CORE = ("icu.SetInterruptHandler(std::bind(&Processor::SignalInterrupt,&processor,_1),"
               "std::bind(&Processor::SignalVectoredInterrupt,&processor,_1,_2))")


def h32(text):
    return int(hashlib.sha256(text.encode()).hexdigest()[:8], 16)


def squeeze(s):
    s = re.sub(r"\s+", " ", s).strip()
    return re.sub(r"\s*([;(){},<>&*=\[\]])\s*", r"\1", s)


def statements(body):
    """Top-level statements of a block (text between the braces)."""
    out, depth, cur, instr = [], 0, [], False
    for c in body:
        if instr:
            cur.append(c)
            if c == '"':
                instr = False
            continue
        if c == '"':
            instr = True
        if c in "({[":
            depth += 1
        elif c in ")}]":
            depth -= 1
        if c == ";" and depth == 0:
            s = "".join(cur).strip()
            if s:
                out.append(s)
            cur = []
        else:
            cur.append(c)
    if "".join(cur).strip():
        raise ValueError("trailing text in block: %r" % "".join(cur).strip()[:60])
    return out


def translate(repo):
    src = strip_comments(open(os.path.join(repo, "src", "teakra.cpp")).read())
    m = re.search(r"struct Teakra::Impl\s*\{", src)
    if not m:
        raise ValueError("struct Teakra::Impl not found")
    s_open = m.end() - 1
    s_close = match_close(src, s_open)
    struct = src[s_open + 1:s_close]
    # --- constructor
    c = re.search(r"\bImpl\s*\(", struct)
    if not c:
        raise ValueError("constructor of Teakra::Impl not found")
    members_text = struct[:c.start()]
    members = []
    for st in statements(members_text):
        mm = re.match(r"^[\w:<>,\s]+?\s+((?:\w+\s*,\s*)*\w+)\s*(\{.*\})?$", st, re.S)
        if not mm:
            raise ValueError("member declaration not understood: %r" % st[:80])
        for name in [x.strip() for x in mm.group(1).split(",")]:
            members.append(name)
    p_close = match_close(struct, c.end() - 1)
    b_open = struct.index("{", struct.index("shared_memory", p_close))
    # the member-initialiser `shared_memory{dsp_memory}` has braces of its own: the body is the next `{` after it
    init_close = match_close(struct, b_open)
    b_open = struct.index("{", init_close + 1)
    b_close = match_close(struct, b_open)
    wiring = []
    icu_to_core = False
    set_mmio = False
    for st in statements(struct[b_open + 1:b_close]):
        q = squeeze(st)
        if q.startswith("using namespace"):
            continue
        if q == "memory_interface.SetMMIO(mmio)":
            set_mmio = True
            continue
        if q == ICU_TO_CORE:
            icu_to_core = True
            continue
        mm = re.match(r"^(\w+)(?:\[(\d+)\])?\.(Set\w*Handler)\((?:(\d+),)?\[this\]\(\)\{icu\.TriggerSingle\((0x[0-9A-Fa-f]+|\d+)\);\}\)$", q)
        if not mm:
            raise ValueError("constructor statement not understood: %r" % q[:120])
        obj, idx, meth, arg, irq = mm.groups()
        key = (obj, meth)
        if key == ("timer", "SetInterruptHandler") and idx is not None:
            site = ".timer %s" % idx
        elif key == ("btdmp", "SetInterruptHandler") and idx is not None:
            site = ".btdmp %s" % idx
        elif key == ("apbp_from_cpu", "SetDataHandler") and arg is not None:
            site = ".apbpData %s" % arg
        elif key == ("apbp_from_cpu", "SetSemaphoreHandler") and arg is None:
            site = ".apbpSem"
        elif key == ("dma", "SetInterruptHandler"):
            site = ".dma"
        else:
            site = ".other %d" % h32(q)
        wiring.append((site, int(irq, 0), q))
    # --- Reset
    r = re.compile(r"\bvoid\s+Reset\s*\(\s*\)\s*\{").search(struct, b_close)
    if not r:
        raise ValueError("Teakra::Impl::Reset not found")
    r_close = match_close(struct, r.end() - 1)
    resets = []
    for st in statements(struct[r.end():r_close]):
        q = squeeze(st)
        if q == "std::memset(shared_memory.raw,0,DspMemorySize)":
            resets.append((".memory", q))
            continue
        mm = re.match(r"^(\w+(?:\[\d+\])?)\.Reset\(\)$", q)
        if mm and mm.group(1) in RESET:
            resets.append((RESET[mm.group(1)], q))
        else:
            resets.append((".other %d" % h32(q), q))
    # --- methods of the facade
    methods = []
    rest = src[s_close:]
    for mm in re.finditer(r"(?m)^([\w:<>\s\*&]*?)\bTeakra::(~?\w+)\s*\(", rest):
        name = mm.group(2)
        a_close = match_close(rest, mm.end() - 1)
        args = squeeze(rest[mm.end():a_close])
        j = a_close + 1
        tail = re.compile(r"\s*(const)?\s*(:[^{]*)?(\{|=\s*default\s*;)").match(rest, j)
        if not tail:
            raise ValueError("method Teakra::%s not understood" % name)
        if tail.group(3) != "{":
            body = "=default" + squeeze(tail.group(2) or "")
        else:
            bo = tail.end() - 1
            bc = match_close(rest, bo)
            body = squeeze((tail.group(2) or "") + rest[bo:bc + 1])
        sig = "%s(%s)%s" % (name, args, "const" if tail.group(1) else "")
        methods.append((sig, squeeze(mm.group(1)) + "|" + body))
    return {"members": members, "wiring": wiring, "icu_to_core": icu_to_core, "set_mmio": set_mmio,
            "resets": resets, "methods": methods}


def render(t, ns):
    def cm(s):
        return s.replace("-/", "- /")
    out = ["import TeakraModel.FacadeTypes",
           "/-! GENERATED by tools/translate_facade.py from src/teakra.cpp. Do not edit. -/",
           "namespace Teakra.%s" % ns, "open Teakra", "",
           "/-- data members of `struct Teakra::Impl`, in declaration order -/",
           "def members : List FMember := [%s]" % ", ".join(MEMBERS.get(m, ".other %d /- %s -/" % (h32(m), cm(m))) for m in t["members"]),
           "", "/-- handler registrations of the constructor: site, interrupt number passed to `icu.TriggerSingle` -/",
           "def wiring : List (HSite × Nat) := ["]
    out.append(",\n".join("  (%s, 0x%X) /- %s -/" % (s, n, cm(q)) for (s, n, q) in t["wiring"]) + "]")
    out += ["", "/-- the ICU's two callbacks are bound to `Processor::SignalInterrupt` / `SignalVectoredInterrupt` -/",
            "def icuToCore : Bool := %s" % ("true" if t["icu_to_core"] else "false"),
            "def setMmio : Bool := %s" % ("true" if t["set_mmio"] else "false"), "",
            "/-- the statements of `Impl::Reset`, in order -/",
            "def resetCalls : List RTarget := ["]
    out.append(",\n".join("  %s /- %s -/" % (s, cm(q)) for (s, q) in t["resets"]) + "]")
    out += ["", "/-- every `Teakra::method`: hash of the signature, hash of return type + body (canonical text) -/",
            "def methods : List (Nat × Nat) := ["]
    out.append(",\n".join("  (%d, %d) /- %s -/" % (h32(s), h32(b), cm(s)) for (s, b) in t["methods"]) + "]")
    out += ["", "end Teakra.%s" % ns, ""]
    return "\n".join(out)


def generate(repo=None, golden=False):
    repo = repo or os.environ.get("VERIF_REPO", "/repo")
    t = translate(repo)
    ns = "Golden" if golden else "Generated"
    text = render(t, ns)
    path = os.path.join(ROOT, "lean", "TeakraModel", ns, "Facade.lean")
    old = open(path).read() if os.path.exists(path) else None
    if old != text:
        with open(path + ".tmp%d" % os.getpid(), "w") as f:
            f.write(text)
        os.replace(path + ".tmp%d" % os.getpid(), path)
    return {"facade_members": len(t["members"]), "facade_handler_sites": len(t["wiring"]),
            "facade_reset_calls": len(t["resets"]), "facade_methods": len(t["methods"]), "facade_table_changed": old != text}


def method_rows(path):
    """{signature comment: row} of a translated facade table (for reporting which method differs)."""
    rows = {}
    for line in open(path):
        m = re.match(r"^\s+\((\d+), (\d+)\) /- (.*) -/", line)
        if m:
            rows[m.group(3)] = (m.group(1), m.group(2))
    return rows


if __name__ == "__main__":
    import argparse
    ap = argparse.ArgumentParser()
    ap.add_argument("--repo", default=os.environ.get("VERIF_REPO", "/repo"))
    ap.add_argument("--golden", action="store_true")
    a = ap.parse_args()
    print(generate(a.repo, a.golden))
