#!/usr/bin/env python3
"""Confirm a seeded change and run the checks against it.

  seed_mutant.py <mutant dir (patch.diff, demo.cpp, meta.json)> <worktree> <seed id> [props…]

1. in the scratch worktree: apply the patch, build the project and run its test suite (must pass),
   build and run the demonstration (must fail); revert, run the demonstration again (must pass);
2. apply the patch to /repo, run the quick check of each property, undo the patch;
3. store patch, demo and meta (with what was run and what fired) under /verif/seeded/<id>/.
"""
import glob, json, os, shutil, subprocess, sys

ROOT = os.path.dirname(os.path.dirname(os.path.abspath(__file__)))


def sh(cmd, cwd=None, timeout=3600):
    p = subprocess.run(cmd, cwd=cwd, shell=isinstance(cmd, str), stdout=subprocess.PIPE, stderr=subprocess.STDOUT,
                       text=True, timeout=timeout)
    return p.returncode, p.stdout


def demo(wt, mdir, tag):
    srcs = [s for s in sorted(glob.glob(os.path.join(wt, "src", "*.cpp")))]
    exe = os.path.join(mdir, "demo_" + tag)
    rc, out = sh(["g++", "-std=c++17", "-O1", "-w", "-I", "src", "-I", "include", "-I", "include/teakra/impl",
                  os.path.join(mdir, "demo.cpp")] + srcs + ["-pthread", "-o", exe], cwd=wt)
    if rc != 0:
        # the demonstration may stub part of the project itself: retry with the source list its author recorded
        import re
        try:
            meta = json.load(open(os.path.join(mdir, "meta.json")))
        except Exception:      # noqa: BLE001
            meta = {}
        cmdtext = " ".join(str(v) for k, v in meta.items() if ("build" in k or "compile" in k) and "g++" in str(v))
        listed = sorted(set(re.findall(r"src/[\w/]+\.cpp", cmdtext)))
        if not listed:
            # the compile line in the demo's header comment (the line that mentions demo.cpp)
            head = [l for l in open(os.path.join(mdir, "demo.cpp")).read()[:4000].split("\n") if "g++" in l or ("src/" in l and ".cpp" in l and "demo" not in l)]
            listed = sorted(set(re.findall(r"src/[\w/]+\.cpp", " ".join(head))))
        if listed:
            rc, out = sh(["g++", "-std=c++17", "-O1", "-w", "-I", "src", "-I", "include", "-I", "include/teakra/impl",
                          os.path.join(mdir, "demo.cpp")] + listed + ["-pthread", "-o", exe], cwd=wt)
    if rc != 0:
        return None, "demo does not compile: " + out[-1500:]
    rc, out = sh([exe], cwd=wt, timeout=600)
    os.remove(exe)
    return rc, out[-800:]


def main():
    mdir, wt, sid = sys.argv[1], sys.argv[2], sys.argv[3]
    meta = json.load(open(os.path.join(mdir, "meta.json")))
    props = sys.argv[4:] or [meta["property"]]
    patch = os.path.join(mdir, "patch.diff")
    res = {"confirmed": False}
    sh("git checkout -- . && git clean -fdq -e mutants", cwd=wt)
    rc, out = sh(["git", "apply", patch], cwd=wt)
    if rc != 0:
        print("patch does not apply:", out); return 1
    b = os.path.join(wt, "_build")
    rc, out = sh("cmake -G Ninja -S . -B _build -DCMAKE_BUILD_TYPE=Release >/dev/null && cmake --build _build -j16 2>&1 | tail -3 && ctest --test-dir _build --timeout 900 2>&1 | tail -4", cwd=wt)
    res["build_and_tests_with_change"] = out[-600:]
    tests_ok = "100% tests passed" in out
    rc_with, out_with = demo(wt, mdir, "with")
    sh("git checkout -- .", cwd=wt)
    rc_without, out_without = demo(wt, mdir, "without")
    shutil.rmtree(b, ignore_errors=True)
    res.update({"tests_pass_with_change": tests_ok, "demo_rc_with": rc_with, "demo_out_with": out_with,
                "demo_rc_without": rc_without, "demo_out_without": out_without})
    res["confirmed"] = bool(tests_ok and rc_with not in (0, None) and rc_without == 0)
    print("confirmed:", res["confirmed"], "| tests:", tests_ok, "| demo with:", rc_with, "| demo without:", rc_without)
    # run our checks against it: the scratch worktree with the patch applied is the tree under test
    # (VERIF_REPO), so /repo itself is never modified while other work is reading it
    fired = {}
    rc, out = sh(["git", "apply", patch], cwd=wt)
    if rc != 0:
        print("patch does not apply:", out); return 1
    try:
        for p in props:
            env = dict(os.environ, VERIF_REPO=wt)
            pr = subprocess.run([sys.executable, os.path.join(ROOT, "check.py"), p, "--tier", "quick"], cwd=ROOT,
                                env=env, stdout=subprocess.PIPE, stderr=subprocess.STDOUT, text=True)
            rc, out = pr.returncode, pr.stdout
            lines = [l for l in out.split("\n") if l.startswith("VIOLATION") or l.startswith("  ")]
            fired[p] = {"exit": rc, "lines": lines[:6]}
            print(p, "exit", rc, (lines[1][:200] if len(lines) > 1 else out[-300:]))
    finally:
        sh("git checkout -- .", cwd=wt)
        sh("git checkout -- lean/TeakraModel/Generated harness/recvis.gen.h 2>/dev/null", cwd=ROOT)
    res["checks"] = fired
    d = os.path.join(ROOT, "seeded", sid)
    os.makedirs(d, exist_ok=True)
    shutil.copy(patch, os.path.join(d, "patch.diff"))
    shutil.copy(os.path.join(mdir, "demo.cpp"), os.path.join(d, "demo.cpp"))
    meta.update({"what_we_ran": "git apply in a scratch worktree; cmake+ctest; demo compiled against all src/*.cpp; then "
                 "VERIF_REPO=<worktree with the patch applied> python3 check.py <prop> --tier quick (equivalent to git -C /repo apply ...; check; git -C /repo checkout -- ., without disturbing /repo)",
                 "confirmation": res, "caught_by": [p for p in fired if fired[p]["exit"] == 1]})
    json.dump(meta, open(os.path.join(d, "meta.json"), "w"), indent=1)
    return 0


if __name__ == "__main__":
    sys.exit(main())
