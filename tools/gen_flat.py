"""One field specification -> Lean `Regs.toFlat/ofFlat/flatSpec` and the C++ flat field table.

Each entry: (lean field, C++ lvalue on `RegisterState& r` (or via TeakraVerifAccess), width in bits,
array length or 0, gen kind).  gen kind: 'v' random within width, 'z' always zero, 'c<k>' constant k,
'acc' accumulator shapes, 'pc' program counter.
The flat order is the protocol order of `interp dump` and the draw order of `interp gen`."""
import os

SPEC = [
    ("pc", "pc", 18, 0, "pc"), ("prpage", "prpage", 4, 0, "z"), ("cpc", "cpc", 1, 0, "v"),
    ("repc", "repc", 16, 0, "v"), ("repcs", "repcs", 16, 0, "v"), ("rep", "rep", 1, 0, "z"),
    ("crep", "crep", 1, 0, "v"), ("bcn", "bcn", 3, 0, "z"), ("lp", "lp", 1, 0, "z"),
    ("bk_start", "bkrep_stack[%d].start", 18, 4, "v"), ("bk_end", "bkrep_stack[%d].end", 18, 4, "v"),
    ("bk_lc", "bkrep_stack[%d].lc", 16, 4, "v"),
    ("a", "a[%d]", 64, 2, "acc"), ("b", "b[%d]", 64, 2, "acc"), ("a1s", "a1s", 64, 0, "acc"),
    ("b1s", "b1s", 64, 0, "acc"), ("ccnta", "ccnta", 1, 0, "v"), ("sat", "sat", 1, 0, "v"),
    ("sata", "sata", 1, 0, "v"), ("s", "s", 1, 0, "v"), ("sv", "sv", 16, 0, "v"),
    ("fz", "fz", 1, 0, "v"), ("fm", "fm", 1, 0, "v"), ("fn", "fn", 1, 0, "v"), ("fv", "fv", 1, 0, "v"),
    ("fe", "fe", 1, 0, "v"), ("fc0", "fc0", 1, 0, "v"), ("fc1", "fc1", 1, 0, "v"), ("flm", "flm", 1, 0, "v"),
    ("fvl", "fvl", 1, 0, "v"), ("fr", "fr", 1, 0, "v"), ("vtr0", "vtr0", 16, 0, "v"), ("vtr1", "vtr1", 16, 0, "v"),
    ("x", "x[%d]", 16, 2, "v"), ("y", "y[%d]", 16, 2, "v"), ("hwm", "hwm", 2, 0, "v"),
    ("p", "p[%d]", 32, 2, "v"), ("pe", "pe[%d]", 1, 2, "v"), ("ps", "ps[%d]", 2, 2, "v"),
    ("p0h_cbs", "p0h_cbs", 16, 0, "v"),
    ("r", "r[%d]", 16, 8, "v"), ("mixp", "mixp", 16, 0, "v"), ("sp", "sp", 16, 0, "v"),
    ("page", "page", 8, 0, "v"), ("pcmhi", "pcmhi", 2, 0, "v"),
    ("r0b", "r0b", 16, 0, "v"), ("r1b", "r1b", 16, 0, "v"), ("r4b", "r4b", 16, 0, "v"), ("r7b", "r7b", 16, 0, "v"),
    ("stepi", "stepi", 7, 0, "v"), ("stepj", "stepj", 7, 0, "v"), ("modi", "modi", 9, 0, "v"), ("modj", "modj", 9, 0, "v"),
    ("stepi0", "stepi0", 16, 0, "v"), ("stepj0", "stepj0", 16, 0, "v"),
    ("stepib", "stepib", 7, 0, "v"), ("stepjb", "stepjb", 7, 0, "v"), ("modib", "modib", 9, 0, "v"),
    ("modjb", "modjb", 9, 0, "v"), ("stepi0b", "stepi0b", 16, 0, "v"), ("stepj0b", "stepj0b", 16, 0, "v"),
    ("m", "m[%d]", 1, 8, "v"), ("br", "br[%d]", 1, 8, "v"), ("stp16", "stp16", 1, 0, "v"), ("cmd", "cmd", 1, 0, "v"),
    ("epi", "epi", 1, 0, "v"), ("epj", "epj", 1, 0, "v"),
    ("arstep", "arstep[%d]", 3, 4, "v"), ("arpstepi", "arpstepi[%d]", 3, 4, "v"), ("arpstepj", "arpstepj[%d]", 3, 4, "v"),
    ("aroffset", "aroffset[%d]", 2, 4, "v"), ("arpoffseti", "arpoffseti[%d]", 2, 4, "v"),
    ("arpoffsetj", "arpoffsetj[%d]", 2, 4, "v"), ("arrn", "arrn[%d]", 3, 4, "v"),
    ("arprni", "arprni[%d]", 2, 4, "v"), ("arprnj", "arprnj[%d]", 2, 4, "v"),
    ("ip", "ip[%d]", 1, 3, "v"), ("ipv", "ipv", 1, 0, "v"), ("im", "im[%d]", 1, 3, "v"), ("imv", "imv", 1, 0, "v"),
    ("ic", "ic[%d]", 1, 3, "v"), ("nimc", "nimc", 1, 0, "v"), ("ie", "ie", 1, 0, "z"),
    ("ou", "ou[%d]", 1, 5, "v"), ("iu", "iu[%d]", 1, 2, "v"), ("ext", "ext[%d]", 16, 4, "v"),
    ("mod0_unk_const", "mod0_unk_const", 3, 0, "c1"),
    ("sh_flm", "@shadow_registers:0", 1, 0, "v"), ("sh_fvl", "@shadow_registers:1", 1, 0, "v"),
    ("sh_fe", "@shadow_registers:2", 1, 0, "v"), ("sh_fc0", "@shadow_registers:3", 1, 0, "v"),
    ("sh_fc1", "@shadow_registers:4", 1, 0, "v"), ("sh_fv", "@shadow_registers:5", 1, 0, "v"),
    ("sh_fn", "@shadow_registers:6", 1, 0, "v"), ("sh_fm", "@shadow_registers:7", 1, 0, "v"),
    ("sh_fz", "@shadow_registers:8", 1, 0, "v"), ("sh_fr", "@shadow_registers:9", 1, 0, "v"),
    ("ss_pcmhi", "@swap:pcmhi", 2, 0, "v"), ("ss_sat", "@swap:sat", 1, 0, "v"), ("ss_sata", "@swap:sata", 1, 0, "v"),
    ("ss_hwm", "@swap:hwm", 2, 0, "v"), ("ss_s", "@swap:s", 1, 0, "v"), ("ss_ps", "@swap:ps[%d]", 2, 2, "v"),
    ("ss_page", "@swap:page", 8, 0, "v"), ("ss_stp16", "@swap:stp16", 1, 0, "v"), ("ss_cmd", "@swap:cmd", 1, 0, "v"),
    ("ss_m", "@swap:m[%d]", 1, 8, "v"), ("ss_br", "@swap:br[%d]", 1, 8, "v"), ("ss_im", "@swap:im[%d]", 1, 3, "v"),
    ("ss_imv", "@swap:imv", 1, 0, "v"), ("ss_epi", "@swap:epi", 1, 0, "v"), ("ss_epj", "@swap:epj", 1, 0, "v"),
    ("ss_ar_rni", "@ar:rni", 3, 2, "v"), ("ss_ar_rnj", "@ar:rnj", 3, 2, "v"), ("ss_ar_stepi", "@ar:stepi", 3, 2, "v"),
    ("ss_ar_stepj", "@ar:stepj", 3, 2, "v"), ("ss_ar_offseti", "@ar:offseti", 2, 2, "v"),
    ("ss_ar_offsetj", "@ar:offsetj", 2, 2, "v"),
    ("ss_arp_rni", "@arp:rni", 2, 4, "v"), ("ss_arp_rnj", "@arp:rnj", 2, 4, "v"), ("ss_arp_stepi", "@arp:stepi", 3, 4, "v"),
    ("ss_arp_stepj", "@arp:stepj", 3, 4, "v"), ("ss_arp_offseti", "@arp:offseti", 2, 4, "v"),
    ("ss_arp_offsetj", "@arp:offsetj", 2, 4, "v"),
]


def flat():
    """[(name, lean field, index or None, width, kind, cpp)]"""
    out = []
    for f, cpp, w, n, k in SPEC:
        if n == 0:
            out.append((f, f, None, w, k, cpp))
        else:
            for i in range(n):
                out.append(("%s%d" % (f, i), f, i, w, k, cpp))
    return out


def lean_get(f, i):
    if f.startswith("bk_"):
        sub = {"bk_start": "start", "bk_end": "end_", "bk_lc": "lc"}[f]
        return "r.bkrep[%d].%s.toNat" % (i, sub)
    if f.startswith("ss_ar_"):
        return "r.ss_ar[%d].%s.toNat" % (i, f[6:])
    if f.startswith("ss_arp_"):
        return "r.ss_arp[%d].%s.toNat" % (i, f[7:])
    if f == "rep":
        return "r.rep.toNat"
    if i is None:
        return "r.%s.toNat" % f
    return "r.%s[%d].toNat" % (f, i)


def gen_lean():
    fl = flat()
    L = ["/- GENERATED by tools/gen_flat.py — do not edit -/", "import TeakraModel.Machine", "namespace Teakra",
         "/-- (name, width, gen kind) of every register-file field in protocol order. -/",
         "def flatSpec : Array (String × Nat × String) := #["]
    L.append(",\n".join('  ("%s", %d, "%s")' % (n, w, k) for n, _, _, w, k, _ in fl))
    L.append("]")
    L.append("def Regs.toFlat (r : Regs) : Array Nat := #[")
    L.append(",\n".join("  " + lean_get(f, i) for _, f, i, _, _, _ in fl))
    L.append("]")
    # ofFlat
    idx = {n: k for k, (n, *_r) in enumerate(fl)}
    L.append("def Regs.ofFlat (v : Array Nat) : Regs :=")
    L.append("  let g (i : Nat) : Nat := v.getD i 0")
    L.append("  { (default : Regs) with")
    ents = []
    done = set()
    for f, cpp, w, n, k in SPEC:
        if f.startswith("bk_") or f.startswith("ss_ar_") or f.startswith("ss_arp_"):
            continue
        ty = {64: 64, 32: 32}.get(w, 16)
        if f == "pc":
            ty = 32
        if f == "rep":
            ents.append("    rep := g %d != 0" % idx["rep"])
        elif n == 0:
            ents.append("    %s := BitVec.ofNat %d (g %d)" % (f, ty, idx[f]))
        else:
            ents.append("    %s := #v[%s]" % (f, ", ".join("BitVec.ofNat %d (g %d)" % (ty, idx["%s%d" % (f, i)]) for i in range(n))))
    ents.append("    bkrep := #v[%s]" % ", ".join(
        "{ start := BitVec.ofNat 32 (g %d), end_ := BitVec.ofNat 32 (g %d), lc := BitVec.ofNat 16 (g %d) }"
        % (idx["bk_start%d" % i], idx["bk_end%d" % i], idx["bk_lc%d" % i]) for i in range(4)))
    for nm, cnt in (("ar", 2), ("arp", 4)):
        ents.append("    ss_%s := #v[%s]" % (nm, ", ".join(
            "{ " + ", ".join("%s := BitVec.ofNat 16 (g %d)" % (s, idx["ss_%s_%s%d" % (nm, s, i)])
                             for s in ("rni", "rnj", "stepi", "stepj", "offseti", "offsetj")) + " }"
            for i in range(cnt))))
    L.append(",\n".join(ents))
    L.append("  }")
    L.append("end Teakra")
    return "\n".join(L) + "\n"


def cpp_lvalue(cpp, i):
    if cpp.startswith("@"):
        return None
    return "r." + (cpp % i if "%d" in cpp else cpp)


def gen_cpp():
    fl = flat()
    L = ["// GENERATED by tools/gen_flat.py — do not edit", "#pragma once",
         "// flat field table of Teakra::RegisterState in protocol order",
         "struct FlatField { const char* name; int width; const char* kind; uint64_t (*get)(Teakra::RegisterState&); void (*set)(Teakra::RegisterState&, uint64_t); };",
         "static const FlatField kFlat[] = {"]
    shadow_names = ["flm", "fvl", "fe", "fc0", "fc1", "fv", "fn", "fm", "fz", "fr"]
    for n, f, i, w, k, cpp in fl:
        if not cpp.startswith("@"):
            lv = cpp_lvalue(cpp, i)
            cast = "bool" if f == "rep" else "decltype(%s)" % lv
            L.append('  {"%s", %d, "%s", [](Teakra::RegisterState& r) -> uint64_t { return (uint64_t)%s; }, [](Teakra::RegisterState& r, uint64_t v) { %s = (%s)v; }},'
                     % (n, w, k, lv, lv, cast))
        else:
            kind, rest = cpp[1:].split(":")
            if kind == "shadow_registers":
                acc = "ShadowFlag(r, %s)" % rest
            elif kind == "swap":
                acc = "ShadowSwap_%s(r)" % (rest.replace("[%d]", "") if "%d" in rest else rest)
                if "%d" in rest:
                    acc = "ShadowSwap_%s(r)[%d]" % (rest.replace("[%d]", ""), i)
            elif kind == "ar":
                acc = "ShadowAr(r, %d).%s" % (i, rest)
            else:
                acc = "ShadowArp(r, %d).%s" % (i, rest)
            L.append('  {"%s", %d, "%s", [](Teakra::RegisterState& r) -> uint64_t { return (uint64_t)%s; }, [](Teakra::RegisterState& r, uint64_t v) { %s = (u16)v; }},'
                     % (n, w, k, acc, acc))
    L.append("};")
    L.append("static const int kFlatCount = sizeof(kFlat) / sizeof(kFlat[0]);")
    return "\n".join(L) + "\n"


if __name__ == "__main__":
    here = os.path.dirname(os.path.dirname(os.path.abspath(__file__)))
    open(os.path.join(here, "lean/TeakraModel/Generated/Flat.lean"), "w").write(gen_lean())
    open(os.path.join(here, "harness/flat.gen.h"), "w").write(gen_cpp())
    print(len(flat()), "flat fields")
