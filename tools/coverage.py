#!/usr/bin/env python3
"""Measurement only, not a check: which lines of /repo/src and /repo/include do the correspondence
runs of the quick checks execute?

  coverage.py run C01 C03 …      run those checks (quick tier) with the harness built with --coverage
  coverage.py report [file …]    merge the .gcda files and list unexecuted lines per source file

A line of the implementation that no run executes cannot disagree with the model, so a change confined to it is
invisible to the differential tie; the report is what the generators are extended from.  (The proofs do not depend
on it.)  Output goes to .build/coverage/.
"""
import glob, gzip, json, os, subprocess, sys

ROOT = os.path.dirname(os.path.dirname(os.path.abspath(__file__)))
OBJ = os.path.join(ROOT, ".build", "obj")
OUT = os.path.join(ROOT, ".build", "coverage")


def run(props, tier):
    for f in glob.glob(os.path.join(OBJ, "*.gcda")):
        os.remove(f)
    env = dict(os.environ, VERIF_COVERAGE="1")
    for p in props:
        rc = subprocess.call([sys.executable, os.path.join(ROOT, "check.py"), p, "--tier", tier], env=env, cwd=ROOT,
                             stdout=subprocess.DEVNULL)
        print(p, "rc", rc, flush=True)


def merge():
    lines = {}     # file -> {line: count}
    funcs = {}
    for g in sorted(glob.glob(os.path.join(OBJ, "*.gcda"))):
        p = subprocess.run(["gcov", "--json-format", "--stdout", g], cwd=OBJ, stdout=subprocess.PIPE,
                           stderr=subprocess.DEVNULL)
        for doc in p.stdout.decode().split("\n"):
            if not doc.strip():
                continue
            try:
                j = json.loads(doc)
            except Exception:      # noqa: BLE001
                continue
            for f in j.get("files", []):
                fn = os.path.realpath(os.path.join(OBJ, f["file"]))
                if "/src/" not in fn and "/include/teakra" not in fn:
                    continue
                if "/harness/" in fn or "/.build/" in fn:
                    continue
                d = lines.setdefault(fn, {})
                for l in f["lines"]:
                    d[l["line_number"]] = d.get(l["line_number"], 0) + l["count"]
                fd = funcs.setdefault(fn, {})
                for fu in f.get("functions", []):
                    k = (fu.get("demangled_name") or fu["name"], fu["start_line"])
                    fd[k] = fd.get(k, 0) + fu["execution_count"]
    return lines, funcs


def report(only):
    lines, funcs = merge()
    os.makedirs(OUT, exist_ok=True)
    summ = []
    for fn in sorted(lines):
        if only and not any(o in fn for o in only):
            continue
        d = lines[fn]
        tot = len(d)
        hit = sum(1 for c in d.values() if c)
        miss = sorted(l for l, c in d.items() if not c)
        summ.append((fn, hit, tot))
        src = open(fn, errors="replace").read().split("\n")
        with open(os.path.join(OUT, os.path.basename(fn) + ".uncovered.txt"), "w") as o:
            # group consecutive lines
            i = 0
            while i < len(miss):
                j = i
                while j + 1 < len(miss) and miss[j + 1] <= miss[j] + 2:
                    j += 1
                for l in range(miss[i], miss[j] + 1):
                    o.write("%5d  %s\n" % (l, src[l - 1] if l - 1 < len(src) else ""))
                o.write("\n")
                i = j + 1
            o.write("# functions never entered\n")
            for (name, sl), c in sorted(funcs.get(fn, {}).items(), key=lambda x: x[0][1]):
                if c == 0:
                    o.write("%5d  %s\n" % (sl, name[:160]))
    for fn, hit, tot in summ:
        print("%-60s %5d / %5d  (%.1f%%)" % (fn[-60:], hit, tot, 100.0 * hit / max(tot, 1)))


if __name__ == "__main__":
    if sys.argv[1] == "run":
        tier = os.environ.get("VERIF_TIER", "quick")
        run(sys.argv[2:], tier)
    else:
        report(sys.argv[2:])
