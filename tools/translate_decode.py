#!/usr/bin/env python3
"""Translator for the instruction decode table (property C02).

Reads  <repo>/src/decoder.h   every `INST(name, expected, operands...)` entry of GetDecodeTable,
                               with its trailing `.EXCEPT(AtConst<T,pos,value>...)` chain
       <repo>/src/operand.h   bit width of every operand type, enum orders, the Cn aliases
       <repo>/src/matcher.h   (only checked: the matching rule must be the one the Lean model states)

Writes lean/TeakraModel/Generated/DecodeTable.lean   `Teakra.Decode.table : List Pat` (+ operandTypes, ...)
       harness/recvis.gen.h                          recording visitor, one method per (name, signature)
       .build/gen/decode_table.json                  the same data for the Python side

The template machinery (`At`, `Unused`, `Const`, `Cn`, `AtConst`, `MatcherCreator::Create`,
`RejectorCreator`, `Matcher::Matches`, `Decode`) is *not* interpreted: each of those declarations is
compared, whitespace- and comment-insensitively, with the text the translation rules below were
written for.  Any declaration that is neither one of those nor one of the recognised declarative
shapes raises `TranslateError` - the translator never guesses.

  translate_decode.py [--repo /repo] [--out ROOT] [--golden] [--dump-machinery]
"""
import argparse
import json
import os
import re
import sys

ROOT = os.path.dirname(os.path.dirname(os.path.abspath(__file__)))


class TranslateError(Exception):
    pass


def fail(msg):
    raise TranslateError(msg)


# ------------------------------------------------------------------------------------ lexical

def strip_comments(src, path):
    """Remove // and /* */ comments; string and character literals are kept intact."""
    out = []
    i, n = 0, len(src)
    while i < n:
        c = src[i]
        if src.startswith("//", i):
            while i < n and src[i] != "\n":
                i += 1
        elif src.startswith("/*", i):
            j = src.find("*/", i + 2)
            if j < 0:
                fail("%s: unterminated /* comment" % path)
            out.append("\n" * src.count("\n", i, j))
            i = j + 2
        elif c == '"' or c == "'":
            j = i + 1
            while j < n and src[j] != c:
                if src[j] == "\\":
                    j += 1
                if src[j] == "\n":
                    fail("%s: newline in literal" % path)
                j += 1
            if j >= n:
                fail("%s: unterminated literal" % path)
            out.append(src[i:j + 1])
            i = j + 1
        else:
            out.append(c)
            i += 1
    return "".join(out)


def norm(s):
    """Whitespace-insensitive canonical text: all white space removed except one blank between two
    identifier characters."""
    toks = s.split()
    out = []
    for t in toks:
        if out and re.match(r"\w", t[0]) and re.match(r"\w", out[-1][-1]):
            out.append(" ")
        out.append(t)
    return "".join(out)


def split_preprocessor(src, path):
    """(preprocessor lines normalised, remaining text)."""
    pp, rest = [], []
    for line in src.split("\n"):
        if line.lstrip().startswith("#"):
            if line.rstrip().endswith("\\"):
                fail("%s: multi-line preprocessor directive: %s" % (path, line.strip()))
            pp.append(norm(line))
            rest.append("")
        else:
            rest.append(line)
    return pp, "\n".join(rest)


def top_level_statements(src, path):
    """Split into top-level declarations: a statement ends at `;` outside all braces/parentheses, or
    at a `}` that closes the outermost brace and is not followed by `;` (function definition)."""
    stmts = []
    depth_b = depth_p = 0
    cur = []
    i, n = 0, len(src)
    while i < n:
        c = src[i]
        if c in "\"'":
            j = i + 1
            while src[j] != c:
                if src[j] == "\\":
                    j += 1
                j += 1
            cur.append(src[i:j + 1])
            i = j + 1
            continue
        cur.append(c)
        if c == "{":
            depth_b += 1
        elif c == "}":
            depth_b -= 1
            if depth_b < 0:
                fail("%s: unbalanced }" % path)
            if depth_b == 0 and depth_p == 0:
                j = i + 1
                while j < n and src[j].isspace():
                    j += 1
                if j < n and src[j] == ";":
                    cur.append(";")
                    i = j
                stmts.append(norm("".join(cur)))
                cur = []
        elif c == "(":
            depth_p += 1
        elif c == ")":
            depth_p -= 1
            if depth_p < 0:
                fail("%s: unbalanced )" % path)
        elif c == ";" and depth_b == 0 and depth_p == 0:
            stmts.append(norm("".join(cur)))
            cur = []
        i += 1
    if "".join(cur).strip():
        fail("%s: trailing text that is not a declaration: %r" % (path, "".join(cur).strip()[:80]))
    if depth_b or depth_p:
        fail("%s: unbalanced braces" % path)
    return [s for s in stmts if s]


def split_commas(s, what):
    """Split at commas outside <>, () and {}."""
    parts, cur = [], []
    da = dp = 0
    for c in s:
        if c == "<":
            da += 1
        elif c == ">":
            da -= 1
        elif c in "({":
            dp += 1
        elif c in ")}":
            dp -= 1
        if da < 0 or dp < 0:
            fail("unbalanced brackets in %s: %r" % (what, s[:120]))
        if c == "," and da == 0 and dp == 0:
            parts.append("".join(cur))
            cur = []
        else:
            cur.append(c)
    if da or dp:
        fail("unbalanced brackets in %s: %r" % (what, s[:120]))
    parts.append("".join(cur))
    return parts


NUM = r"(?:0[xX][0-9a-fA-F]+|[0-9]+)"


def num(s):
    if not re.fullmatch(NUM, s):
        fail("not a number: %r" % s)
    if len(s) > 1 and s[0] == "0" and s[1] not in "xX":
        fail("octal literal %r is not recognised" % s)
    return int(s, 0)


# ------------------------------------------------------------------------------------ pinned machinery
# Normalised text of every declaration whose *meaning* the translation rules rely on.  `At` carries
# one parameter: the bit position that means "the operand is the expansion word".

PIN_OPERAND_H_PP = ["#pragma once", '#include"common_types.h"']
PIN_MATCHER_H_PP = ["#pragma once", "#include<algorithm>", "#include<functional>", "#include<vector>",
                    '#include"common_types.h"', '#include"crash.h"']
PIN_DECODER_H_PP = ["#pragma once", "#include<type_traits>", "#include<vector>", '#include"crash.h"',
                    '#include"matcher.h"', '#include"operand.h"',
                    "#define INST(name,...)MatcherCreator<V,__VA_ARGS__>::Create(#name,&V::name)",
                    "#define EXCEPT(...)Except(RejectorCreator<__VA_ARGS__>::rejector)",
                    "#undef INST", "#undef EXCEPT"]

PIN_OPERAND_H = {
    "NoOverlap": "template<typename T,T...values>inline constexpr bool NoOverlap=(values+...)==(values|...);",
    "Operand": "template<unsigned bits>struct Operand{static_assert(bits>0&&bits<=16);static constexpr unsigned Bits=bits;"
               "protected:u16 storage{};template<typename OperandT,unsigned pos>friend struct At;"
               "template<typename OperandT,u16 value>friend struct Const;};",
    "At": "template<typename OperandT,unsigned pos>struct At{static constexpr unsigned Bits=OperandT::Bits;"
          "static_assert((Bits<16&&pos<16&&Bits+pos<=16)||(Bits==16&&pos==16));"
          "static constexpr u16 Mask=(((1<<Bits)-1)<<pos)&0xFFFF;static constexpr bool NeedExpansion=pos==@EXP@;"
          "static constexpr bool PassAsParameter=true;using FilterResult=OperandT;"
          "static constexpr OperandT Extract(u16 opcode,u16 expansion){OperandT operand{};if(NeedExpansion)"
          "operand.storage=expansion;else operand.storage=(u16)((opcode&Mask)>>pos);return operand;}};",
    "AtNamed": "template<typename OperandT,unsigned pos>struct AtNamed{using BaseType=At<OperandT,pos>;"
               "static constexpr unsigned Bits=BaseType::Bits;static constexpr u16 Mask=BaseType::Mask;"
               "static constexpr bool NeedExpansion=BaseType::NeedExpansion;"
               "static constexpr bool PassAsParameter=BaseType::PassAsParameter;"
               "using FilterResult=typename BaseType::FilterResult::NameType;"
               "static constexpr auto Extract(u16 opcode,u16 expansion){return BaseType::Extract(opcode,expansion).GetName();}};",
    "Unused": "template<unsigned pos>struct Unused{static_assert(pos<16);static constexpr u16 Mask=1<<pos;"
              "static constexpr bool NeedExpansion=false;static constexpr bool PassAsParameter=false;};",
    "Const": "template<typename OperandT,u16 value>struct Const{static constexpr u16 Mask=0;"
             "static constexpr bool NeedExpansion=false;static constexpr bool PassAsParameter=true;"
             "using FilterResult=OperandT;static constexpr OperandT Extract(u16,u16){OperandT operand{};"
             "operand.storage=value;return operand;}};",
    "Cn": "template<typename T,T value>struct Cn{static constexpr u16 Mask=0;static constexpr bool NeedExpansion=false;"
          "static constexpr bool PassAsParameter=true;using FilterResult=T;"
          "static constexpr T Extract(u16,u16){return value;}};",
    "AtConst": "template<typename OperandT,unsigned pos,u16 value>struct AtConst{using Base=At<OperandT,pos>;"
               'static_assert(Base::NeedExpansion==false,"");static constexpr u16 Mask=Base::Mask;'
               "static constexpr u16 Pad=value<<pos;};",
    "intlog2": 'constexpr unsigned intlog2(unsigned n){if(n%2!=0)throw"wtf";return(n==2)?1:1+intlog2(n/2);}',
    "EnumOperand": "template<typename EnumT,EnumT...names>struct EnumOperand:Operand<intlog2(sizeof...(names))>{"
                   "using NameType=EnumT;static constexpr EnumT values[]={names...};"
                   "constexpr EnumT GetName()const{return values[this->storage];}};",
    "EnumAllOperand": "template<typename EnumT>struct EnumAllOperand:Operand<intlog2((unsigned)EnumT::EnumEnd)>{"
                      "using NameType=EnumT;constexpr EnumT GetName()const{return(EnumT)this->storage;}};",
    "RegOperand": "template<RegName...reg_names>using RegOperand=EnumOperand<RegName,reg_names...>;",
}

PIN_MATCHER_H = [
    "struct Rejector{u16 mask;u16 unexpected;bool Rejects(u16 instruction)const{return(instruction&mask)==unexpected;}};",
    "template<typename Visitor>class Matcher{public:using visitor_type=Visitor;"
    "using handler_return_type=typename Visitor::instruction_return_type;"
    "using handler_function=std::function<handler_return_type(Visitor&,u16,u16)>;"
    "Matcher(const char*const name,u16 mask,u16 expected,bool expanded,handler_function func)"
    ":name{name},mask{mask},expected{expected},expanded{expanded},fn{std::move(func)}{}"
    'static Matcher AllMatcher(handler_function func){return Matcher("*",0,0,false,std::move(func));}'
    "const char*GetName()const{return name;}bool NeedExpansion()const{return expanded;}"
    "bool Matches(u16 instruction)const{return(instruction&mask)==expected&&"
    "std::none_of(rejectors.begin(),rejectors.end(),[instruction](const Rejector&rejector){"
    "return rejector.Rejects(instruction);});}"
    "Matcher Except(Rejector rejector)const{Matcher new_matcher(*this);new_matcher.rejectors.push_back(rejector);"
    "return new_matcher;}"
    "handler_return_type call(Visitor&v,u16 instruction,u16 instruction_expansion=0)const{"
    "ASSERT(Matches(instruction));return fn(v,instruction,instruction_expansion);}"
    "private:const char*name;u16 mask;u16 expected;bool expanded;handler_function fn;std::vector<Rejector>rejectors;};",
]

PIN_DECODER_H = [
    "template<typename...OperandAtT>struct OperandList{template<typename OperandAtT0>"
    "using prefix=OperandList<OperandAtT0,OperandAtT...>;};",
    "template<typename...OperandAtT>struct FilterOperand;",
    "template<>struct FilterOperand<>{using result=OperandList<>;};",
    "template<bool keep,typename OperandAtT0,typename...OperandAtT>struct FilterOperandHelper;",
    "template<typename OperandAtT0,typename...OperandAtT>struct FilterOperandHelper<false,OperandAtT0,OperandAtT...>{"
    "using result=typename FilterOperand<OperandAtT...>::result;};",
    "template<typename OperandAtT0,typename...OperandAtT>struct FilterOperandHelper<true,OperandAtT0,OperandAtT...>{"
    "using result=typename FilterOperand<OperandAtT...>::result::template prefix<OperandAtT0>;};",
    "template<typename OperandAtT0,typename...OperandAtT>struct FilterOperand<OperandAtT0,OperandAtT...>{"
    "using result=typename FilterOperandHelper<OperandAtT0::PassAsParameter,OperandAtT0,OperandAtT...>::result;};",
    "template<typename V,typename OperandListT>struct VisitorFunctionWithoutFilter;",
    "template<typename V,typename...OperandAtT>struct VisitorFunctionWithoutFilter<V,OperandList<OperandAtT...>>{"
    "using type=typename V::instruction_return_type(V::*)(typename OperandAtT::FilterResult...);};",
    "template<typename V,typename...OperandAtT>struct VisitorFunction{using type="
    "typename VisitorFunctionWithoutFilter<V,typename FilterOperand<OperandAtT...>::result>::type;};",
    "template<typename V,u16 expected,typename...OperandAtT>struct MatcherCreator{template<typename OperandListT>"
    "struct Proxy;using F=typename VisitorFunction<V,OperandAtT...>::type;template<typename...OperandAtTs>"
    "struct Proxy<OperandList<OperandAtTs...>>{F func;auto operator()(V&visitor,[[maybe_unused]]u16 opcode,"
    "[[maybe_unused]]u16 expansion)const{return(visitor.*func)(OperandAtTs::Extract(opcode,expansion)...);}};"
    "static Matcher<V>Create(const char*name,F func){"
    'static_assert(NoOverlap<u16,expected,OperandAtT::Mask...>,"Error");'
    "Proxy<typename FilterOperand<OperandAtT...>::result>proxy{func};"
    "constexpr u16 mask=(~OperandAtT::Mask&...&0xFFFF);constexpr bool expanded=(OperandAtT::NeedExpansion||...);"
    "return Matcher<V>(name,mask,expected,expanded,proxy);}};",
    "template<typename...OperandAtConstT>struct RejectorCreator{static constexpr Rejector rejector{"
    "(OperandAtConstT::Mask|...),(OperandAtConstT::Pad|...)};};",
    "@TABLE@",
    "template<typename V>Matcher<V>Decode(u16 instruction){static const auto table=GetDecodeTable<V>();"
    "const auto matches_instruction=[instruction](const auto&matcher){return matcher.Matches(instruction);};"
    "auto iter=std::find_if(table.begin(),table.end(),matches_instruction);if(iter==table.end()){"
    "return Matcher<V>::AllMatcher([](V&v,u16 opcode,u16){return v.undefined(opcode);});}else{"
    "auto other=std::find_if(iter+1,table.end(),matches_instruction);ASSERT(other==table.end());return*iter;}}",
    "template<typename V>std::vector<Matcher<V>>GetDecoderTable(){std::vector<Matcher<V>>table;table.reserve(0x10000);"
    "for(u32 i=0;i<0x10000;++i){table.push_back(Decode<V>((u16)i));}return table;}",
]

TABLE_HEAD = "template<typename V>std::vector<Matcher<V>>GetDecodeTable(){return{"
TABLE_TAIL = "};}"


def check_pp(got, want, path):
    if got != want:
        extra = [g for g in got if g not in want]
        missing = [w for w in want if w not in got]
        fail("%s: preprocessor lines differ from the recognised ones (unexpected %r, missing %r, or order changed)"
             % (path, extra, missing))


# ------------------------------------------------------------------------------------ operand.h

MEMBER_FN = re.compile(
    r"constexpr (?:[\w:]+ )?(\w+)\(([^(){};]*)\)(?:const)?\{([^{}]*)\}|constexpr (\w+)\(\)=default;")


def check_body(name, body, path):
    """A struct body may only hold constexpr constructors / member functions (they never influence
    the width or the extracted storage); anything else is unrecognised."""
    rest = body
    while rest:
        m = MEMBER_FN.match(rest)
        if not m:
            fail("%s: struct %s: unrecognised member text %r" % (path, name, rest[:100]))
        rest = rest[m.end():]


def intlog2(n, what):
    if n < 2 or n & (n - 1):
        fail("%s: %d names is not a power of two >= 2 (intlog2 would not compile)" % (what, n))
    return n.bit_length() - 1


class OperandInfo:
    def __init__(self):
        self.enums = {}        # enum name -> [enumerators]; scoped flag in self.scoped
        self.scoped = {}
        self.enum_order = []
        self.types = {}        # operand type -> dict(bits, names, enum)
        self.type_order = []
        self.width_templates = {}   # template name -> number of parameters
        self.cn = {}           # alias -> dict(ctype, value, text)
        self.cn_order = []
        self.exp_pos = None


def parse_enum_names(info, enum, names, what):
    """`E::a, E::b` (scoped) or `a, b` -> [a, b], each checked to be an enumerator of E."""
    if enum not in info.enums:
        fail("%s: unknown enum %s" % (what, enum))
    out = []
    for nm in names:
        if info.scoped[enum]:
            if not nm.startswith(enum + "::"):
                fail("%s: enumerator %r is not written as %s::x" % (what, nm, enum))
            nm = nm[len(enum) + 2:]
        if nm not in info.enums[enum]:
            fail("%s: %s is not an enumerator of %s" % (what, nm, enum))
        out.append(nm)
    return out


def resolve_base(info, base, what):
    """Width / value names of a base-class or alias expression."""
    m = re.fullmatch(r"Operand<(%s)>" % NUM, base)
    if m:
        b = num(m.group(1))
        if not 0 < b <= 16:
            fail("%s: Operand<%d> out of range" % (what, b))
        return {"bits": b, "names": [], "enum": ""}
    m = re.fullmatch(r"RegOperand<(.*)>", base)
    if m:
        names = parse_enum_names(info, "RegName", split_commas(m.group(1), what), what)
        return {"bits": intlog2(len(names), what), "names": names, "enum": "RegName"}
    m = re.fullmatch(r"EnumOperand<(.*)>", base)
    if m:
        parts = split_commas(m.group(1), what)
        enum = parts[0]
        names = parse_enum_names(info, enum, parts[1:], what)
        return {"bits": intlog2(len(names), what), "names": names, "enum": enum}
    m = re.fullmatch(r"EnumAllOperand<(\w+)>", base)
    if m:
        enum = m.group(1)
        if enum not in info.enums:
            fail("%s: unknown enum %s" % (what, enum))
        es = info.enums[enum]
        if "EnumEnd" not in es:
            fail("%s: enum %s has no EnumEnd" % (what, enum))
        k = es.index("EnumEnd")
        return {"bits": intlog2(k, what), "names": es[:k], "enum": enum}
    m = re.fullmatch(r"(\w+)<(.*)>", base)
    if m and m.group(1) in info.width_templates:
        args = split_commas(m.group(2), what)
        if not 1 <= len(args) <= info.width_templates[m.group(1)]:
            fail("%s: wrong number of arguments in %s" % (what, base))
        b = num(args[0])
        for a in args[1:]:
            num(a)
        if not 0 < b <= 16:
            fail("%s: %s out of range" % (what, base))
        return {"bits": b, "names": [], "enum": ""}
    if re.fullmatch(r"\w+", base) and base in info.types:
        return dict(info.types[base])
    fail("%s: unrecognised base/alias expression %r" % (what, base))


def parse_operand_h(path):
    raw = open(path).read()
    pp, body = split_preprocessor(strip_comments(raw, path), path)
    check_pp(pp, PIN_OPERAND_H_PP, path)
    info = OperandInfo()
    pinned = dict(PIN_OPERAND_H)
    at_re = re.escape(pinned.pop("At")).replace(re.escape("@EXP@"), r"(\d+)")
    seen_pins = set()
    for st in top_level_statements(body, path):
        what = "%s: `%s...`" % (path, st[:60])
        m = re.fullmatch(at_re, st)
        if m:
            info.exp_pos = int(m.group(1))
            seen_pins.add("At")
            continue
        hit = [k for k, v in pinned.items() if v == st]
        if hit:
            seen_pins.add(hit[0])
            continue
        m = re.fullmatch(r"enum( class)? (\w+)\{(.*)\};", st)
        if m:
            name = m.group(2)
            es = [e for e in m.group(3).split(",")]
            if es and es[-1] == "":
                es.pop()
            for e in es:
                if not re.fullmatch(r"\w+", e):
                    fail("%s: enumerator %r is not a plain name (explicit values are not recognised)" % (what, e))
            if len(set(es)) != len(es) or name in info.enums:
                fail("%s: duplicate enum / enumerator" % what)
            info.enums[name] = es
            info.scoped[name] = bool(m.group(1))
            info.enum_order.append(name)
            continue
        m = re.fullmatch(r"using (\w+)=Cn<(\w+),([\w:]+)>;", st)
        if m:
            alias, ctype, val = m.groups()
            if ctype == "bool":
                if val not in ("true", "false"):
                    fail("%s: bool Cn value %r" % (what, val))
                v = 1 if val == "true" else 0
            elif ctype in info.enums:
                v = info.enums[ctype].index(parse_enum_names(info, ctype, [val], what)[0])
            else:
                fail("%s: Cn over unrecognised type %s" % (what, ctype))
            if alias in info.cn or alias in info.types:
                fail("%s: duplicate name %s" % (what, alias))
            info.cn[alias] = {"ctype": ctype, "value": v}
            info.cn_order.append(alias)
            continue
        m = re.fullmatch(r"using (\w+)=(.+);", st)
        if m:
            name = m.group(1)
            if name in info.types or name in info.cn:
                fail("%s: duplicate name %s" % (what, name))
            info.types[name] = resolve_base(info, m.group(2), what)
            info.type_order.append(name)
            continue
        m = re.fullmatch(r"template<unsigned bits(,u16 \w+=%s)?>struct (\w+):Operand<bits>\{(.*)\};" % NUM, st)
        if m:
            check_body(m.group(2), m.group(3), path)
            info.width_templates[m.group(2)] = 2 if m.group(1) else 1
            continue
        m = re.fullmatch(r"struct (\w+):([^{}]+)\{(.*)\};", st)
        if m:
            name = m.group(1)
            if name in info.types or name in info.cn:
                fail("%s: duplicate name %s" % (what, name))
            check_body(name, m.group(3), path)
            info.types[name] = resolve_base(info, m.group(2), what)
            info.type_order.append(name)
            continue
        if re.fullmatch(r"constexpr [\w:]+ (\w+)\([^(){};]*\)\{[^{}]*\}", st) and "intlog2" not in st.split("(")[0]:
            continue            # free helper function over operand values (e.g. Address32): no table content
        fail("%s: unrecognised declaration" % what)
    missing = (set(pinned) | {"At"}) - seen_pins
    if missing:
        fail("%s: declarations not found in their recognised form: %s" % (path, ", ".join(sorted(missing))))
    return info


def check_matcher_h(path):
    raw = open(path).read()
    pp, body = split_preprocessor(strip_comments(raw, path), path)
    check_pp(pp, PIN_MATCHER_H_PP, path)
    st = top_level_statements(body, path)
    if st != PIN_MATCHER_H:
        for a, b in zip(st + [""] * len(PIN_MATCHER_H), PIN_MATCHER_H + [""] * len(st)):
            if a != b:
                fail("%s: declaration differs from the recognised matching rule: `%s...`" % (path, a[:90]))


# ------------------------------------------------------------------------------------ decoder.h

def parse_decoder_h(path, info):
    raw = open(path).read()
    pp, body = split_preprocessor(strip_comments(raw, path), path)
    check_pp(pp, PIN_DECODER_H_PP, path)
    sts = top_level_statements(body, path)
    if len(sts) != len(PIN_DECODER_H):
        fail("%s: %d top-level declarations, %d recognised" % (path, len(sts), len(PIN_DECODER_H)))
    table_src = None
    for st, pin in zip(sts, PIN_DECODER_H):
        if pin == "@TABLE@":
            if not (st.startswith(TABLE_HEAD) and st.endswith(TABLE_TAIL)):
                fail("%s: GetDecodeTable is not `return { ... };`" % path)
            table_src = st[len(TABLE_HEAD):-len(TABLE_TAIL)]
        elif st != pin:
            fail("%s: declaration differs from the recognised decode machinery: `%s...`" % (path, st[:90]))
    # the #define/#undef pair must bracket the table (position inside the function is not otherwise checked)
    entries = split_commas(table_src.replace(" ", ""), "decode table")
    if entries and entries[-1] == "":
        entries.pop()
    operand_re = r"(?:At<\w+,%s>|AtNamed<\w+,%s>|Unused<%s>|Const<\w+,%s>|\w+)" % (NUM, NUM, NUM, NUM)
    atconst_re = r"AtConst<\w+,%s,%s>" % (NUM, NUM)
    entry_re = re.compile(r"INST\((\w+),(%s)((?:,%s)*)\)((?:\.EXCEPT\(%s(?:,%s)*\))*)"
                          % (NUM, operand_re, atconst_re, atconst_re))
    pats = []
    for ent in entries:
        m = entry_re.fullmatch(ent)
        if not m:
            fail("%s: unrecognised decode table entry: %s" % (path, ent))
        name, expected = m.group(1), num(m.group(2))
        if expected > 0xFFFF:
            fail("%s: expected value out of range in %s" % (path, ent))
        ops = []
        opsrc = m.group(3)
        for o in (split_commas(opsrc[1:], ent) if opsrc else []):
            mm = re.fullmatch(r"(At|AtNamed)<(\w+),(%s)>" % NUM, o)
            if mm:
                ty = mm.group(2)
                if ty not in info.types:
                    fail("%s: unknown operand type %s in %s" % (path, ty, ent))
                if mm.group(1) == "AtNamed" and not info.types[ty]["enum"]:
                    fail("%s: AtNamed over %s, which has no names, in %s" % (path, ty, ent))
                ops.append({"kind": mm.group(1), "ty": ty, "pos": num(mm.group(3)),
                            "bits": info.types[ty]["bits"], "value": 0})
                continue
            mm = re.fullmatch(r"Unused<(%s)>" % NUM, o)
            if mm:
                ops.append({"kind": "Unused", "ty": "", "pos": num(mm.group(1)), "bits": 1, "value": 0})
                continue
            mm = re.fullmatch(r"Const<(\w+),(%s)>" % NUM, o)
            if mm:
                ty = mm.group(1)
                if ty not in info.types:
                    fail("%s: unknown operand type %s in %s" % (path, ty, ent))
                v = num(mm.group(2))
                if v > 0xFFFF:
                    fail("%s: Const value out of u16 range in %s" % (path, ent))
                ops.append({"kind": "Const", "ty": ty, "pos": 0, "bits": 0, "value": v})
                continue
            if o in info.cn:
                ops.append({"kind": "Cn", "ty": o, "pos": 0, "bits": 0, "value": info.cn[o]["value"]})
                continue
            fail("%s: unrecognised operand %r in %s" % (path, o, ent))
        rej = []
        for r in re.findall(r"\.EXCEPT\(([^()]*)\)", m.group(4)):
            rm = ru = 0
            for a in split_commas(r, ent):
                mm = re.fullmatch(r"AtConst<(\w+),(%s),(%s)>" % (NUM, NUM), a)
                ty = mm.group(1)
                if ty not in info.types:
                    fail("%s: unknown operand type %s in %s" % (path, ty, ent))
                pos, val = num(mm.group(2)), num(mm.group(3))
                rm |= at_mask(info.types[ty]["bits"], pos)
                ru |= (val << pos) & 0xFFFF
            rej.append([rm, ru])
        pats.append(make_pat(name, expected, ops, rej, info.exp_pos))
    return pats


def at_mask(bits, pos):
    return (((1 << bits) - 1) << pos) & 0xFFFF


def op_mask(o):
    if o["kind"] in ("At", "AtNamed"):
        return at_mask(o["bits"], o["pos"])
    if o["kind"] == "Unused":
        return (1 << o["pos"]) & 0xFFFF
    return 0


def make_pat(name, expected, ops, rej, exp_pos):
    union = 0
    for o in ops:
        union |= op_mask(o)
    return {"name": name, "expected": expected, "mask": ~union & 0xFFFF,
            "expanded": any(o["kind"] in ("At", "AtNamed") and o["pos"] == exp_pos for o in ops),
            "operands": ops, "rejectors": rej}


# ------------------------------------------------------------------------------------ derived data

def param_ctype(info, o):
    """C++ parameter type the visitor method receives for this operand (None: not passed)."""
    if o["kind"] == "Unused":
        return None
    if o["kind"] == "Cn":
        return info.cn[o["ty"]]["ctype"]
    if o["kind"] == "AtNamed":
        return info.types[o["ty"]]["enum"]
    return o["ty"]


def signature(info, p):
    return [t for t in (param_ctype(info, o) for o in p["operands"]) if t is not None]


def build(repo):
    src = os.path.join(repo, "src")
    info = parse_operand_h(os.path.join(src, "operand.h"))
    check_matcher_h(os.path.join(src, "matcher.h"))
    pats = parse_decoder_h(os.path.join(src, "decoder.h"), info)
    if not pats:
        fail("empty decode table")
    used = []
    for p in pats:
        for o in p["operands"]:
            if o["kind"] in ("At", "AtNamed", "Const") and o["ty"] not in used:
                used.append(o["ty"])
    data = {
        "expansion_pos": info.exp_pos,
        "table": pats,
        "signatures": [",".join(signature(info, p)) for p in pats],
        "operandTypes": [[t, info.types[t]["bits"], info.types[t]["names"]] for t in info.type_order],
        "operandEnum": [[t, info.types[t]["enum"]] for t in info.type_order if info.types[t]["enum"]],
        "cnTypes": [[a, info.cn[a]["ctype"], info.cn[a]["value"]] for a in info.cn_order],
        "enums": [[e, info.enums[e]] for e in info.enum_order],
        "usedTypes": used,
    }
    return data, info


# ------------------------------------------------------------------------------------ emitters

def lean_str(s):
    if not re.fullmatch(r"[\w,:*]*", s):
        fail("string %r cannot be emitted" % s)
    return '"%s"' % s


def lean_list(xs):
    return "[" + ", ".join(xs) + "]"


def emit_lean(data, namespace, origin):
    L = []
    L.append("import TeakraModel.DecodeTypes")
    L.append("/-! GENERATED by tools/translate_decode.py from %s - do not edit.  %d patterns. -/" % (origin, len(data["table"])))
    L.append("set_option maxRecDepth 100000")
    L.append("namespace %s" % namespace)
    L.append("open Teakra.Decode")
    L.append("")
    L.append("/-- Bit position that `At<T,pos>::NeedExpansion` tests for. -/")
    L.append("def expansionPos : Nat := %d" % data["expansion_pos"])
    L.append("")
    L.append("def table : List Pat := [")
    rows = []
    for p in data["table"]:
        ops = lean_list(["⟨%s, %s, %d, %d, %d⟩" % (lean_str(o["kind"]), lean_str(o["ty"]), o["pos"], o["bits"], o["value"])
                         for o in p["operands"]])
        rej = lean_list(["(0x%04x, 0x%04x)" % (m, u) for m, u in p["rejectors"]])
        rows.append("  ⟨%s, 0x%04x, 0x%04x, %s, %s, %s⟩" % (lean_str(p["name"]), p["expected"], p["mask"],
                                                           "true" if p["expanded"] else "false", ops, rej))
    L.append(",\n".join(rows))
    L.append("]")
    L.append("")
    L.append("/-- (operand type, width in bits, value names in storage order if the type is enum-like). -/")
    L.append("def operandTypes : List (String × Nat × List String) := [")
    L.append(",\n".join("  (%s, %d, %s)" % (lean_str(t), b, lean_list([lean_str(n) for n in ns]))
                        for t, b, ns in data["operandTypes"]))
    L.append("]")
    L.append("")
    L.append("/-- (operand type, the enum its `GetName()` returns). -/")
    L.append("def operandEnum : List (String × String) := [")
    L.append(",\n".join("  (%s, %s)" % (lean_str(t), lean_str(e)) for t, e in data["operandEnum"]))
    L.append("]")
    L.append("")
    L.append("/-- (Cn alias, C++ parameter type, value). -/")
    L.append("def cnTypes : List (String × String × Nat) := [")
    L.append(",\n".join("  (%s, %s, %d)" % (lean_str(a), lean_str(c), v) for a, c, v in data["cnTypes"]))
    L.append("]")
    L.append("")
    L.append("/-- (enum, enumerators in declaration order = numeric value). -/")
    L.append("def enums : List (String × List String) := [")
    L.append(",\n".join("  (%s, %s)" % (lean_str(e), lean_list([lean_str(n) for n in ns])) for e, ns in data["enums"]))
    L.append("]")
    L.append("")
    L.append("end %s" % namespace)
    return "\n".join(L) + "\n"


def emit_recvis(data):
    """One method per distinct (name, C++ parameter type list)."""
    seen = {}
    for p, sig in zip(data["table"], data["signatures"]):
        seen.setdefault((p["name"], tuple(sig.split(",")) if sig else ()), True)
    types = {t[0] for t in data["operandTypes"]}
    enums = {e[0] for e in data["enums"]}
    L = []
    L.append("// GENERATED by tools/translate_decode.py from decoder.h / operand.h - do not edit.")
    L.append("// Recording visitor: a consumer of GetDecodeTable<V> that records which handler overload was")
    L.append("// selected and the raw storage of every operand it was given.")
    L.append("#pragma once")
    L.append("#include <string>")
    L.append("#include <vector>")
    L.append('#include "operand.h"')
    L.append("")
    L.append("namespace recvis {")
    L.append("// Operand<n>::storage is protected: name it through a derived class, apply it to the base object.")
    L.append("template <typename T>")
    L.append("struct Peek : T {")
    L.append("    static u16 get(const T& t) { return t.*(&Peek::storage); }")
    L.append("};")
    L.append("")
    L.append("struct RecordingVisitor {")
    L.append("    using instruction_return_type = void;")
    L.append("    const char* name = \"\";")
    L.append("    const char* sig = \"\";")
    L.append("    std::vector<u16> vals;")
    L.append("    void rec(const char* n, const char* s, std::vector<u16> v) { name = n; sig = s; vals = std::move(v); }")
    L.append("")
    L.append("    void undefined(u16 opcode) { rec(\"undefined\", \"\", {opcode}); }")
    for (name, sig) in seen:
        params, vals = [], []
        for i, t in enumerate(sig):
            params.append("%s a%d" % (t, i))
            if t in types:
                vals.append("Peek<%s>::get(a%d)" % (t, i))
            elif t == "bool" or t in enums:
                vals.append("(u16)a%d" % i)
            else:
                fail("parameter type %s of %s is neither operand, bool nor enum" % (t, name))
        L.append("    void %s(%s) { rec(\"%s\", \"%s\", {%s}); }" % (name, ", ".join(params), name, ",".join(sig), ", ".join(vals)))
    L.append("};")
    L.append("} // namespace recvis")
    return "\n".join(L) + "\n", len(seen)


def write_if_changed(path, text):
    os.makedirs(os.path.dirname(path), exist_ok=True)
    if os.path.exists(path) and open(path).read() == text:
        return False
    with open(path + ".tmp", "w") as f:
        f.write(text)
    os.replace(path + ".tmp", path)
    return True


def stats(data):
    t = data["table"]
    return {"patterns": len(t), "handler_names": len({p["name"] for p in t}),
            "overloads": len({(p["name"], s) for p, s in zip(t, data["signatures"])}),
            "with_rejectors": sum(1 for p in t if p["rejectors"]),
            "with_unused": sum(1 for p in t if any(o["kind"] == "Unused" for o in p["operands"])),
            "expanded": sum(1 for p in t if p["expanded"])}


def translate(repo, out_root=ROOT, golden=False):
    """Regenerate everything from `repo`; returns (data, changed files)."""
    data, info = build(repo)
    changed = []
    gen = os.path.join(out_root, "lean", "TeakraModel", "Generated", "DecodeTable.lean")
    if write_if_changed(gen, emit_lean(data, "Teakra.Decode", "src/decoder.h, src/operand.h")):
        changed.append(gen)
    hv, _ = emit_recvis(data)
    rv = os.path.join(out_root, "harness", "recvis.gen.h")
    if write_if_changed(rv, hv):
        changed.append(rv)
    js = os.path.join(out_root, ".build", "gen", "decode_table.json")
    if write_if_changed(js, json.dumps(data, indent=0, sort_keys=True) + "\n"):
        changed.append(js)
    if golden:
        g = os.path.join(out_root, "lean", "TeakraModel", "Golden", "DecodeTable.lean")
        if write_if_changed(g, emit_lean(data, "Teakra.Decode.Golden", "the pinned src/decoder.h, src/operand.h (snapshot)")):
            changed.append(g)
        gj = os.path.join(out_root, "lean", "TeakraModel", "Golden", "decode_table.json")
        if write_if_changed(gj, json.dumps(data, indent=0, sort_keys=True) + "\n"):
            changed.append(gj)
    return data, changed


def restore_golden(out_root=ROOT):
    """Put the committed golden table back into Generated/, recvis.gen.h and the JSON (used when the source
    cannot be translated, so that the differential runs against the pinned encoding)."""
    data = json.load(open(os.path.join(out_root, "lean", "TeakraModel", "Golden", "decode_table.json")))
    changed = []
    for path, text in (
            (os.path.join(out_root, "lean", "TeakraModel", "Generated", "DecodeTable.lean"),
             emit_lean(data, "Teakra.Decode", "src/decoder.h, src/operand.h")),
            (os.path.join(out_root, "harness", "recvis.gen.h"), emit_recvis(data)[0]),
            (os.path.join(out_root, ".build", "gen", "decode_table.json"), json.dumps(data, indent=0, sort_keys=True) + "\n")):
        if write_if_changed(path, text):
            changed.append(path)
    return data, changed


def dump_machinery(repo):
    for f in ("operand.h", "matcher.h", "decoder.h"):
        p = os.path.join(repo, "src", f)
        pp, body = split_preprocessor(strip_comments(open(p).read(), p), p)
        print("==", f)
        for l in pp:
            print("  PP", repr(l))
        for st in top_level_statements(body, p):
            print("  ST", repr(st if len(st) < 3000 else st[:200] + " ... " + st[-60:]))


def main():
    ap = argparse.ArgumentParser()
    ap.add_argument("--repo", default=os.environ.get("VERIF_REPO", "/repo"))
    ap.add_argument("--out", default=ROOT)
    ap.add_argument("--golden", action="store_true", help="also rewrite the committed Golden/ snapshot")
    ap.add_argument("--dump-machinery", action="store_true")
    a = ap.parse_args()
    if a.dump_machinery:
        dump_machinery(a.repo)
        return 0
    try:
        data, changed = translate(a.repo, a.out, a.golden)
    except TranslateError as e:
        print("translate_decode: " + str(e), file=sys.stderr)
        return 2
    print(json.dumps({"stats": stats(data), "changed": changed}))
    return 0


if __name__ == "__main__":
    sys.exit(main())
