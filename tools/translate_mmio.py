#!/usr/bin/env python3
"""Translate the cell bindings of `MMIORegion::MMIORegion` (src/mmio.cpp) into a Lean table.

  translate_mmio.py [--repo DIR] [--golden]     writes lean/TeakraModel/Generated/MmioBind.lean
                                                (or Golden/MmioBind.lean with --golden)

The constructor body is a list of assignments `impl->cells[EXPR] = …;`, `impl->cells[EXPR].set = …;`,
`impl->cells[EXPR].get = …;` inside `for (T i = A; i < B; ++i) { … }` loops.  The translator unrolls the loops (textual
substitution of the loop variable), evaluates the offset expressions, and records per offset what the cell is bound to:

  const c | ref var | fresh (`Cell()`) | bitfield [slot…] | halves set get

Accessor expressions (std::bind(&C::M, &obj, args…), lambdas, NoSet("…"), RefCell/RefSlot variables) are put into a
canonical text (comments and white space removed, capture lists dropped, the lambda parameter renamed to `$v`, the
loop variable replaced by its value) and represented in Lean by the first 32 bits of the SHA-256 of that text, with the
text itself in a comment; 0 = absent (`{}` in a slot, or the half of a default cell that was not replaced).
Fixed ids: 1 = `[](u16) {}`, 2 = NoSet(…), 3 = `[]() -> u16 { return 0; }`.

Anything the translator cannot read raises - the check then reports the obligation as unchecked.
"""
import hashlib
import os
import re
import sys

ROOT = os.path.dirname(os.path.dirname(os.path.abspath(__file__)))


def strip_comments(s):
    s = re.sub(r"/\*.*?\*/", " ", s, flags=re.S)
    out = []
    for line in s.split("\n"):
        # no string literal in this file contains //
        i = line.find("//")
        out.append(line if i < 0 else line[:i])
    return "\n".join(out)


def match_close(s, i):
    """s[i] is an opening bracket; index of its partner."""
    pairs = {"(": ")", "{": "}", "[": "]"}
    stack = []
    j = i
    instr = False
    while j < len(s):
        c = s[j]
        if instr:
            if c == "\\":
                j += 1
            elif c == '"':
                instr = False
        elif c == '"':
            instr = True
        elif c in pairs:
            stack.append(pairs[c])
        elif c in ")}]":
            if not stack or stack.pop() != c:
                raise ValueError("unbalanced bracket at %d" % j)
            if not stack:
                return j
        j += 1
    raise ValueError("unterminated bracket")


def split_top(s, sep=","):
    parts, depth, cur, instr = [], 0, [], False
    for c in s:
        if instr:
            cur.append(c)
            if c == '"':
                instr = False
            continue
        if c == '"':
            instr = True
        if c in "({[":
            depth += 1
        elif c in ")}]":
            depth -= 1
        if c == sep and depth == 0:
            parts.append("".join(cur))
            cur = []
        else:
            cur.append(c)
    if "".join(cur).strip():
        parts.append("".join(cur))
    return [p.strip() for p in parts]


def canon(e):
    e = re.sub(r"\s+", " ", e).strip()
    if e in ("{}", ""):
        return ""
    m = re.match(r"^NoSet\(.*\)$", e)
    if m:
        return "NoSet"
    m = re.match(r"^std::bind\((.*)\)$", e)
    if m:
        a = split_top(m.group(1))
        fn = a[0].lstrip("&").strip()
        obj = a[1].lstrip("&").strip()
        return "%s(%s)" % (fn, ",".join([obj] + [x.replace(" ", "") for x in a[2:]]))
    m = re.match(r"^\[[^\]]*\]\s*\(\s*(?:u16\s*(\w*))?\s*\)\s*(?:->\s*u16\s*)?(\{.*\})$", e)
    if m:
        body = m.group(2)[1:-1].strip()
        if m.group(1):
            body = re.sub(r"\b%s\b" % re.escape(m.group(1)), "$v", body)
        body = re.sub(r"\s+", " ", body)
        body = re.sub(r"\s*([;(){},])\s*", r"\1", body)
        return "fn{%s}" % body
    raise ValueError("accessor expression not understood: %r" % e)


FIXED = {"fn{}": 1, "NoSet": 2, "fn{return 0;}": 3}


class Names:
    def __init__(self):
        self.by_id = {}

    def id(self, text):
        if text == "":
            return 0
        if text in FIXED:
            n = FIXED[text]
        else:
            n = int(hashlib.sha256(text.encode()).hexdigest()[:8], 16) | 0x10   # never 0..3
        if self.by_id.setdefault(n, text) != text:
            raise ValueError("hash collision between %r and %r" % (text, self.by_id[n]))
        return n


def parse_slot(item, names):
    m = re.match(r"^BitFieldSlot::RefSlot\((.*)\)$", item, re.S)
    if m:
        a = split_top(m.group(1))
        if len(a) != 3:
            raise ValueError("RefSlot with %d arguments" % len(a))
        v = names.id("ref:" + a[2].replace(" ", ""))
        return (int(a[0], 0), int(a[1], 0), v, v)
    m = re.match(r"^BitFieldSlot\s*\{(.*)\}$", item, re.S)
    if m:
        a = split_top(m.group(1))
        if len(a) != 4:
            raise ValueError("BitFieldSlot with %d members: %r" % (len(a), item[:80]))
        return (int(a[0], 0), int(a[1], 0), names.id(canon(a[2])), names.id(canon(a[3])))
    raise ValueError("slot not understood: %r" % item[:80])


def parse_rhs_whole(rhs, names):
    rhs = rhs.strip()
    m = re.match(r"^Cell::ConstCell\((.*)\)$", rhs, re.S)
    if m:
        return ("const", int(m.group(1).strip(), 0))
    m = re.match(r"^Cell::RefCell\((.*)\)$", rhs, re.S)
    if m:
        return ("ref", names.id("ref:" + m.group(1).replace(" ", "")))
    if re.match(r"^Cell\(\s*\)$", rhs):
        return ("fresh",)
    m = re.match(r"^Cell::BitFieldCell\(\s*\{(.*)\}\s*\)$", rhs, re.S)
    if m:
        return ("bitfield", [parse_slot(x, names) for x in split_top(m.group(1))])
    raise ValueError("cell constructor not understood: %r" % rhs[:80])


def subst(text, env):
    for k, v in env.items():
        text = re.sub(r"\b%s\b" % re.escape(k), str(v), text)
    return text


def run_block(text, env, names, table, order, dups):
    i = 0
    n = len(text)
    while i < n:
        if text[i].isspace():
            i += 1
            continue
        if text.startswith("using ", i):
            i = text.index(";", i) + 1
            continue
        m = re.compile(r"for\s*\(").match(text, i)
        if m:
            close = match_close(text, m.end() - 1)
            head = text[m.end():close]
            h = re.match(r"^\s*[\w:]+(?:\s+\w+)*\s+(\w+)\s*=\s*(\w+)\s*;\s*(\w+)\s*<\s*(\w+)\s*;\s*\+\+(\w+)\s*$", head)
            if not h or not (h.group(1) == h.group(3) == h.group(5)):
                raise ValueError("for header not understood: %r" % head)
            j = close + 1
            while text[j].isspace():
                j += 1
            if text[j] != "{":
                raise ValueError("for without a block")
            end = match_close(text, j)
            for val in range(int(h.group(2), 0), int(h.group(4), 0)):
                e2 = dict(env)
                e2[h.group(1)] = val
                run_block(text[j + 1:end], e2, names, table, order, dups)
            i = end + 1
            continue
        # one statement up to the top-level ';'
        j = i
        depth = 0
        instr = False
        while j < n:
            c = text[j]
            if instr:
                if c == '"':
                    instr = False
            elif c == '"':
                instr = True
            elif c in "({[":
                depth += 1
            elif c in ")}]":
                depth -= 1
            elif c == ";" and depth == 0:
                break
            j += 1
        stmt = subst(text[i:j], env)
        i = j + 1
        m = re.match(r"^impl->cells\[([^\]]+)\]\s*(\.set|\.get)?\s*=\s*(.*)$", stmt.strip(), re.S)
        if not m:
            raise ValueError("statement not understood: %r" % stmt.strip()[:100])
        off = eval(m.group(1), {"__builtins__": {}}, {})     # noqa: S307 - arithmetic on literals only
        if not isinstance(off, int) or not 0 <= off < 0x800:
            raise ValueError("offset %r out of range" % (off,))
        half = m.group(2)
        if off not in table:
            order.append(off)
        if half is None:
            if off in table:
                dups.append(off)
            table[off] = parse_rhs_whole(m.group(3), names)
        else:
            cur = table.get(off)
            if cur is None:
                cur = ("halves", 0, 0)
            if cur[0] != "halves":
                dups.append(off)            # a half replaced on a cell that was assigned as a whole
                cur = ("halves", 0, 0)
            idx = 1 if half == ".set" else 2
            if cur[idx] != 0:
                dups.append(off)
            cur = list(cur)
            cur[idx] = names.id(canon(m.group(3)))
            table[off] = tuple(cur)


def translate(repo):
    src = strip_comments(open(os.path.join(repo, "src", "mmio.cpp")).read())
    m = re.search(r"MMIORegion::MMIORegion\s*\(", src)
    if not m:
        raise ValueError("constructor of MMIORegion not found")
    close = match_close(src, m.end() - 1)
    b = src.index("{", src.index("impl(new Impl)", close))
    e = match_close(src, b)
    names = Names()
    table, order, dups = {}, [], []
    run_block(src[b + 1:e], {}, names, table, order, dups)
    return table, names, dups


def lean_bind(b, names):
    def nm(i):
        return "%d /- %s -/" % (i, names.by_id[i].replace("-/", "- /")) if i else "0"
    if b[0] == "const":
        return ".const 0x%04X" % b[1]
    if b[0] == "ref":
        return ".ref (%s)" % nm(b[1])
    if b[0] == "fresh":
        return ".fresh"
    if b[0] == "halves":
        return ".halves (%s) (%s)" % (nm(b[1]), nm(b[2]))
    slots = ",\n      ".join("⟨%d, %d, %s, %s⟩" % (p, l, nm(s), nm(g)) for (p, l, s, g) in b[1])
    return ".bitfield [\n      %s]" % slots


def render(table, names, dups, ns):
    out = ["import TeakraModel.MmioBindTypes",
           "/-! GENERATED by tools/translate_mmio.py from src/mmio.cpp (constructor of `MMIORegion`, loops unrolled). Do not edit. -/",
           "namespace Teakra.%s" % ns, "open Teakra", "",
           "def mmioBind : List (Nat × MBind) := ["]
    rows = []
    for off in sorted(table):
        rows.append("  (0x%03X, %s)" % (off, lean_bind(table[off], names)))
    out.append(",\n".join(rows) + "]")
    out += ["", "/-- offsets the constructor assigns more than once (the last assignment wins in the C++) -/",
            "def mmioDups : List Nat := [%s]" % ", ".join("0x%03X" % d for d in dups), "",
            "end Teakra.%s" % ns, ""]
    return "\n".join(out)


def main():
    import argparse
    ap = argparse.ArgumentParser()
    ap.add_argument("--repo", default=os.environ.get("VERIF_REPO", "/repo"))
    ap.add_argument("--golden", action="store_true")
    a = ap.parse_args()
    st = generate(a.repo, a.golden)
    print(st)


def generate(repo=None, golden=False):
    repo = repo or os.environ.get("VERIF_REPO", "/repo")
    table, names, dups = translate(repo)
    ns = "Golden" if golden else "Generated"
    text = render(table, names, dups, ns)
    path = os.path.join(ROOT, "lean", "TeakraModel", ns, "MmioBind.lean")
    old = open(path).read() if os.path.exists(path) else None
    if old != text:
        with open(path + ".tmp%d" % os.getpid(), "w") as f:
            f.write(text)
        os.replace(path + ".tmp%d" % os.getpid(), path)
    nslots = sum(len(b[1]) for b in table.values() if b[0] == "bitfield")
    return {"mmio_cells_bound": len(table), "bitfield_slots": nslots, "accessor_texts": len(names.by_id),
            "assigned_twice": len(dups), "table_changed": old != text}


if __name__ == "__main__":
    main()
