#!/usr/bin/env python3
"""Print the markdown table of seeded changes (DESIGN.md) from seeded/*/meta.json."""
import glob, json, os
ROOT = os.path.dirname(os.path.dirname(os.path.abspath(__file__)))
print("| seed | property | change | needs to manifest | caught by (quick tier) |")
print("|---|---|---|---|---|")
for d in sorted(glob.glob(os.path.join(ROOT, "seeded", "*"))):
    m = json.load(open(os.path.join(d, "meta.json")))
    cb = m.get("caught_by") or []
    print("| %s | %s | %s | %s | %s |" % (os.path.basename(d), m["property"], m["summary"][:150].replace("|", "/"),
                                         m["needs"][:150].replace("|", "/"), ", ".join(cb) if cb else ("**missed**" + (" (no longer observable, see meta)" if m.get("note_after_fix") else ""))))
