#!/usr/bin/env python3
"""Re-run the quick check of one property against a recorded seeded change and update its meta.json.

  recheck_seed.py <seed id> <property> [scratch worktree]
"""
import json, os, subprocess, sys
ROOT = os.path.dirname(os.path.dirname(os.path.abspath(__file__)))


def main():
    sid, prop = sys.argv[1], sys.argv[2]
    wt = sys.argv[3] if len(sys.argv) > 3 else "/tmp/wt-mine"
    d = os.path.join(ROOT, "seeded", sid)
    subprocess.check_call("git checkout -q -- .", shell=True, cwd=wt)
    subprocess.check_call(["git", "apply", os.path.join(d, "patch.diff")], cwd=wt)
    try:
        pr = subprocess.run([sys.executable, os.path.join(ROOT, "check.py"), prop, "--tier", "quick"], cwd=ROOT,
                            env=dict(os.environ, VERIF_REPO=wt), stdout=subprocess.PIPE, stderr=subprocess.STDOUT, text=True)
    finally:
        subprocess.call("git checkout -q -- .", shell=True, cwd=wt)
        subprocess.call("git checkout -q -- lean/TeakraModel/Generated harness/recvis.gen.h 2>/dev/null", shell=True, cwd=ROOT)
    lines = [l for l in pr.stdout.split("\n") if l.startswith("VIOLATION") or l.startswith("  ")]
    meta = json.load(open(os.path.join(d, "meta.json")))
    meta.setdefault("confirmation", {}).setdefault("checks", {})[prop] = {"exit": pr.returncode, "lines": lines[:6]}
    meta["caught_by"] = [p for p, r in meta["confirmation"]["checks"].items() if r["exit"] == 1]
    meta["caught_by"].sort(key=lambda p: (p != meta["property"], p))
    json.dump(meta, open(os.path.join(d, "meta.json"), "w"), indent=1)
    print(sid, prop, "exit", pr.returncode, lines[1][:160] if len(lines) > 1 else "")


if __name__ == "__main__":
    main()
