#!/usr/bin/env python3
"""Translator for include/teakra/impl/register.h (property C20, shadow lists for C08).

Reads, from the tree under test (never from a cached copy):

* every namespace-level `using X = PseudoRegister<ProxySlot<Proxy, pos, len>, ...>;`, the
  `template<unsigned index> using ar/arp = PseudoRegister<...>` forms and their instantiations
  `using ar0 = ar<0>;` ...
* the `ShadowRegisterList<...> shadow_registers;` and `ShadowSwapRegisterList<...>
  shadow_swap_registers;` member lists, the `std::swap(self->f[expr], member)` field lists of the
  `ShadowSwapAr` / `ShadowSwapArp` class templates and their instantiations;
* the data members of `struct RegisterState` (name, element type, array size);
* from src/test_generator.cpp: the three index expressions with which `Config::GenerateRandomState`
  derives the address registers selected by the `ar`/`arp` words, and the two `mod2` bit tests.

Writes  lean/TeakraModel/Generated/RegLayout.lean  (namespace Teakra.Regs) and
.build/gen/reg_layout.json.  With --golden it also rewrites the committed snapshot
lean/TeakraModel/Golden/RegLayout.lean (namespace Teakra.Regs.Golden).

Anything that is not recognised raises TranslateError: the translator never guesses.
"""
import json
import os
import re
import sys

HERE = os.path.dirname(os.path.abspath(__file__))
ROOT = os.path.dirname(HERE)


class TranslateError(Exception):
    pass


def fail(msg):
    raise TranslateError(msg)


# ----------------------------------------------------------------------------- lexical helpers

def strip_comments(src):
    out = []
    i, n = 0, len(src)
    while i < n:
        if src.startswith("//", i):
            while i < n and src[i] != "\n":
                i += 1
        elif src.startswith("/*", i):
            j = src.find("*/", i + 2)
            if j < 0:
                fail("unterminated block comment")
            out.append(" ")
            i = j + 2
        elif src[i] == '"':
            j = i + 1
            while j < n and src[j] != '"':
                j += 2 if src[j] == "\\" else 1
            out.append(src[i:j + 1])
            i = j + 1
        else:
            out.append(src[i])
            i += 1
    return "".join(out)


def match_close(s, i, op, cl):
    """s[i] == op; index of the matching cl."""
    assert s[i] == op
    d = 0
    for j in range(i, len(s)):
        if s[j] == op:
            d += 1
        elif s[j] == cl:
            d -= 1
            if d == 0:
                return j
    fail("unbalanced %s%s near %r" % (op, cl, s[i:i + 60]))


def split_top(s):
    """Split at commas that are outside <>, (), [] and {}."""
    parts, d, cur = [], 0, []
    for ch in s:
        if ch in "<([{":
            d += 1
        elif ch in ">)]}":
            d -= 1
            if d < 0:
                fail("unbalanced brackets in %r" % s[:80])
        if ch == "," and d == 0:
            parts.append("".join(cur))
            cur = []
        else:
            cur.append(ch)
    if d != 0:
        fail("unbalanced brackets in %r" % s[:80])
    parts.append("".join(cur))
    return [p.strip() for p in parts]


def template_args(s, head):
    """`head< a, b, c >` -> [a, b, c] (exactly that shape, nothing after the closing '>')."""
    s = s.strip()
    m = re.match(r"%s\s*<" % re.escape(head), s)
    if not m:
        fail("expected %s<...>, got %r" % (head, s[:80]))
    i = m.end() - 1
    j = match_close(s, i, "<", ">")
    if s[j + 1:].strip():
        fail("trailing text after %s<...>: %r" % (head, s[j + 1:][:60]))
    return split_top(s[i + 1:j])


# ----------------------------------------------------------------------------- tiny C integer expressions

TOK = re.compile(r"\s*(?:(\d+|0[xX][0-9a-fA-F]+)|([A-Za-z_][\w.]*(?:\[)?)|(>>|<<|[-+*/%&|^()\]]))")

PREC = {"|": 1, "^": 2, "&": 3, "<<": 4, ">>": 4, "+": 5, "-": 5, "*": 6, "/": 6, "%": 6}


def parse_cexpr(text, leaves):
    """Parse a C integer expression into a tree.  `leaves` is the set of identifiers allowed;
    an identifier ending in '[' is an array access `name[expr]` (name must be in leaves).
    Tree: ('num', n) | ('var', name) | ('idx', name, tree) | (op, l, r)."""
    toks = []
    i = 0
    text = text.strip()
    while i < len(text):
        m = TOK.match(text, i)
        if not m:
            fail("cannot tokenise expression %r at %r" % (text, text[i:i + 20]))
        if m.group(1) is not None:
            toks.append(("num", int(m.group(1), 0)))
        elif m.group(2) is not None:
            toks.append(("id", m.group(2)))
        else:
            toks.append(("op", m.group(3)))
        i = m.end()
    pos = [0]

    def peek():
        return toks[pos[0]] if pos[0] < len(toks) else (None, None)

    def take():
        t = peek()
        pos[0] += 1
        return t

    def atom():
        k, v = take()
        if k == "num":
            return ("num", v)
        if k == "id":
            if v.endswith("["):
                name = v[:-1]
                if name not in leaves:
                    fail("unknown array %r in expression %r" % (name, text))
                e = expr(0)
                if take() != ("op", "]"):
                    fail("missing ] in %r" % text)
                return ("idx", name, e)
            if v not in leaves:
                fail("unknown identifier %r in expression %r" % (v, text))
            return ("var", v)
        if (k, v) == ("op", "("):
            e = expr(0)
            if take() != ("op", ")"):
                fail("missing ) in %r" % text)
            return e
        fail("unexpected token %r in expression %r" % (v, text))

    def expr(minp):
        l = atom()
        while True:
            k, v = peek()
            if k == "op" and v in PREC and PREC[v] >= minp:
                take()
                r = expr(PREC[v] + 1)
                l = (v, l, r)
            else:
                return l
    e = expr(0)
    if pos[0] != len(toks):
        fail("trailing tokens in expression %r" % text)
    return e


def eval_cexpr(t, env):
    k = t[0]
    if k == "num":
        return t[1]
    if k == "var":
        return env[t[1]]
    if k == "idx":
        fail("array access in a constant expression")
    a, b = eval_cexpr(t[1], env), eval_cexpr(t[2], env)
    if k in "/%" and b == 0:
        fail("division by zero in constant expression")
    r = {"+": a + b, "-": a - b, "*": a * b, "/": a // b if b else 0, "%": a % b if b else 0,
         "&": a & b, "|": a | b, "^": a ^ b, "<<": a << b, ">>": a >> b}[k]
    if r < 0:
        fail("negative constant expression")
    return r


def const_expr(text, env=None):
    env = env or {}
    return eval_cexpr(parse_cexpr(text, set(env)), env)


LEAN_OP = {"+": "+", "-": "-", "*": "*", "/": "/", "%": "%", "&": "&&&", "|": "|||", "^": "^^^",
           "<<": "<<<", ">>": ">>>"}


def lean_cexpr(t, arrays):
    """Tree -> Lean `Nat` term.  Array accesses become applications of the function parameter."""
    k = t[0]
    if k == "num":
        return str(t[1])
    if k == "var":
        return t[1]
    if k == "idx":
        return "(%s (%s))" % (arrays[t[1]], lean_cexpr(t[2], arrays))
    return "(%s %s %s)" % (lean_cexpr(t[1], arrays), LEAN_OP[k], lean_cexpr(t[2], arrays))


# ----------------------------------------------------------------------------- register.h

MEMBER = r"&\s*RegisterState\s*::\s*(\w+)"


def member(text):
    m = re.fullmatch(MEMBER, text.strip())
    if not m:
        fail("expected &RegisterState::<field>, got %r" % text)
    return m.group(1)


def parse_proxy(text, env):
    """-> dict(kind, field, index, field2)"""
    t = text.strip()
    if t == "LPRedirector":
        return dict(kind="lp", field="lp", index=0, field2="bcn")
    m = re.match(r"(\w+)\s*<", t)
    if not m:
        fail("unrecognised proxy %r" % t)
    head = m.group(1)
    args = template_args(t, head)
    if head in ("Redirector", "RORedirector"):
        if len(args) != 1:
            fail("%s takes one argument: %r" % (head, t))
        return dict(kind="rw" if head == "Redirector" else "ro", field=member(args[0]), index=0, field2="")
    if head in ("ArrayRedirector", "ArrayRORedirector"):
        if len(args) != 3:
            fail("%s takes three arguments: %r" % (head, t))
        size = const_expr(args[0], env)
        idx = const_expr(args[2], env)
        if idx >= size:
            fail("array index %d out of range %d in %r" % (idx, size, t))
        return dict(kind="rw" if head == "ArrayRedirector" else "ro", field=member(args[1]), index=idx,
                    field2="", size=size)
    if head == "DoubleRedirector":
        if len(args) != 2:
            fail("DoubleRedirector takes two arguments: %r" % t)
        return dict(kind="double", field=member(args[0]), index=0, field2=member(args[1]))
    if head == "AccEProxy":
        if len(args) != 1:
            fail("AccEProxy takes one argument: %r" % t)
        return dict(kind="accE", field="a", index=const_expr(args[0], env), field2="")
    fail("unrecognised proxy template %r" % head)


def parse_pseudo(text, env):
    slots = []
    for a in template_args(text, "PseudoRegister"):
        ps = template_args(a, "ProxySlot")
        if len(ps) != 3:
            fail("ProxySlot takes <Proxy, position, length>: %r" % a)
        sl = parse_proxy(ps[0], env)
        sl["pos"] = const_expr(ps[1], env)
        sl["len"] = const_expr(ps[2], env)
        slots.append(sl)
    if not slots:
        fail("PseudoRegister with no slots")
    return slots


def parse_layouts(src):
    """Everything after the definition of `struct PseudoRegister` must be namespace-level `using`
    declarations of the recognised forms."""
    m = re.search(r"template\s*<\s*typename\s*\.\.\.\s*ProxySlots\s*>\s*struct\s+PseudoRegister\s*\{", src)
    if not m:
        fail("definition of struct PseudoRegister not found")
    end = match_close(src, m.end() - 1, "{", "}")
    rest = src[end + 1:].lstrip()
    if not rest.startswith(";"):
        fail("expected ';' after struct PseudoRegister")
    rest = rest[1:]
    # the tail must be: (using-declaration)* '}' (end of namespace)
    tail = rest.rstrip()
    if not tail.endswith("}"):
        fail("expected the namespace to close at the end of register.h")
    body = tail[:-1]
    stmts = [s.strip() for s in body.split(";")]
    if stmts and stmts[-1] == "":
        stmts.pop()
    templates = {}
    layouts = []
    for st in stmts:
        m = re.fullmatch(r"(?:template\s*<\s*unsigned\s+(\w+)\s*>\s*)?using\s+(\w+)\s*=\s*(.*)", st, re.S)
        if not m:
            fail("unrecognised declaration after PseudoRegister: %r" % st[:120])
        param, name, rhs = m.group(1), m.group(2), m.group(3).strip()
        if param:
            if not rhs.startswith("PseudoRegister"):
                fail("template alias %s is not a PseudoRegister" % name)
            parse_pseudo(rhs, {param: 0})  # syntax check now, not only at instantiation
            templates[name] = (param, rhs)
            continue
        if rhs.startswith("PseudoRegister"):
            layouts.append((name, parse_pseudo(rhs, {})))
            continue
        mi = re.fullmatch(r"(\w+)\s*<\s*([^<>]+)\s*>", rhs)
        if mi and mi.group(1) in templates:
            param, trhs = templates[mi.group(1)]
            layouts.append((name, parse_pseudo(trhs, {param: const_expr(mi.group(2))})))
            continue
        fail("unrecognised right-hand side of `using %s`: %r" % (name, rhs[:120]))
    names = [n for n, _ in layouts]
    if len(set(names)) != len(names):
        fail("duplicate pseudo-register name")
    for name, slots in layouts:
        for sl in slots:
            if not (sl["len"] < 16 and sl["pos"] + sl["len"] <= 16):
                fail("%s: slot violates the header's own static_assert (pos %d len %d)" % (name, sl["pos"], sl["len"]))
    return layouts


def parse_shadow_lists(src):
    def grab(listname, var, scalar, array):
        m = re.search(r"\b%s\s*<" % listname, src)
        out = []
        # the class template itself is `class ShadowRegisterList : ...`; the member is `ShadowRegisterList< ... > var;`
        hits = [mm for mm in re.finditer(r"\b%s\s*<" % listname, src)]
        found = None
        for mm in hits:
            j = match_close(src, mm.end() - 1, "<", ">")
            after = src[j + 1:].lstrip()
            mv = re.match(r"(\w+)\s*;", after)
            if mv and mv.group(1) == var:
                found = src[mm.end():j]
        if found is None:
            fail("member `%s<...> %s;` not found" % (listname, var))
        for e in split_top(found):
            mh = re.match(r"(\w+)\s*<", e)
            if not mh:
                fail("unrecognised entry in %s: %r" % (var, e))
            args = template_args(e, mh.group(1))
            if mh.group(1) == scalar and len(args) == 1:
                out.append((member(args[0]), 0))
            elif mh.group(1) == array and len(args) == 2:
                out.append((member(args[1]), const_expr(args[0])))
            else:
                fail("unrecognised entry in %s: %r" % (var, e))
        return out
    sr = grab("ShadowRegisterList", "shadow_registers", "ShadowRegister", "ShadowArrayRegister")
    ssr = grab("ShadowSwapRegisterList", "shadow_swap_registers", "ShadowSwapRegister", "ShadowSwapArrayRegister")
    return sr, ssr


def parse_shadow_swap_ar(src):
    """class templates ShadowSwapAr / ShadowSwapArp and their instantiations."""
    out = []
    for cls in ("ShadowSwapAr", "ShadowSwapArp"):
        m = re.search(r"template\s*<\s*unsigned\s+(\w+)\s*>\s*class\s+%s\s*\{" % cls, src)
        if not m:
            fail("class template %s not found" % cls)
        param = m.group(1)
        end = match_close(src, m.end() - 1, "{", "}")
        body = src[m.end():end]
        ms = re.search(r"void\s+Swap\s*\(\s*RegisterState\s*\*\s*self\s*\)\s*\{", body)
        if not ms:
            fail("%s::Swap not found" % cls)
        e2 = match_close(body, ms.end() - 1, "{", "}")
        swaps = []
        for st in body[ms.end():e2].split(";"):
            st = st.strip()
            if not st:
                continue
            mm = re.fullmatch(r"std::swap\s*\(\s*self\s*->\s*(\w+)\s*\[(.*)\]\s*,\s*(\w+)\s*\)", st, re.S)
            if not mm:
                fail("unrecognised statement in %s::Swap: %r" % (cls, st))
            swaps.append((mm.group(1), parse_cexpr(mm.group(2), {param}), mm.group(3)))
        if not swaps:
            fail("%s::Swap swaps nothing" % cls)
        insts = re.findall(r"\b%s\s*<\s*(\d+)\s*>\s*(\w+)\s*;" % cls, src)
        if not insts:
            fail("no instantiation of %s" % cls)
        for n, var in insts:
            out.append((var, [(f, eval_cexpr(t, {param: int(n)})) for f, t, _ in swaps]))
    return out


def parse_state_fields(src):
    """Data members of struct RegisterState, in declaration order: (name, type, count)."""
    m = re.search(r"struct\s+RegisterState\s*\{", src)
    if not m:
        fail("struct RegisterState not found")
    end = match_close(src, m.end() - 1, "{", "}")
    body = src[m.end():end]
    # Remove member functions, nested classes/structs and templates; keep plain data members.
    out = []
    i, n = 0, len(body)
    stmt = []
    fields = []
    nested = {}

    def flush(text):
        t = " ".join(text.split())
        if not t:
            return
        if t in ("public:", "private:"):
            return
        mm = re.match(r"(std::array\s*<\s*(\w+)\s*,\s*(\d+)\s*>|u16|u32|u64|bool)\s+(.*)", t)
        if mm:
            if mm.group(2):
                ty, cnt = mm.group(2), int(mm.group(3))
            else:
                ty, cnt = mm.group(1), 0
            for d in split_top(mm.group(4)):
                md = re.fullmatch(r"(\w+)\s*(=\s*[^,]+|\{.*\})?", d, re.S)
                if not md:
                    fail("unrecognised declarator %r in RegisterState" % d)
                fields.append((md.group(1), ty, cnt))
            return
        mm = re.fullmatch(r"(Shadow\w+)\s*<.*>\s*(\w+)", t, re.S)
        if mm:
            return  # shadow holders: handled by parse_shadow_*
        fail("unrecognised member declaration in RegisterState: %r" % t[:120])

    while i < n:
        ch = body[i]
        if ch == "{":
            j = match_close(body, i, "{", "}")
            head = "".join(stmt).strip()
            hs = " ".join(head.split())
            if re.search(r"\)\s*(const)?$", hs):          # member function body
                stmt = []
                i = j + 1
                continue
            ms = re.search(r"(?:^|\s)(struct|class)\s+(\w+)[^;{]*$", hs)
            if ms:                                       # nested type (possibly a template)
                if not hs.startswith("template"):
                    nested[ms.group(2)] = body[i + 1:j]
                k = j + 1
                while k < n and body[k].isspace():
                    k += 1
                if k >= n or body[k] != ";":
                    fail("expected ';' after nested type %s" % ms.group(2))
                stmt = []
                i = k + 1
                continue
            stmt.append(body[i:j + 1])                   # brace initialiser
            i = j + 1
            continue
        if ch == ";":
            flush("".join(stmt))
            stmt = []
            i += 1
            continue
        stmt.append(ch)
        i += 1
    if "".join(stmt).strip():
        fail("trailing text in RegisterState: %r" % "".join(stmt).strip()[:80])
    return fields, nested


# ----------------------------------------------------------------------------- test_generator.cpp

def parse_generator(src):
    """The index expressions of `rp[...] = RegConfig::Memory;` in the ar / arp loops of
    Config::GenerateRandomState, and the two mod2 bit tests."""
    m = re.search(r"State\s+GenerateRandomState\s*\(\s*\)\s*\{", src)
    if not m:
        fail("Config::GenerateRandomState not found in test_generator.cpp")
    end = match_close(src, m.end() - 1, "{", "}")
    body = src[m.end():end]

    def loop(arr):
        ml = re.search(r"for\s*\(\s*std::size_t\s+i\s*=\s*0\s*;\s*i\s*<\s*%s\.size\(\)\s*;\s*\+\+i\s*\)\s*\{" % arr, body)
        if not ml:
            fail("loop over %s not found in GenerateRandomState" % arr)
        e = match_close(body, ml.end() - 1, "{", "}")
        inner = body[ml.end():e]
        mi = re.fullmatch(r"\s*if\s*\(\s*%s\s*\[\s*i\s*\]\s*==\s*RegConfig::Memory\s*\)\s*\{(.*)\}\s*" % arr, inner, re.S)
        if not mi:
            fail("unrecognised body of the loop over %s: %r" % (arr, inner[:120]))
        exprs = []
        for st in mi.group(1).split(";"):
            st = st.strip()
            if not st:
                continue
            ms = re.fullmatch(r"rp\s*\[(.*)\]\s*=\s*RegConfig::Memory", st, re.S)
            if not ms:
                fail("unrecognised statement in the loop over %s: %r" % (arr, st))
            exprs.append(" ".join(ms.group(1).split()))
        return exprs
    ar = loop("ar")
    arp = loop("arp")
    if len(ar) != 1 or len(arp) != 2:
        fail("expected 1 register selection for ar and 2 for arp, found %d and %d" % (len(ar), len(arp)))
    mb = re.search(r"if\s*\(\s*!\s*\((.*?)\)\s*&&\s*\(\((.*?)\)\)\s*\)\s*\{\s*state\.r\[i\]\s*=\s*BitReverse", body, re.S)
    if not mb:
        fail("mod2 modulo/bit-reverse test not found in GenerateRandomState")
    leaves = {"i", "state.ar", "state.arp", "state.mod2"}
    res = {"arRn": ar[0], "arpRnA": arp[0], "arpRnB": arp[1],
           "mod2M": " ".join(mb.group(1).split()), "mod2Br": " ".join(mb.group(2).split())}
    trees = {k: parse_cexpr(v, leaves) for k, v in res.items()}
    return res, trees


# ----------------------------------------------------------------------------- output

def lstr(s):
    if not re.fullmatch(r"[\w.\[\]]*", s):
        fail("identifier %r cannot be emitted" % s)
    return '"%s"' % s


def emit_lean(ns, data, origin):
    L = []
    w = L.append
    w("import TeakraModel.RegLayoutTypes")
    w("/-!")
    w("# Pseudo-register bit layouts, shadow lists and `RegisterState` members")
    w("")
    w("GENERATED by `tools/translate_regs.py` from %s — do not edit." % origin)
    w("-/")
    w("namespace %s" % ns)
    w("")
    w("/-- `using X = PseudoRegister<ProxySlot<…>, …>` of register.h, in header order. -/")
    w("def layouts : List (String × List Slot) := [")
    for wi, (name, slots) in enumerate(data["layouts"]):
        w("  (%s, [" % lstr(name))
        for si, sl in enumerate(slots):
            w("    ⟨.%s, %s, %d, %s, %d, %d⟩%s" % (sl["kind"], lstr(sl["field"]), sl["index"], lstr(sl["field2"]),
                                                 sl["pos"], sl["len"], "," if si + 1 < len(slots) else ""))
        w("  ])%s" % ("," if wi + 1 < len(data["layouts"]) else ""))
    w("]")
    w("")
    w("/-- `ShadowRegisterList<…> shadow_registers` (all scalar). -/")
    if any(c for _, c in data["shadow_registers"]):
        w("def shadowRegistersSized : List (String × Nat) := [%s]" %
          ", ".join("(%s, %d)" % (lstr(f), c) for f, c in data["shadow_registers"]))
    w("def shadowRegisters : List String := [%s]" % ", ".join(lstr(f) for f, _ in data["shadow_registers"]))
    w("")
    w("/-- `ShadowSwapRegisterList<…> shadow_swap_registers`: (field, array size or 0). -/")
    w("def shadowSwapRegisters : List (String × Nat) := [%s]" %
      ", ".join("(%s, %d)" % (lstr(f), c) for f, c in data["shadow_swap_registers"]))
    w("")
    w("/-- Instantiations of `ShadowSwapAr<i>` / `ShadowSwapArp<i>`: member name and the (field, index)")
    w("pairs its `Swap` exchanges, in statement order. -/")
    w("def shadowSwapArArp : List (String × List (String × Nat)) := [")
    ssa = data["shadow_swap_ar_arp"]
    for i, (var, sw) in enumerate(ssa):
        w("  (%s, [%s])%s" % (lstr(var), ", ".join("(%s, %d)" % (lstr(f), k) for f, k in sw),
                             "," if i + 1 < len(ssa) else ""))
    w("]")
    w("")
    w("/-- Data members of `struct RegisterState` in declaration order: (name, element type, array size or 0).")
    w("`bkrep_stack` is `std::array<BlockRepeatFrame, 4>`; its frame members follow as `BlockRepeatFrame.x`. -/")
    w("def stateFields : List (String × String × Nat) := [")
    sf = data["state_fields"]
    for i in range(0, len(sf), 4):
        chunk = sf[i:i + 4]
        w("  " + ", ".join("(%s, %s, %d)" % (lstr(n), lstr(t), c) for n, t, c in chunk) +
          ("," if i + 4 < len(sf) else ""))
    w("]")
    w("")
    w("/-! ## The test generator's decoding of `ar`/`arp`/`mod2` words")
    w("")
    w("Translated from `Config::GenerateRandomState` of src/test_generator.cpp (C `int` arithmetic on values")
    w("below 2^16, here on `Nat`):")
    for k in ("arRn", "arpRnA", "arpRnB", "mod2M", "mod2Br"):
        w("* `%s`: `%s`" % (k, data["generator_src"][k]))
    w("-/")
    w("namespace GenSrc")
    arrays = {"state.ar": "ar", "state.arp": "arp"}
    w("/-- index of the address register selected by `ArRn` operand value `i` (0..3) -/")
    w("def arRn (ar : Nat → Nat) (i : Nat) : Nat := %s" % lean_cexpr(data["generator_tree"]["arRn"], arrays))
    w("/-- first register marked for `ArpRn` operand value `i` -/")
    w("def arpRnA (arp : Nat → Nat) (i : Nat) : Nat := %s" % lean_cexpr(data["generator_tree"]["arpRnA"], arrays))
    w("/-- second register marked for `ArpRn` operand value `i` -/")
    w("def arpRnB (arp : Nat → Nat) (i : Nat) : Nat := %s" % lean_cexpr(data["generator_tree"]["arpRnB"], arrays))

    def m2(t):
        def sub(t):
            if t[0] == "var" and t[1] == "state.mod2":
                return ("var", "mod2")
            if t[0] in ("num", "var"):
                return t
            if t[0] == "idx":
                return ("idx", t[1], sub(t[2]))
            return (t[0], sub(t[1]), sub(t[2]))
        return lean_cexpr(sub(t), arrays)
    w("/-- the generator's reading of `m[i]` from a `mod2` word -/")
    w("def mod2M (mod2 : Nat) (i : Nat) : Nat := %s" % m2(data["generator_tree"]["mod2M"]))
    w("/-- the generator's reading of `br[i]` from a `mod2` word -/")
    w("def mod2Br (mod2 : Nat) (i : Nat) : Nat := %s" % m2(data["generator_tree"]["mod2Br"]))
    w("end GenSrc")
    w("")
    w("end %s" % ns)
    return "\n".join(L) + "\n"


def translate(repo):
    hdr = os.path.join(repo, "include", "teakra", "impl", "register.h")
    gen = os.path.join(repo, "src", "test_generator.cpp")
    src = strip_comments(open(hdr).read())
    layouts = parse_layouts(src)
    sr, ssr = parse_shadow_lists(src)
    ssa = parse_shadow_swap_ar(src)
    fields, nested = parse_state_fields(src)
    flat = []
    for name, ty, cnt in fields:
        flat.append((name, ty, cnt))
        if ty in nested:
            sub_fields, _ = parse_state_fields("struct RegisterState {" + nested[ty] + "}")
            for n2, t2, c2 in sub_fields:
                flat.append(("%s.%s" % (ty, n2), t2, c2))
        elif ty not in ("u16", "u32", "u64", "bool"):
            fail("member %s has unknown type %s" % (name, ty))
    known = {n: (t, c) for n, t, c in flat}
    # every field a slot or shadow list names must be a u16 member of the right shape
    for name, slots in layouts:
        for sl in slots:
            if sl["kind"] == "accE":
                if known.get("a") != ("u64", 2) or sl["index"] >= 2:
                    fail("%s: AccEProxy<%d> does not name an element of std::array<u64, 2> a" % (name, sl["index"]))
                continue
            for f in [sl["field"]] + ([sl["field2"]] if sl["field2"] else []):
                if f not in known or known[f][0] != "u16":
                    fail("%s: slot names %s which is not a u16 member of RegisterState" % (name, f))
            t, c = known[sl["field"]]
            if "size" in sl:
                if c != sl["size"]:
                    fail("%s: %s declared with %d elements, slot says %d" % (name, sl["field"], c, sl["size"]))
            elif c != 0:
                fail("%s: scalar redirector on array member %s" % (name, sl["field"]))
    for f, c in sr + ssr:
        if f not in known or known[f] != ("u16", c):
            fail("shadow list names %s[%d] which does not match RegisterState" % (f, c))
    for var, sw in ssa:
        for f, k in sw:
            if f not in known or known[f][0] != "u16" or k >= known[f][1]:
                fail("%s swaps %s[%d] which does not exist" % (var, f, k))
    gsrc, gtree = parse_generator(strip_comments(open(gen).read()))
    data = {
        "layouts": [(n, [{k: v for k, v in sl.items() if k != "size"} for sl in slots]) for n, slots in layouts],
        "shadow_registers": sr, "shadow_swap_registers": ssr, "shadow_swap_ar_arp": ssa,
        "state_fields": flat, "generator_src": gsrc, "generator_tree": gtree,
    }
    return data


def write_if_changed(path, text):
    os.makedirs(os.path.dirname(path), exist_ok=True)
    if os.path.exists(path) and open(path).read() == text:
        return False
    with open(path + ".tmp", "w") as f:
        f.write(text)
    os.replace(path + ".tmp", path)
    return True


def run(repo, golden=False):
    data = translate(repo)
    origin = "include/teakra/impl/register.h and src/test_generator.cpp"
    gen_path = os.path.join(ROOT, "lean", "TeakraModel", "Generated", "RegLayout.lean")
    changed = write_if_changed(gen_path, emit_lean("Teakra.Regs", data, origin))
    if golden:
        write_if_changed(os.path.join(ROOT, "lean", "TeakraModel", "Golden", "RegLayout.lean"),
                         emit_lean("Teakra.Regs.Golden", data, origin + " (committed snapshot of the pinned tree)"))
    js = {k: v for k, v in data.items() if k != "generator_tree"}
    jpath = os.path.join(ROOT, ".build", "gen", "reg_layout.json")
    write_if_changed(jpath, json.dumps(js, indent=1))
    gpath = os.path.join(ROOT, "lean", "TeakraModel", "Golden", "RegLayout.lean")
    same = None
    if os.path.exists(gpath):
        g = open(gpath).read().replace("namespace Teakra.Regs.Golden", "namespace Teakra.Regs") \
                              .replace("end Teakra.Regs.Golden", "end Teakra.Regs")
        cur = open(gen_path).read()
        strip = lambda t: "\n".join(l for l in t.split("\n") if not l.startswith("GENERATED"))
        same = strip(g) == strip(cur)
    return {"words": len(data["layouts"]), "slots": sum(len(s) for _, s in data["layouts"]),
            "shadow_registers": len(data["shadow_registers"]),
            "shadow_swap_registers": len(data["shadow_swap_registers"]),
            "shadow_swap_ar_arp": len(data["shadow_swap_ar_arp"]), "state_fields": len(data["state_fields"]),
            "generated": os.path.relpath(gen_path, ROOT), "json": os.path.relpath(jpath, ROOT),
            "changed_on_disk": changed, "equals_golden": same, "source": repo}


if __name__ == "__main__":
    args = [a for a in sys.argv[1:] if not a.startswith("--")]
    repo = args[0] if args else os.environ.get("VERIF_REPO", "/repo")
    try:
        print(json.dumps(run(repo, golden="--golden" in sys.argv), indent=1))
    except TranslateError as e:
        print("translate_regs: " + str(e), file=sys.stderr)
        sys.exit(2)
