#!/usr/bin/env python3
"""Rebuild MANIFEST.json from the table below (claimed checks + reasons for the rest)."""
import json, os, subprocess
ROOT = os.path.dirname(os.path.dirname(os.path.abspath(__file__)))

NOTE_COMMON = ("Trusted: Lean 4.33 kernel + the axioms printed by the audit (at most propext, Classical.choice, Quot.sound); "
               "the hand-written Lean model of the unit, which is tied to the C++ by differential testing (sampled, exhaustive in the "
               "small dimensions named in the evidence) and not proved equal to it; the harness, the comparison scripts and g++ 12.")

CLAIMS = {
 "C15": dict(
   text="Kernel-checked theorems over the Lean model of timer.cpp: per-mode tick behaviour, interrupt exactly on 1->0, Skip(k) = k Ticks with no interrupt for every k up to the reported horizon (all 32-bit counters/starts, all four modes, pause/mirror bits), lifted by induction to arbitrary histories of mode/pause/start writes, restarts, ticks, events and skips. The model is tied to src/timer.cpp by a differential run of random histories on the real Timer class and the compiled model, which also evaluates Skip(k) vs k Ticks on the real code.",
   note=NOTE_COMMON + " The interrupt handler is a pure counter.",
   tech="Lean 4 theorems (induction over tick counts and operation histories) + model/implementation correspondence run", ref="§7 C15"),
 "C16": dict(
   text="Kernel-checked theorems over the Lean model of btdmp.cpp: flag invariant over all histories, exactly one frame per period made of the two oldest words (zeros for missing), empty interrupt iff a pop empties the queue, silent flush, a reference-FIFO conservation theorem (no loss/duplication/reordering) over arbitrary operation lists, Skip(k) = k Ticks (state, frames, interrupts) for every k up to the reported horizon under 1 <= period and timer < period, lifted to arbitrary histories. Tied to src/btdmp.cpp by exhaustive small-period scripts and random histories on the real class, incl. Skip vs Ticks evaluated on the real code.",
   note=NOTE_COMMON + " Excluded points (timer >= period after lowering the period through SetTransmitPeriod, which only the unit test calls; period 0; 64-bit wrap of timer+ticks) are proved as witnesses and reported in evidence.",
   tech="Lean 4 theorems (invariants and refinement to a reference FIFO by induction over histories) + correspondence run", ref="§7 C16"),
}

PENDING = "not claimed yet: model and theorems for this property are still being built (DESIGN.md §10 staging); no check is registered until it is green on the unchanged tree"


def main():
    hooks = subprocess.check_output(["git", "-C", "/repo", "log", "--format=%H %s"]).decode().strip().split("\n")
    hook_commits = [l.split()[0] for l in hooks if "verif hook" in l]
    claimed = sorted(CLAIMS)
    m = {
        "version": 1,
        "setup_cmd": "python3 check.py --setup",
        "hooks": {
            "guard": "TEAKRA_VERIF",
            "enable": "checks compile /repo/src/*.cpp and harness/*.cpp with g++ -std=c++17 -DTEAKRA_VERIF (tools/vlib.py harness_build); objects are cached per translation unit by content hash, so every run reflects /repo's working tree",
            "baseline_off_cmd": "python3 check.py --baseline-off",
            "source_commits": hook_commits,
            "add_only": True,
        },
        "engines": [
            {"name": "lean-model", "path": "lean/", "serves_properties": claimed,
             "kind_free_text": "Lean 4 executable model (TeakraModel), property theorems (Proofs/Cxx.lean), compiled line-protocol driver (Main.lean)"},
            {"name": "harness", "path": "harness/", "serves_properties": claimed,
             "kind_free_text": "C++ correspondence harness linking /repo's sources with the hook guard on; same line protocol as the model driver"},
        ],
        "checks": [],
        "notes": "See DESIGN.md. Every check: regenerate/translate, lake build of the property's proof module, axiom audit + forbidden-token scan, harness build from /repo's working tree, correspondence run (corpus first), evidence.",
        "not_applicable": [],
    }
    for pid in claimed:
        c = CLAIMS[pid]
        m["checks"].append({
            "property_id": pid, "quick_cmd": "python3 check.py %s --tier quick" % pid,
            "thorough_cmd": "python3 check.py %s --tier thorough" % pid,
            "evidence_file": "evidence/%s.json" % pid,
            "replay_cmd_template": "python3 check.py %s --replay {path}" % pid,
            "engine": "lean-model",
            "level_claimed": {"category": "proof", "text": c["text"], "design_ref": c["ref"]},
            "level_note": c["note"], "technique": c["tech"]})
    for i in range(1, 21):
        pid = "C%02d" % i
        if pid not in CLAIMS:
            m["not_applicable"].append({"property_id": pid, "reason": PENDING})
    json.dump(m, open(os.path.join(ROOT, "MANIFEST.json"), "w"), indent=1)
    print("claimed:", claimed)


if __name__ == "__main__":
    main()
