#!/usr/bin/env python3
"""Rebuild MANIFEST.json from the table below (claimed checks + reasons for the rest)."""
import json, os, subprocess
ROOT = os.path.dirname(os.path.dirname(os.path.abspath(__file__)))

NOTE_COMMON = ("Trusted: Lean 4.33 kernel + the axioms printed by the audit (at most propext, Classical.choice, Quot.sound); "
               "the hand-written Lean model of the unit, which is tied to the C++ by differential testing (sampled, exhaustive in the "
               "small dimensions named in the evidence) and not proved equal to it; the harness, the comparison scripts and g++ 12.")

CLAIMS = {
 "C15": dict(
   text="Kernel-checked theorems over the Lean model of timer.cpp: per-mode tick behaviour, interrupt exactly on 1->0, Skip(k) = k Ticks with no interrupt for every k up to the reported horizon (all 32-bit counters/starts, all four modes, pause/mirror bits), lifted by induction to arbitrary histories of mode/pause/start writes, restarts, ticks, events and skips. The model is tied to src/timer.cpp by a differential run of random histories on the real Timer class and the compiled model, which also evaluates Skip(k) vs k Ticks on the real code.",
   note=NOTE_COMMON + " The interrupt handler is a pure counter.",
   tech="Lean 4 theorems (induction over tick counts and operation histories) + model/implementation correspondence run", ref="§7 C15"),
 "C16": dict(
   text="Kernel-checked theorems over the Lean model of btdmp.cpp: flag invariant over all histories, exactly one frame per period made of the two oldest words (zeros for missing), empty interrupt iff a pop empties the queue, silent flush, a reference-FIFO conservation theorem (no loss/duplication/reordering) over arbitrary operation lists, Skip(k) = k Ticks (state, frames, interrupts) for every k up to the reported horizon under 1 <= period and timer < period, lifted to arbitrary histories. Tied to src/btdmp.cpp by exhaustive small-period scripts and random histories on the real class, incl. Skip vs Ticks evaluated on the real code.",
   note=NOTE_COMMON + " Excluded points (timer >= period after lowering the period through SetTransmitPeriod, which only the unit test calls; period 0; 64-bit wrap of timer+ticks) are proved as witnesses and reported in evidence.",
   tech="Lean 4 theorems (invariants and refinement to a reference FIFO by induction over histories) + correspondence run", ref="§7 C16"),
 "C14": dict(
   text="Kernel-checked refinement of the Lean model of apbp.cpp to an abstract mailbox/semaphore specification (every operation returns the spec's output and events and commutes with the abstraction; lifted over arbitrary operation lists and over the pair of instances the facade wires up), with the corollaries the property names: send sets ready and interrupts iff enabled, receive returns the last value and clears, peek is pure, semaphore bits accumulate/clear, signal flag = (sem & ~mask) != 0 after every history, interrupt on every rise and never while the flag stays zero, and the DSP-side status words 0x0D6/0x0D8 agree with the host API. Tied to src/apbp.cpp, src/mmio.cpp and the Teakra facade by random histories on a stand-alone Apbp and on a real Teakra instance (host API + MMIO 0x0C0-0x0D8 + ICU pending bit 14).",
   note=NOTE_COMMON + " Mutexes/concurrency are not part of this property's model (C19); handlers are counting callbacks. The upstream MaskSemaphore defect is kept as a proved counterexample (fixed in /repo, see known_findings.json).",
   tech="Lean 4 refinement proof (abstraction map + induction over histories) + correspondence run", ref="§7 C14"),
 "C02": dict(
   text="The decode table is regenerated from decoder.h/operand.h/matcher.h on every run and the theorems are re-checked over the regenerated table: at most one pattern matches any 16-bit word (kernel-checked pairwise cube-disjointness certificate + soundness lemma), operand masks / unused bits / fixed bits are pairwise disjoint, the mask is the complement of the operand union, expanded <-> an operand at position 16, unused bits change neither the match nor any extracted operand nor the decoded entry. The translated table is tied to the real template machinery exhaustively: all 65536 first words x several second words through Decode<RecordingVisitor> (handler, signature, raw operand values, expansion flag), Decode<Interpreter> uniqueness assertion and Disassembler::NeedExpansion. That the fetch loop consumes exactly the words the table says is covered by the instruction-level correspondence of C01 (pc after one step).",
   note=NOTE_COMMON + " Here the model table is produced by tools/translate_decode.py (fails loudly on unknown syntax); Decode<Disassembler>/Decode<TestGenerator> are file-local and reached only through their public APIs.",
   tech="translator-regenerated Lean table + kernel-checked certificate (decide +kernel) + exhaustive correspondence", ref="§7 C02"),
 "C03": dict(
   text="Kernel-checked theorems over the value-level helpers every add/sub/compare/logic handler funnels through (model of AddSub, SetAccFlag, SaturateAcc): the result is the exact integer sum/difference of the 40-bit operands wrapped to 40 bits, carry = carry/borrow out of bit 39, overflow = the exact result does not fit 40 bits signed, zero/minus/extension/normalized flags are exactly those of the 40-bit value, saturation replaces a value that does not fit 32 bits by the nearest bound exactly when the limit flag is set - for all 2^80 operand pairs. Tied to the C++ by direct calls of the real helpers on boundary-biased operands and by executing every opcode of the ALU families on the real interpreter against the transcribed handlers.",
   note=NOTE_COMMON + " Handler-level theorems (Proofs/C03Exec.lean, C03b.lean) cover add/sub/cmp between accumulators, the moda family (inc, dec, neg, rnd, clr, clrr, copy, not, failing condition), the alm logic/tst/cmp forms and operand extension; the remaining handlers of the families compose the same helpers and are tied by the instruction-level correspondence.",
   tech="Lean 4 theorems over BitVec (core overflow lemmas, omega) + helper- and instruction-level correspondence", ref="§7 C03"),
 "C04": dict(
   text="Kernel-checked theorems over the model of DoMultiplication, ProductToBus40 and ShiftBus40: pe:p is the exact 33-bit product of the factors under the sign selection and half-word mode; a product read applies none / floor >>1 / <<1 / <<2 to that exact value; left shifts give value*2^n mod 2^40 with carry = last bit shifted out and overflow iff value*2^n does not fit 40 bits (arithmetic mode), right shifts give floor(value/2^m) (arithmetic) or the zero-filled pattern (logic) with the carry bit and cleared overflow, for every shift amount in [-32768, 32767] and every operand. Tied to the C++ by direct calls of the real helpers (incl. all 65536 shift amounts) and the instruction-level correspondence of the multiply/shift families.",
   note=NOTE_COMMON + " Exp (redundant sign bits minus eight, normalisation), the end-to-end shifter incl. saturation by the original sign, multiply-accumulate order and the product sum are proved in Proofs/C04b.lean; proof automation imports Mathlib.Tactic.Linarith/IntervalCases.",
   tech="Lean 4 theorems (case split over shift amounts, omega/nlinarith) + helper- and instruction-level correspondence", ref="§7 C04"),
 "C13": dict(
   text="Kernel-checked theorems over the Lean models of dma.cpp and ahbm.cpp: the element trace of a transfer equals the closed-form 3-D strided address list (zero sizes as one, double words aligned), DoDma is the in-order fold of element moves over that list, memory outside the destination set is unchanged, the interrupt handler runs exactly once on completion, SetZ starts only on 0x40C0; aligned 16/32-bit AHBM units perform exactly one external access of that width/address/value, and bursts are transparent when the count is a multiple of the burst length. Tied to the C++ by geometry sweeps and random configurations on the real Dma+Ahbm+SharedMemory objects with logging external callbacks, plus an independent three-loop reference inside the harness.",
   note=NOTE_COMMON + " Recorded findings (see known_findings.json): transfers ending mid-burst and external->external bursts (D10-D12); double-word SIZE0=0xFFFF non-termination (D9).",
   tech="Lean 4 theorems (induction on the three counters, fold refinement) + correspondence run", ref="§7 C13"),
 "C20": dict(
   text="The pseudo-register layout table (19 words, 143 slots, shadow lists) is regenerated from register.h on every run and the theorems are re-checked over the regenerated table: slots lie inside 16 bits and are pairwise disjoint; under the hardware-width invariant, writing a word and reading it back returns the written value on all writable bits, every member outside the word is unchanged, read-only members are unchanged (with the explicit write-one-to-clear exception of the loop flag, whose refuting witness is proved), a member visible in two words reads the same in both, the TeakLite limit flag is the OR of the two Teak limit flags and writing it sets both, the accumulator-extension nibble round-trips; and the ar/arp words mean the same register, step and offset to the interpreter's fields, the disassembler's decoding and the generator's expressions (translated from test_generator.cpp). Tied to the C++ exhaustively: all 65536 values into each of the 19 words from several base states on a real RegisterState, and the disassembler's ar/arp annotation over all 65536 values.",
   note=NOTE_COMMON + " The layout table itself is produced by tools/translate_regs.py (fails loudly on unknown syntax); findings that contradict a literal reading (lp write-one-to-clear changes the read-only bcn bits; AccE write-back rewrites bits 36-39; Get does not mask over-wide members) are proved as witnesses and listed in DESIGN.md.",
   tech="translator-regenerated Lean table + kernel-checked checker (decide +kernel) with soundness lemmas + exhaustive correspondence", ref="§7 C20"),
 "C10": dict(
   text="Kernel-checked theorems over the model of StepAddress/RnAndModify/RnAddress: a zero step never changes the address; with modulo not in effect every step kind adds exactly its amount modulo 2^16 (incl. the configured 7/9/16-bit steps); with modulo in effect, +1/-1 are the cyclic successor/predecessor on the aligned buffer [base, base+mod] in both the Teak and TeakLite-compatible branches, never alter bits above the mask the branch uses, keep the address in the buffer, are mutually inverse and have period mod+1 - for every 16-bit mod, every address, both modes; bit reversal is an involution and yields the reversed old register as the address while the register steps linearly; RnAndModify returns the pre-modified value, changes only r[unit], and zeroes r3/r7 in end-pointer mode (the stated exception to 'a zero step never changes the register'). The literal 'never alters bits above the power-of-two alignment' is refuted for the +-2 kinds in TeakLite mode by a proved witness (mask widened by the step), with the partial theorem stating exactly where it holds. Tied to the C++ by direct calls of the real RnAndModify/RnAddress over every modulo value x both modes x all step kinds x start addresses around the buffer, plus the addressing instruction families.",
   note=NOTE_COMMON,
   tech="Lean 4 theorems (case split over mask widths, omega) + helper sweep + instruction-level correspondence", ref="§7 C10"),
 "C05": dict(
   text="Kernel-checked theorems about the assembler construction of parser.cpp for an ARBITRARY token function (parsing a renderable opcode's token list returns the least opcode with that text and its expansion status; unknown lists are invalid; the build aborts exactly on a violated bit-superset condition; under 'same text only if same table entry and operands, differing in unused bits' the assembled opcode decodes, executes and prints identically) and about the C binding (returns the text length, writes only inside the buffer, NUL directly after the copied text, nothing for size 0). The disassembler's text (disassembler.cpp) is NOT modelled: the finite fact 'same text only if they differ in unused bits' over all 65536 first words, Do = joined tokens, Parse = least opcode of the group, second-word printing, are established on every run by complete enumeration of the real code (a golden token pin detects text changes that stay injective); the C binding is run for every buffer size 0..64 with canaries; the four hwtest firmware sources are assembled with the real makedsp1 and compared byte-for-byte with the shipped binaries, disassembled and re-assembled.",
   note=NOTE_COMMON + " For the token text the assurance is exhaustive enumeration of a finite table on the real code (first words complete, second words sampled), not a theorem about disassembler.cpp.",
   tech="Lean 4 theorems about the parser construction and C binding + complete enumeration of the first-word table on the real code", ref="§7 C05"),
 "C01": dict(
   text="The reference semantics is the Lean function Teakra.cycle over one hand-transcribed definition per C++ handler overload (all 336 overloads of the 443 decode patterns) and the ~40 shared helpers; it is frozen in /verif and checked against the implementation on every run: EVERY defined first word (65466) is executed from several seeded register/memory states (plus states inside a single-instruction repeat, inside 1-4 nested block repeats with the frame end at/next to the instruction, and with interrupts enabled and pending) on a real Teakra and on the model, and all 243 register-file fields plus the ordered memory-access log are compared. Proved: the dispatcher's decode table equals the audited C02 table entry by entry (re-proved when decoder.h changes), so the model fetches/extracts exactly what C02's theorems speak about. Generator clause: every record the project's own generator emits (real generator, 4 per enabled opcode) is executed as test_verifier sets it up and checked on the real code for no assertion abort, pc = instruction length, and data accesses only inside the two compared windows.",
   note=NOTE_COMMON + " 'Hardware-validated' cannot be checked here (the hardware result file is a git-lfs pointer): the reference is the transcription of the pinned interpreter.h. Equality of implementation and reference is established by differential execution (exhaustive in the first word, sampled in state and second word), not by a theorem; value-level exactness of the helpers is C03/C04/C10.",
   tech="Lean 4 executable reference model + exhaustive-in-opcode instruction-level correspondence + kernel-checked decode-table agreement", ref="§7 C01"),
 "C19": dict(
   text="The lock discipline is translated from apbp.cpp, icu.h, interpreter.h, processor.cpp, teakra.cpp, mmio.cpp on every run (tools/translate_locks.py, fails loudly) and the theorems are re-checked over the regenerated table: every pair of conflicting accesses from the host and DSP threads to a shared member holds a common lock or is atomic (race freedom, with the ICU vector tables as the one recorded exception), the lock-acquisition order incl. locks held across callbacks and re-entrant host callbacks is acyclic (no deadlock), and the atomic actions of the interleaving model are exactly the code's critical sections. Over the small-step interleaving semantics built from those actions and the sequential Apbp/ICU models: every value received was sent, values are observed in send order, the last value sent is observed once the sender is quiescent (safety form), every completed send with interrupts enabled has triggered the peer's interrupt and set the routed core latches, and a latch set by SignalInterrupt is seen by exactly one exchange - for all interleavings and unbounded histories, by invariants and induction.",
   note=NOTE_COMMON + " Cannot exhibit: the C++ memory model below lock/atomic level, scheduler fairness/liveness ('eventually observed' is proved in its safety form only). The thread model (which API methods run on which thread, init-only callbacks) is hand-written and listed in the evidence assumptions; TSan is used only to confirm a reported race on the real code.",
   tech="translator-regenerated lock table + kernel-checked race/lock-order checkers (decide +kernel) + invariant proofs over an interleaving semantics", ref="§7 C19"),
 "C11": dict(
   text="Kernel-checked theorems over the Lean model of SharedMemory, MemoryInterfaceUnit and MemoryInterface: program word p is bytes 2p, 2p+1 (little endian) and is rejected exactly when outside the 0x80000-byte array; in the default paging mode data word a in bank z < 2 is the word at 0x20000 + 0x10000*z + a (the paged mode with the code's comparison stated as written); the 32-bit-address accessors mask to 17 bits and add 0x20000; a write through ANY view (program, data with or without MMIO bypass, 32-bit-address, raw bytes) is read back through every view that reaches the same cell, and changes no other cell; reads do not write; a data address inside the MMIO window (z_page 0) reaches the register and leaves the memory underneath unchanged, the bypass reaches the memory underneath; Reset clears the memory. Tied to the C++ on a real Teakra::Teakra (user-supplied and internally owned memory, all views incl. the raw pointer, many MMIO bases and page settings) by the `bus` correspondence unit, which also evaluates the view agreement on the implementation itself.",
   note=NOTE_COMMON + " That every load/store instruction calls the memory interface with the address its addressing form says is the instruction-level correspondence (C01/C10). The u32 multiplication `word_address * 2` drops the top bit of a 32-bit program address (theorem program_alias_top_bit states the aliasing the code has).",
   tech="Lean 4 theorems over the bus model (cell function per port, frame lemmas) + correspondence run on the real facade", ref="§7 C11"),
 "C12": dict(
   text="Kernel-checked theorems over the Lean model of MMIORegion (all 0x800 offsets: 111 bound cells transcribed from mmio.cpp, every other offset a storage word) and the peripherals behind it: every read/write register field reads back the value last written on its documented mask through either path (host accessor at any 0x800 mirror, DSP data access at the window base); a write to one offset changes the read-back of another offset only for the 45 listed couplings (DMA channel window select and start, MMIO window relocation, timer restart/counter mirror, interrupt trigger/acknowledge, FIFO and mailbox side effects); only the 9 listed trigger cells emit events; reads are pure except the three mailbox FIFO cells; the DMA channel window gives each of the eight channels independent copies. Tied to the C++ by the `bus` correspondence unit on a real Teakra::Teakra: per offset and value, one write between two complete read-back sweeps over all 0x800 offsets through both paths, the mirrors compared on the real code, plus random read/write histories with the interrupt latches and callback events compared.",
   note=NOTE_COMMON + " The classification tables (read/write masks, couplings, trigger cells) are proved equal to the model's cell functions and are evaluated on the implementation's own answers by the check. A window access with DMA active_channel >= 8 indexes outside channels[8] in the C++ (C18); model and harness answer `oob` there.",
   tech="Lean 4 theorems over the MMIO cell table (decide +kernel over the finite table + frame lemmas) + exhaustive-in-offset correspondence", ref="§7 C12"),
}

PENDING = "not claimed yet: model and theorems for this property are still being built (DESIGN.md §10 staging); no check is registered until it is green on the unchanged tree"


def main():
    hooks = subprocess.check_output(["git", "-C", "/repo", "log", "--format=%H %s"]).decode().strip().split("\n")
    hook_commits = [l.split()[0] for l in hooks if "verif hook" in l]
    claimed = sorted(CLAIMS)
    m = {
        "version": 1,
        "setup_cmd": "python3 check.py --setup",
        "hooks": {
            "guard": "TEAKRA_VERIF",
            "enable": "checks compile /repo/src/*.cpp and harness/*.cpp with g++ -std=c++17 -DTEAKRA_VERIF (tools/vlib.py harness_build); objects are cached per translation unit by content hash, so every run reflects /repo's working tree",
            "baseline_off_cmd": "python3 check.py --baseline-off",
            "source_commits": hook_commits,
            "add_only": True,
        },
        "engines": [
            {"name": "lean-model", "path": "lean/", "serves_properties": claimed,
             "kind_free_text": "Lean 4 executable model (TeakraModel), property theorems (Proofs/Cxx.lean), compiled line-protocol driver (Main.lean)"},
            {"name": "harness", "path": "harness/", "serves_properties": claimed,
             "kind_free_text": "C++ correspondence harness linking /repo's sources with the hook guard on; same line protocol as the model driver"},
        ],
        "checks": [],
        "notes": "See DESIGN.md. Every check: regenerate/translate, lake build of the property's proof module, axiom audit + forbidden-token scan, harness build from /repo's working tree, correspondence run (corpus first), evidence.",
        "not_applicable": [],
    }
    for pid in claimed:
        c = CLAIMS[pid]
        m["checks"].append({
            "property_id": pid, "quick_cmd": "python3 check.py %s --tier quick" % pid,
            "thorough_cmd": "python3 check.py %s --tier thorough" % pid,
            "evidence_file": "evidence/%s.json" % pid,
            "replay_cmd_template": "python3 check.py %s --replay {path}" % pid,
            "engine": "lean-model",
            "level_claimed": {"category": "proof", "text": c["text"], "design_ref": c["ref"]},
            "level_note": c["note"], "technique": c["tech"]})
    for i in range(1, 21):
        pid = "C%02d" % i
        if pid not in CLAIMS:
            m["not_applicable"].append({"property_id": pid, "reason": PENDING})
    json.dump(m, open(os.path.join(ROOT, "MANIFEST.json"), "w"), indent=1)
    print("claimed:", claimed)


if __name__ == "__main__":
    main()
