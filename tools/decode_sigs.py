"""Quick parse of decoder.h INST entries -> list of patterns with operand lists.
(Bootstrap for the dispatch generator; tools/translate_decode.py is the audited translator.)"""
import re, json, sys, os

def parse(repo="/repo"):
    src = open(os.path.join(repo, "src/decoder.h")).read()
    i = src.index("GetDecodeTable()")
    body = src[i:src.index("#undef INST", i)]
    body = re.sub(r"//[^\n]*", "", body)
    pats = []
    for m in re.finditer(r"INST\((\w+),\s*(0x[0-9A-Fa-f]+)((?:[^()]|\([^()]*\))*)\)((?:\s*\.EXCEPT\([^)]*\))*)", body):
        name, exp, ops, exc = m.groups()
        operands = []
        for o in re.finditer(r"(At|Const|Unused|AtNamed)<\s*([^<>]*)>|\b([A-Z][A-Za-z]*)\b(?!<)", ops):
            if o.group(1):
                args = [a.strip() for a in o.group(2).split(",")]
                if o.group(1) == "At":
                    operands.append({"kind": "At", "ty": args[0], "pos": int(args[1])})
                elif o.group(1) == "Const":
                    operands.append({"kind": "Const", "ty": args[0], "value": int(args[1])})
                elif o.group(1) == "Unused":
                    operands.append({"kind": "Unused", "pos": int(args[0])})
                else:
                    operands.append({"kind": "AtNamed", "ty": args[0], "pos": int(args[1])})
            elif o.group(3):
                operands.append({"kind": "Cn", "ty": o.group(3)})
        rej = re.findall(r"AtConst<\s*(\w+)\s*,\s*(\d+)\s*,\s*(\d+)\s*>", exc)
        pats.append({"name": name, "expected": int(exp, 16), "operands": operands,
                     "rejectors": [(t, int(p), int(v)) for t, p, v in rej]})
    return pats

if __name__ == "__main__":
    pats = parse()
    sigs = {}
    for p in pats:
        sig = (p["name"], tuple(("RegName" if o["kind"] == "AtNamed" else o["ty"]) for o in p["operands"] if o["kind"] != "Unused"))
        sigs.setdefault(sig, 0)
        sigs[sig] += 1
    print(len(pats), "patterns", len(sigs), "signatures", len({s[0] for s in sigs}), "names")
    for s in sigs:
        print(s[0], ",".join(s[1]))
