"""Shared machinery of the teakra verification checks.

Everything a check needs that is not specific to one property: building the Lean library and
the model driver, auditing axioms, building the C++ harness from /repo's *current working tree*
(with -DTEAKRA_VERIF), running harness and model on the same protocol lines, comparing the two
output streams, shrinking a disagreement, and writing evidence.
"""
import concurrent.futures as cf
import glob
import hashlib
import json
import os
import re
import shutil
import subprocess
import sys
import time

ROOT = os.path.dirname(os.path.dirname(os.path.abspath(__file__)))
REPO = os.environ.get("VERIF_REPO", "/repo")
BUILD = os.path.join(ROOT, ".build")
LEAN = os.path.join(ROOT, "lean")
HARNESS = os.path.join(ROOT, "harness")
NPROC = int(os.environ.get("VERIF_JOBS", str(os.cpu_count() or 4)))
GUARD = "TEAKRA_VERIF"
ALLOWED_AXIOMS = {"propext", "Classical.choice", "Quot.sound"}
FORBIDDEN = ["sorry", "admit", "native_decide", "bv_decide", "implemented_by", "unsafe ",
             "maxHeartbeats 0", "ofReduceBool", "reduceBool"]

os.makedirs(BUILD, exist_ok=True)


def log(*a):
    print(*a, file=sys.stderr, flush=True)


def sh(cmd, cwd=None, timeout=None, inp=None, env=None):
    e = dict(os.environ)
    if env:
        e.update(env)
    p = subprocess.run(cmd, cwd=cwd, timeout=timeout, input=inp, env=e,
                       stdout=subprocess.PIPE, stderr=subprocess.STDOUT, text=True)
    return p.returncode, p.stdout


# ----------------------------------------------------------------------------- Lean side

class FileLock:
    def __init__(self, path):
        self.path = path

    def __enter__(self):
        import fcntl
        self.f = open(self.path, "w")
        fcntl.flock(self.f, fcntl.LOCK_EX)
        return self

    def __exit__(self, *a):
        import fcntl
        fcntl.flock(self.f, fcntl.LOCK_UN)
        self.f.close()


def lean_build(targets):
    """`lake build <targets>`; returns (ok, log)."""
    with FileLock(os.path.join(BUILD, "lake.lock")):
        rc, out = sh(["lake", "build"] + list(targets), cwd=LEAN, timeout=3600)
    return rc == 0, out


def model_driver():
    ok, out = lean_build(["teakra_model"])
    if not ok:
        raise RuntimeError("model driver does not build:\n" + out[-4000:])
    return os.path.join(LEAN, ".lake", "build", "bin", "teakra_model")


def strip_comments(src):
    """Remove Lean block comments (nested) and line comments."""
    out = []
    i, n, depth = 0, len(src), 0
    while i < n:
        if src.startswith("/-", i):
            depth += 1
            i += 2
        elif depth and src.startswith("-/", i):
            depth -= 1
            i += 2
        elif depth:
            if src[i] == "\n":
                out.append("\n")
            i += 1
        elif src.startswith("--", i):
            while i < n and src[i] != "\n":
                i += 1
        else:
            out.append(src[i])
            i += 1
    return "".join(out)


def forbidden_scan():
    """Forbidden tokens anywhere in the Lean sources (comments stripped)."""
    hits = []
    for path in sorted(glob.glob(os.path.join(LEAN, "**", "*.lean"), recursive=True)):
        if "/.lake/" in path:
            continue
        code = strip_comments(open(path).read())
        for ln, line in enumerate(code.split("\n"), 1):
            for tok in FORBIDDEN:
                if tok in line:
                    hits.append("%s:%d: %s" % (os.path.relpath(path, ROOT), ln, tok.strip()))
            if re.match(r"\s*axiom\s", line):
                hits.append("%s:%d: axiom" % (os.path.relpath(path, ROOT), ln))
    return hits


def audit_axioms(module, theorems):
    """`#print axioms` for every theorem; returns {theorem: [axioms] | None if it does not exist /
    depends on sorry}."""
    os.makedirs(os.path.join(BUILD, "audit"), exist_ok=True)
    path = os.path.join(BUILD, "audit", module.replace(".", "_") + ".lean")
    with open(path, "w") as f:
        f.write("import %s\n" % module)
        for t in theorems:
            f.write("#print axioms %s\n" % t)
    rc, out = sh(["lake", "env", "lean", path], cwd=LEAN, timeout=1800)
    res = {t: None for t in theorems}
    # output: "'name' depends on axioms: [a, b]" or "'name' does not depend on any axioms"
    flat = re.sub(r"\s+", " ", out)
    for m in re.finditer(r"'([^']+)' depends on axioms: \[([^\]]*)\]", flat):
        res[m.group(1)] = [a.strip() for a in m.group(2).split(",") if a.strip()]
    for m in re.finditer(r"'([^']+)' does not depend on any axioms", flat):
        res[m.group(1)] = []
    return res, out, "cd lean && lake build %s && lake env lean %s" % (module, os.path.relpath(path, LEAN))


def prove(module, theorems):
    """Build the proof module and audit it.  Returns dict with obligations/discharged/failures."""
    t0 = time.time()
    ok, blog = lean_build([module])
    info = {"module": module, "build_ok": ok, "obligations": len(theorems), "discharged": 0,
            "failed": [], "axioms": {}, "build_log_tail": "" if ok else blog[-3000:]}
    if ok:
        res, out, cmd = audit_axioms(module, theorems)
        info["checker_cmd"] = cmd
        used = set()
        for t, ax in res.items():
            if ax is None:
                info["failed"].append(t + ": missing or not accepted by the kernel")
            elif not set(ax) <= ALLOWED_AXIOMS:
                info["failed"].append(t + ": axioms " + ",".join(ax))
            else:
                info["discharged"] += 1
                used |= set(ax)
            info["axioms"][t] = ax
        info["axioms_used"] = sorted(used)
    else:
        info["checker_cmd"] = "cd lean && lake build %s" % module
        info["failed"] = [t + ": module does not build" for t in theorems]
    fb = forbidden_scan()
    if fb:
        info["failed"] += ["forbidden token: " + h for h in fb]
    info["forbidden_hits"] = fb
    info["wall_s"] = round(time.time() - t0, 2)
    return info


def leanchecker(module):
    rc, out = sh(["lake", "env", "leanchecker", module], cwd=LEAN, timeout=3600)
    return rc == 0, out[-2000:]


# ----------------------------------------------------------------------------- C++ side

def _sha(*parts):
    h = hashlib.sha256()
    for p in parts:
        h.update(p if isinstance(p, bytes) else p.encode())
        h.update(b"\0")
    return h.hexdigest()[:20]


def _read(p):
    with open(p, "rb") as f:
        return f.read()


VARIANTS = {
    "plain": ["-O1", "-g0"],
    # _GLIBCXX_ASSERTIONS: std::array / std::bitset / std::vector indexing is range-checked (table indices, C18)
    "san": ["-O1", "-g", "-fsanitize=address,undefined", "-fno-sanitize-recover=all",
            "-fno-omit-frame-pointer", "-D_GLIBCXX_ASSERTIONS"],
    "tsan": ["-O1", "-g", "-fsanitize=thread"],
    # measurement only (tools/coverage.py): which lines of /repo the correspondence runs execute
    "cov": ["-O0", "-g", "--coverage", "-fprofile-update=atomic"],
}


def repo_sources():
    srcs = sorted(glob.glob(os.path.join(REPO, "src", "*.cpp")))
    hdrs = sorted(glob.glob(os.path.join(REPO, "src", "*.h")) +
                  glob.glob(os.path.join(REPO, "include", "**", "*.h"), recursive=True))
    return srcs, hdrs


def harness_build(variant="plain", extra_units=None):
    """Compile /repo/src/*.cpp and the harness against /repo's current working tree with the hook
    guard on.  Objects are cached per translation unit under .build/obj keyed by content, so an
    edited tree is always rebuilt.  Returns the path of the `drive` binary."""
    if variant == "plain" and os.environ.get("VERIF_COVERAGE") == "1":
        variant = "cov"
    flags = ["-std=c++17", "-D" + GUARD, "-pthread", "-w",
             "-I" + os.path.join(REPO, "src"), "-I" + os.path.join(REPO, "include"),
             "-I" + os.path.join(REPO, "include", "teakra", "impl"), "-I" + HARNESS] + VARIANTS[variant]
    import gen_impl
    gdir = gen_impl.include_dir(ROOT)      # verbatim copy of the facade's private Impl structs, from the tree under test
    flags = flags + ["-I" + gdir]
    srcs, hdrs = repo_sources()
    hsrcs = sorted(glob.glob(os.path.join(HARNESS, "*.cpp")))
    hhdrs = sorted(glob.glob(os.path.join(HARNESS, "*.hpp")) + glob.glob(os.path.join(HARNESS, "*.h")) + glob.glob(os.path.join(HARNESS, "*.inc")) +
                   glob.glob(os.path.join(gdir, "*.h")))
    hdr_key = _sha(*[_read(h) for h in hdrs + hhdrs], " ".join(flags))
    objdir = os.path.join(BUILD, "obj")
    os.makedirs(objdir, exist_ok=True)
    jobs = []
    objs = []
    for s in srcs + hsrcs:
        key = _sha(hdr_key, _read(s), s)
        o = os.path.join(objdir, "%s-%s.o" % (os.path.basename(s)[:-4], key))
        objs.append(o)
        if not os.path.exists(o):
            jobs.append((s, o))
    link_key = _sha(*objs, variant)
    exe = os.path.join(BUILD, "bin", "drive-%s-%s" % (variant, link_key))
    pairs = list(zip(srcs + hsrcs, objs))

    def touch(paths):
        for f in paths:
            try:
                os.utime(f, None)           # cache entries in use are the newest: the collector below removes the oldest
            except OSError:
                pass
    if os.path.exists(exe) and not jobs:
        touch([exe])
        return exe
    with FileLock(os.path.join(BUILD, "harness.lock")):
        # decide again under the lock: another run (other tree / variant) may have collected objects in between
        jobs = [(s, o) for (s, o) in pairs if not os.path.exists(o)]

        def cc(job):
            s, o = job
            tmp = o + ".tmp%d" % os.getpid()
            rc, out = sh(["g++"] + flags + ["-c", s, "-o", tmp], timeout=1800)
            if rc == 0:
                os.replace(tmp, o)
            return rc, out, s
        with cf.ThreadPoolExecutor(NPROC) as ex:
            for rc, out, s in ex.map(cc, jobs):
                if rc != 0:
                    raise RuntimeError("harness compile failed for %s:\n%s" % (s, out[-4000:]))
        touch(objs)
        os.makedirs(os.path.dirname(exe), exist_ok=True)
        if not os.path.exists(exe):
            rc, out = sh(["g++"] + flags + objs + ["-o", exe + ".tmp%d" % os.getpid()], timeout=1800)
            if rc != 0:
                raise RuntimeError("harness link failed:\n" + out[-4000:])
            os.replace(exe + ".tmp%d" % os.getpid(), exe)
        touch([exe])
        _gc(objdir, 1500)
        _gc(os.path.dirname(exe), 30)
    return exe


def _gc(d, keep):
    fs = sorted(glob.glob(os.path.join(d, "*")), key=os.path.getmtime)
    for f in fs[:-keep]:
        try:
            os.remove(f)
        except OSError:
            pass


# ----------------------------------------------------------------------------- correspondence

ABORTS = ("assert", "unimpl", "oob", "hang")
RESYNC_OPS = ("set", "new", "reset", "init", "gen")
SKIP_MODEL = ("unmodelled", "mmio")


def _run_bin(exe, text, timeout=3600):
    """Run one harness/model process on a batch of protocol lines.  A process that does not finish (a deadlock or an
    endless loop in the code under test) is killed after `timeout` seconds and reported like a crash: the answers it
    gave so far are kept, the first unanswered script is the one it hung on."""
    timeout = min(timeout, int(os.environ.get("VERIF_HANG_TIMEOUT", "1200")))
    try:
        p = subprocess.run([exe], input=text, stdout=subprocess.PIPE, stderr=subprocess.PIPE,
                           text=True, timeout=timeout)
    except subprocess.TimeoutExpired as e:
        out = e.stdout.decode() if isinstance(e.stdout, bytes) else (e.stdout or "")
        if out and not out.endswith("\n"):
            out = out[:out.rfind("\n") + 1]
        return -9, out, "harness did not finish within %d s: HANG (deadlock or endless loop) on the first unanswered line" % timeout
    return p.returncode, p.stdout, p.stderr


def run_scripts(exe, scripts, shards=None, timeout=3600):
    """Run a list of scripts (each a list of protocol lines; each script starts from a resync op)
    on one binary, sharded over processes.  Returns list of list of response lines, plus crash
    info [(script index, stderr tail)]."""
    shards = shards or NPROC
    n = len(scripts)
    if n == 0:
        return [], []
    per = max(1, (n + shards - 1) // shards)
    chunks = [(i, scripts[i:i + per]) for i in range(0, n, per)]

    def work(ch):
        i0, scs = ch
        text = "".join("".join(l + "\n" for l in s) for s in scs)
        rc, out, err = _run_bin(exe, text, timeout)
        lines = out.split("\n")
        if lines and lines[-1] == "":
            lines.pop()
        res, k, crashed = [], 0, None
        for j, s in enumerate(scs):
            r = lines[k:k + len(s)]
            k += len(s)
            if len(r) < len(s) and crashed is None:
                crashed = (i0 + j, "rc=%d %s" % (rc, err[-1500:]))
            res.append(r)
        return i0, res, crashed
    outs = [None] * n
    crashes = []
    with cf.ThreadPoolExecutor(shards) as ex:
        for i0, res, crashed in ex.map(work, chunks):
            for j, r in enumerate(res):
                outs[i0 + j] = r
            if crashed:
                crashes.append(crashed)
    return outs, crashes


def compare_script(script, a, b):
    """First index where implementation output `a` and model output `b` differ, honouring the
    abort rule: after a line on which either side reports an abort class, responses are ignored
    until the next resync op of that unit.  Returns None if they agree."""
    tainted = set()
    for i, line in enumerate(script):
        toks = line.split()
        unit = toks[0] if toks else ""
        op = toks[1] if len(toks) > 1 else ""
        if op in RESYNC_OPS:
            tainted.discard(unit)
        ra = a[i] if i < len(a) else "<no-output>"
        rb = b[i] if i < len(b) else "<no-output>"
        if unit in tainted:
            continue
        if rb.startswith(SKIP_MODEL):
            # the model declines (opcode not modelled yet / access into the MMIO window in the bare
            # core model): nothing to compare on this line, and the states diverge until the next resync
            tainted.add(unit)
            continue
        if ra != rb:
            return i
        if ra.split(" ")[0] in ABORTS:
            tainted.add(unit)
    return None


class Pair:
    """Harness + model driver for one check run."""

    def __init__(self, variant="plain"):
        t0 = time.time()
        self.model = model_driver()
        self.impl = harness_build(variant)
        self.build_s = round(time.time() - t0, 2)

    def run(self, scripts, shards=None):
        with cf.ThreadPoolExecutor(2) as ex:
            fa = ex.submit(run_scripts, self.impl, scripts, shards)
            fb = ex.submit(run_scripts, self.model, scripts, shards)
            (a, ca), (b, cb) = fa.result(), fb.result()
        return a, b, ca, cb

    def diff(self, scripts, shards=None, model_first=False):
        """Returns list of (script index, line index, impl line, model line).

        model_first: run the model first and do not send to the implementation the scripts on which the
        model declines (`unmodelled`, `mmio`): such a case cannot be compared, and on the real code it may
        leave peripheral state behind (a store into the MMIO window) that would leak into later cases of
        the same harness process."""
        if model_first:
            b, cb = run_scripts(self.model, scripts, shards)
            if cb:
                raise RuntimeError("model driver crashed: %r" % (cb[:1],))
            keep = [i for i, r in enumerate(b) if not any(l.startswith(SKIP_MODEL) for l in r)]
            a_k, ca = run_scripts(self.impl, [scripts[i] for i in keep], shards)
            a = [["<skipped>"] * len(s) for s in scripts]
            for j, i in enumerate(keep):
                a[i] = a_k[j]
            ca = [(keep[i], e) for i, e in ca]
            bad = []
            for i in keep:
                k = compare_script(scripts[i], a[i], b[i])
                if k is not None:
                    bad.append((i, k, a[i][k] if k < len(a[i]) else "<no-output>",
                                b[i][k] if k < len(b[i]) else "<no-output>"))
            self.skipped = len(scripts) - len(keep)
            return bad, a, b, ca
        a, b, ca, cb = self.run(scripts, shards)
        if cb:
            raise RuntimeError("model driver crashed: %r" % (cb[:1],))
        bad = []
        for i, s in enumerate(scripts):
            k = compare_script(s, a[i], b[i])
            if k is not None:
                bad.append((i, k, a[i][k] if k < len(a[i]) else "<no-output>",
                            b[i][k] if k < len(b[i]) else "<no-output>"))
        return bad, a, b, ca

    def shrink(self, script, is_resync=lambda l: len(l.split()) > 1 and l.split()[1] in RESYNC_OPS):
        """Greedy removal of lines while impl and model still disagree on the script."""
        def bad(s):
            a, b, ca, cb = self.run([s], shards=1)
            return compare_script(s, a[0], b[0]) is not None
        cur = list(script)
        k = compare_script(cur, *[x[0] for x in self.run([cur], shards=1)[:2]])
        if k is None:
            return cur
        cur = cur[:k + 1]
        changed = True
        while changed and len(cur) > 1:
            changed = False
            for i in range(len(cur) - 2, -1, -1):
                cand = cur[:i] + cur[i + 1:]
                if cand and bad(cand):
                    cur = cand
                    changed = True
        return cur


# ----------------------------------------------------------------------------- rng

class Rng:
    """splitmix64; every random choice in a check derives from VERIF_SEED through this."""

    def __init__(self, seed):
        self.s = seed & 0xFFFFFFFFFFFFFFFF

    def next(self):
        self.s = (self.s + 0x9E3779B97F4A7C15) & 0xFFFFFFFFFFFFFFFF
        z = self.s
        z = ((z ^ (z >> 30)) * 0xBF58476D1CE4E5B9) & 0xFFFFFFFFFFFFFFFF
        z = ((z ^ (z >> 27)) * 0x94D049BB133111EB) & 0xFFFFFFFFFFFFFFFF
        return z ^ (z >> 31)

    def below(self, n):
        return self.next() % n

    def chance(self, num, den):
        return self.below(den) < num

    def choice(self, xs):
        return xs[self.below(len(xs))]

    def bits(self, w):
        return self.next() & ((1 << w) - 1)

    def biased(self, w):
        """Boundary-biased w-bit value: half from the boundary pool, half uniform."""
        if self.chance(1, 2):
            pool = [0, 1, 2, (1 << w) - 1, (1 << w) - 2, 1 << (w - 1), (1 << (w - 1)) - 1,
                    (1 << (w - 1)) + 1]
            if self.chance(1, 3):
                return (1 << self.below(w)) & ((1 << w) - 1)
            return self.choice(pool) & ((1 << w) - 1)
        if self.chance(1, 4):
            return self.bits(w) & self.bits(w)   # sparse
        return self.bits(w)

    def fork(self, tag):
        return Rng(self.next() ^ (hash_str(tag)))


def hash_str(s):
    return int.from_bytes(hashlib.sha256(s.encode()).digest()[:8], "little")


# ----------------------------------------------------------------------------- evidence / findings

def load_known():
    p = os.path.join(ROOT, "known_findings.json")
    if os.path.exists(p):
        return json.load(open(p))
    return {"findings": [], "fixed": []}


def write_evidence(prop, tier, seed, coverage, assumptions, wall_s, violations):
    os.makedirs(os.path.join(ROOT, "evidence"), exist_ok=True)
    ev = {"property_id": prop, "tier": tier, "seed": seed, "level": "proof", "coverage": coverage,
          "assumptions": assumptions, "wall_s": round(wall_s, 2), "violations": violations}
    p = os.path.join(ROOT, "evidence", prop + ".json")
    if os.path.realpath(REPO) != "/repo" or os.environ.get("VERIF_COVERAGE") == "1":
        # a run against another tree (seeded change in a scratch worktree) or a measurement run is not evidence about /repo
        os.makedirs(os.path.join(BUILD, "evidence-other"), exist_ok=True)
        p = os.path.join(BUILD, "evidence-other", prop + ".json")
    with open(p + ".tmp", "w") as f:
        json.dump(ev, f, indent=1, sort_keys=False)
    os.replace(p + ".tmp", p)
    return p


def write_replay(prop, name, obj):
    d = os.path.join(BUILD, "replay")
    os.makedirs(d, exist_ok=True)
    p = os.path.join(d, "%s-%s.json" % (prop, name))
    with open(p, "w") as f:
        json.dump(obj, f, indent=1)
    return p
