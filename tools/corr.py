"""Correspondence exploration shared by the per-property check modules."""
import glob
import json
import os
import vlib


def load_corpus(prop):
    """Minimised past disagreements: corpus/<prop>/*.txt, one script per file; replayed first."""
    out = []
    for p in sorted(glob.glob(os.path.join(vlib.ROOT, "corpus", prop, "*.txt"))):
        lines = [l.rstrip("\n") for l in open(p) if l.strip() and not l.startswith("#")]
        if lines:
            out.append(lines)
    return out


def explore(prop, scripts, judge=None, signature=None, nontrivial=None, variant="plain",
            rule="", max_report=4, sample_n=3, extra=None, model_first=False, inspect=None):
    """Run `scripts` on harness and model, compare, shrink and classify disagreements.

    judge(pair, script, impl_lines, model_lines) -> (failing_input_found: bool, text)
    signature(script, impl_lines) -> hashable; nontrivial(script, impl_lines) -> bool
    """
    pair = vlib.Pair(variant)
    corpus = load_corpus(prop)
    allscripts = corpus + list(scripts)
    bad, a, b, crashes = pair.diff(allscripts, model_first=model_first)
    violations = []
    for (i, err) in crashes[:max_report]:
        violations.append(("harness died on a script (crash or sanitizer abort): " + err[-300:],
                           {"kind": "crash", "script": allscripts[i], "stderr": err}, True))
    for (i, k, ia, mb) in bad[:max_report]:
        small = pair.shrink(allscripts[i][:k + 1])
        ra, rb, _, _ = pair.run([small], shards=1)
        failing, why = (True, "")
        if judge:
            failing, why = judge(pair, small, ra[0], rb[0])
        desc = "implementation and model disagree on `%s`: impl=%r model=%r %s" % (
            small[-1], ra[0][-1] if ra[0] else None, rb[0][-1] if rb[0] else None, why)
        violations.append((desc, {"kind": "correspondence", "script": small, "impl": ra[0], "model": rb[0],
                                  "correspondence": prop + "/" + (small[-1].split()[0] if small else "")},
                           failing))
    if inspect:
        # inspect(script, impl_lines) -> [(description, line index)]: the property evaluated directly on the
        # implementation's own answers (independent of the model); every hit is a failing input
        nrep = 0
        for s, r in zip(allscripts, a):
            if nrep >= max_report:
                break
            if r and r[0] == "<skipped>":
                continue
            for (what, k) in inspect(s, r)[:1]:
                nrep += 1
                violations.append((what, {"kind": "correspondence", "script": s[:k + 1], "impl": r[:k + 1],
                                          "model": [], "correspondence": prop + "/direct"}, True))
    sigs = set()
    dist = {}
    for s, r in zip(allscripts, a):
        if r and r[0] == "<skipped>":
            continue
        if signature:
            for sg in signature(s, r):
                sigs.add(sg)
        for line, resp in zip(s, r):
            t = line.split()
            key = " ".join(t[:2])
            d = dist.setdefault(key, {"n": 0, "abort": 0})
            d["n"] += 1
            if resp.split(" ")[0] in vlib.ABORTS:
                d["abort"] += 1
    nlines = sum(len(s) for s in allscripts)
    samples = []
    for s, ra_, rb_ in list(zip(allscripts, a, b))[:sample_n]:
        samples.append({"script": s[:12], "impl": ra_[:12], "model": rb_[:12]})
    ctx = {"evaluations": nlines, "distinct_nontrivial": len(sigs),
           "rule": rule, "samples": samples,
           "traces_validated_against_impl": len(allscripts) - len(bad),
           "distribution": dist, "violations": violations,
           "corpus_scripts": len(corpus), "harness_build_s": pair.build_s,
           "skipped_by_model": getattr(pair, "skipped", 0)}
    if extra:
        ctx.update(extra)
    return ctx


def replay(rep):
    """Re-run a recorded case on harness and model, print both outputs."""
    if rep.get("kind") not in ("correspondence", "crash"):
        print(json.dumps(rep, indent=1)[:4000])
        return 1
    pair = vlib.Pair(rep.get("variant", "plain"))
    s = rep["script"]
    a, b, ca, cb = pair.run([s], shards=1)
    k = vlib.compare_script(s, a[0], b[0])
    for i, line in enumerate(s):
        print("> %s\n  impl : %s\n  model: %s%s" % (line, a[0][i] if i < len(a[0]) else "<none>",
                                                   b[0][i] if i < len(b[0]) else "<none>",
                                                   "   <== differs" if i == k else ""))
    return 1 if (k is not None or ca) else 0
