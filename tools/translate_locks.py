#!/usr/bin/env python3
"""Translator for the lock / shared-field access table (property C19).

Reads  <repo>/src/apbp.cpp      class DataChannel, class Apbp::Impl, every Apbp::… method
       <repo>/src/icu.h         class ICU
       <repo>/src/interpreter.h the std::atomic latches, SignalInterrupt, SignalVectoredInterrupt and every
                                use of a latch inside Run
       <repo>/src/processor.cpp the Processor::… forwarders to the interpreter
       <repo>/src/teakra.cpp    which Teakra::… host API method reaches which object.method; the callback
                                wiring done by Teakra::Impl's constructor
       <repo>/src/mmio.cpp      which MMIO cell accessor reaches which object.method; the fields bound
                                directly through Cell::RefCell / BitFieldSlot::RefSlot

Writes lean/TeakraModel/Generated/LockTable.lean   `Teakra.Lock.table : LockTable`
       .build/gen/lock_table.json                  the same data for the Python side
       (--golden: lean/TeakraModel/Golden/LockTable.lean + lock_table.json, the committed snapshot)

For every method body it runs a small statement/expression recogniser (blocks, if/else, for, return,
`std::lock_guard lock(m);`, local declarations, assignments, calls) that records per access to a data
member: the member, read or write, the lock_guards in scope at that point, whether the member is a
std::atomic; and per call of another translated method or of a std::function member: the lock_guards in
scope.  Every identifier in a body has to resolve to a parameter, a local, a member, a translated method
or one of the few whitelisted library names; every statement has to have one of the recognised shapes;
every occurrence of a tracked object in teakra.cpp / mmio.cpp has to be inside one of the recognised
wiring shapes.  Anything else raises `TranslateError` - the translator never guesses.

  translate_locks.py [--repo /repo] [--out ROOT] [--golden]
"""
import argparse
import json
import os
import re
import sys

ROOT = os.path.dirname(os.path.dirname(os.path.abspath(__file__)))


class TranslateError(Exception):
    pass


def fail(msg):
    raise TranslateError(msg)


# ------------------------------------------------------------------------------------ lexical

def strip_comments(src, path):
    out = []
    i, n = 0, len(src)
    while i < n:
        c = src[i]
        if src.startswith("//", i):
            while i < n and src[i] != "\n":
                i += 1
        elif src.startswith("/*", i):
            j = src.find("*/", i + 2)
            if j < 0:
                fail("%s: unterminated /* comment" % path)
            i = j + 2
        elif c == '"' or c == "'":
            j = i + 1
            while j < n and src[j] != c:
                if src[j] == "\\":
                    j += 1
                j += 1
            if j >= n:
                fail("%s: unterminated literal" % path)
            out.append(src[i:j + 1])
            i = j + 1
        else:
            out.append(c)
            i += 1
    return "".join(out)


def load(repo, rel):
    p = os.path.join(repo, "src", rel)
    if not os.path.exists(p):
        fail("%s: missing" % p)
    src = strip_comments(open(p).read(), p)
    lines = []
    for ln in src.split("\n"):
        if ln.lstrip().startswith("#"):
            continue                      # preprocessor lines carry no accesses (checked: no macros are defined)
        lines.append(ln)
    if re.search(r"^\s*#\s*define", src, re.M):
        fail("%s: #define found - macros are not interpreted" % p)
    return "\n".join(lines)


def norm(s):
    s = re.sub(r"\s+", " ", s).strip()
    s = re.sub(r"\s*([(){}\[\];,<>])\s*", r"\1", s)
    return s


def match_close(s, i, what):
    """s[i] is an opening bracket; index of its partner."""
    pairs = {"(": ")", "{": "}", "[": "]"}
    o = s[i]
    c = pairs[o]
    depth = 0
    j = i
    while j < len(s):
        if s[j] == o:
            depth += 1
        elif s[j] == c:
            depth -= 1
            if depth == 0:
                return j
        elif s[j] in "\"'":
            q = s[j]
            j += 1
            while s[j] != q:
                if s[j] == "\\":
                    j += 1
                j += 1
        j += 1
    fail("%s: unbalanced %s" % (what, o))


TOKEN = re.compile(r"\s*(0[xX][0-9a-fA-F]+|\d+|[A-Za-z_]\w*|->|::|\+\+|--|<<=|>>=|<<|>>|\|\||&&|[|&^+\-*/%]=|==|!=|<=|>=|"
                   r"[{}()\[\];,.<>=!~&|^+\-*/%?:])")


def tokens(s, what):
    out = []
    i = 0
    s = s.strip()
    while i < len(s):
        m = TOKEN.match(s, i)
        if not m:
            fail("%s: cannot tokenise %r" % (what, s[i:i + 30]))
        out.append(m.group(1))
        i = m.end()
    return out


# ------------------------------------------------------------------------------------ class bodies

FIELD_TYPES = [
    (r"bool", "data", False), (r"u16", "data", False), (r"u32", "data", False),
    (r"IrqBits", "data", False),
    (r"std::array<u16,\d+>", "data", False),
    (r"std::array<IrqBits,\d+>", "data", False),
    (r"std::array<DataChannel,\d+>", "object", False),
    (r"std::function<void\([\w, ]*\)>", "callback", False),
    (r"std::mutex", "mutex", False),
    (r"std::recursive_mutex", "recursive_mutex", False),
    (r"std::atomic<(bool|u16|u32)>", "data", True),
    (r"std::array<std::atomic<(bool|u16|u32)>,\d+>", "data", True),
]


def classify_type(ty, what):
    for rx, kind, atomic in FIELD_TYPES:
        if re.fullmatch(rx, ty):
            return kind, atomic
    fail("%s: member type %r is not recognised" % (what, ty))


class Cls:
    def __init__(self, name):
        self.name = name
        self.fields = {}        # member -> (type, kind, atomic)
        self.order = []
        self.methods = {}       # method -> (params string, body string)
        self.morder = []


def split_members(body, what):
    """Top-level members of a class body: list of ('decl', text) / ('method', head, body)."""
    out = []
    i = 0
    n = len(body)
    start = 0
    while i < n:
        c = body[i]
        if c == "{":
            j = match_close(body, i, what)
            head = body[start:i].strip()
            # a brace initialiser of a data member (`x{false};`) continues to the `;`
            k = j + 1
            while k < n and body[k].isspace():
                k += 1
            if "(" in head and not head.startswith("std::") and re.search(r"\)\s*(const)?\s*$", head):
                out.append(("method", head, body[i + 1:j]))
                i = j + 1
                start = i
                continue
            i = j + 1
            continue
        if c == "(":
            i = match_close(body, i, what) + 1
            continue
        if c == ";":
            t = body[start:i].strip()
            if t:
                out.append(("decl", t))
            start = i + 1
        elif c == ":" and body[start:i].strip() in ("public", "private", "protected") and body[i + 1:i + 2] != ":":
            start = i + 1
        i += 1
    if body[start:].strip():
        fail("%s: trailing text %r" % (what, body[start:].strip()[:40]))
    return out


def parse_decl(cls, text, what):
    t = norm(text)
    if t.startswith("using "):
        if t != "using IrqBits=std::bitset<16>" and t != "using IrqBits = std::bitset<16>":
            fail("%s: unrecognised alias %r" % (what, t))
        return
    if t.startswith("friend "):
        if t != "friend struct::TeakraVerifAccess" and t != "friend struct ::TeakraVerifAccess":
            fail("%s: unrecognised friend %r" % (what, t))
        return
    t2 = t[len("mutable "):] if t.startswith("mutable ") else t
    m = re.match(r"[\w:]+", t2)
    if not m:
        fail("%s: unrecognised declaration %r" % (what, t))
    k = m.end()
    if k < len(t2) and t2[k] == "<":
        depth = 0
        while k < len(t2):
            if t2[k] == "<":
                depth += 1
            elif t2[k] == ">":
                depth -= 1
                if depth == 0:
                    break
            k += 1
        k += 1
    ty = t2[:k]
    decls = t2[k:].strip()
    if not decls:
        fail("%s: unrecognised declaration %r" % (what, t))
    kind, atomic = classify_type(ty, what)
    for d in split_top(decls, ","):
        d = d.strip()
        mm = re.fullmatch(r"(\w+)(?: ?= ?[\w]+|\{[\w{},]*\})?", d)
        if not mm:
            fail("%s: unrecognised declarator %r in %r" % (what, d, t))
        name = mm.group(1)
        if name in cls.fields:
            fail("%s: member %s declared twice" % (what, name))
        cls.fields[name] = (ty, kind, atomic)
        cls.order.append(name)


def split_top(s, sep, angle=True):
    out, depth, cur = [], 0, []
    for ch in s:
        if ch in ("([{<" if angle else "([{"):
            depth += 1
        elif ch in (")]}>" if angle else ")]}"):
            depth -= 1
        if ch == sep and depth == 0:
            out.append("".join(cur))
            cur = []
        else:
            cur.append(ch)
    out.append("".join(cur))
    return out


def parse_method_head(head, what):
    """`RET NAME(PARAMS) [const]` -> (name, [param names])"""
    h = norm(head)
    m = re.fullmatch(r"(?:[\w:<>,&]+ )?([\w:~]+)\((.*)\)( ?const)?", h)
    if not m:
        fail("%s: unrecognised method head %r" % (what, h))
    params = []
    if m.group(2).strip():
        for p in split_top(m.group(2), ","):
            pm = re.fullmatch(r"(?:const )?[\w:]+(?:<.*>)?&? ?(\w+)", p.strip())
            if not pm:
                fail("%s: unrecognised parameter %r" % (what, p))
            params.append(pm.group(1))
    return m.group(1), params


def parse_class(src, decl_rx, name, what):
    m = re.search(decl_rx + r"\s*\{", src)
    if not m:
        fail("%s: class %s not found" % (what, name))
    i = m.end() - 1
    j = match_close(src, i, what)
    if not re.match(r"\s*;", src[j + 1:]):
        fail("%s: class %s: no `;` after the closing brace" % (what, name))
    cls = Cls(name)
    for mem in split_members(src[i + 1:j], what + " class " + name):
        if mem[0] == "decl":
            parse_decl(cls, mem[1], what + " class " + name)
        else:
            mname, params = parse_method_head(mem[1], what + " class " + name)
            if mname in cls.methods:
                fail("%s: %s::%s defined twice (overloads are not supported)" % (what, name, mname))
            cls.methods[mname] = (params, mem[2])
            cls.morder.append(mname)
    return cls, (m.start(), src.index(";", j) + 1)


# ------------------------------------------------------------------------------------ method bodies

LIB_NAMES = {"std", "lock_guard", "move", "true", "false", "u16", "u32", "bool", "auto", "IrqBits", "const", "this",
             "return", "if", "else", "for"}
MEMBER_FUNCS = {"to_ulong", "size", "exchange"}
DECL_TYPES = {"bool", "u16", "u32", "auto", "IrqBits", "auto&", "const auto&"}


class Analyzer:
    """Accesses and calls of one method body.

    ctx: cls (name of the class whose members bare identifiers / `this->` refer to), fields {member: (ty, kind,
    atomic)} of that class, methods (names of its methods), impl (None | (class name, fields, methods) that
    `impl->` refers to), elems {array member: element class name}, classes {name: Cls} for element calls."""

    def __init__(self, qual, ctx, params, what):
        self.qual = qual
        self.ctx = ctx
        self.what = what
        self.locals = [dict((p, None) for p in params)]     # name -> class name if it is a reference to an element
        self.locks = []
        self.accesses = []
        self.calls = []
        self.acquires = []

    # -- scopes
    def is_local(self, name):
        return any(name in s for s in self.locals)

    def local_cls(self, name):
        for s in reversed(self.locals):
            if name in s:
                return s[name]
        return None

    # -- recording
    def acc(self, owner, member, write):
        ty, kind, atomic = owner.fields[member]
        if kind in ("mutex", "recursive_mutex"):
            fail("%s: mutex %s used outside a std::lock_guard" % (self.what, member))
        if kind == "object":
            return                       # indexing an array of sub-objects: address arithmetic, no memory access
        a = {"method": self.qual, "field": owner.name + "." + member, "write": write, "locks": list(self.locks),
             "atomic": atomic}
        if a not in self.accesses:
            self.accesses.append(a)

    def call(self, kind, target):
        c = {"method": self.qual, "kind": kind, "target": target, "locks": list(self.locks)}
        if c not in self.calls:
            self.calls.append(c)

    # -- statements
    def block(self, text):
        self.locals.append({})
        nlocks = len(self.locks)
        i = 0
        text = text.strip()
        while i < len(text):
            i = self.statement(text, i)
            while i < len(text) and text[i].isspace():
                i += 1
        self.locals.pop()
        del self.locks[nlocks:]

    def statement(self, s, i):
        """Analyse the statement starting at s[i]; returns the index after it."""
        while s[i].isspace():
            i += 1
        if s[i] == "{":
            j = match_close(s, i, self.what)
            self.block(s[i + 1:j])
            return j + 1
        m = re.match(r"(if|for)\s*\(", s[i:])
        if m:
            p = i + m.end() - 1
            q = match_close(s, p, self.what)
            head = s[p + 1:q]
            if m.group(1) == "if":
                self.expr(head, False)
                k = self.sub_statement(s, q + 1)
                m2 = re.match(r"\s*else\b", s[k:])
                if m2:
                    k = self.sub_statement(s, k + m2.end())
                return k
            self.locals.append({})
            parts = split_top(head, ";", angle=False)
            if len(parts) == 3:
                self.simple(parts[0])
                self.expr(parts[1], False)
                self.expr(parts[2], False)
            elif len(parts) == 1 and ":" in head:
                var, rng = head.split(":", 1)
                vm = re.fullmatch(r"\s*(?:const )?auto&\s+(\w+)\s*", var)
                if not vm:
                    fail("%s: unrecognised range-for variable %r" % (self.what, var))
                self.locals[-1][vm.group(1)] = self.range_elem(rng.strip())
            else:
                fail("%s: unrecognised for header %r" % (self.what, head))
            k = self.sub_statement(s, q + 1)
            self.locals.pop()
            return k
        j = i
        depth = 0
        while j < len(s):
            if s[j] in "([{":
                j = match_close(s, j, self.what)
            elif s[j] == ";":
                break
            j += 1
        if j >= len(s):
            fail("%s: statement without `;`: %r" % (self.what, s[i:i + 60]))
        self.simple(s[i:j])
        return j + 1

    def sub_statement(self, s, i):
        """The body of an if/for: its locals and lock_guards are scoped to it."""
        self.locals.append({})
        nlocks = len(self.locks)
        k = self.statement(s, i)
        self.locals.pop()
        del self.locks[nlocks:]
        return k

    def range_elem(self, rng):
        """`for (auto& c : ARR)` - ARR has to be an array of a translated class."""
        t = tokens(rng, self.what)
        owner, member = None, None
        if len(t) == 1 and t[0] in self.ctx["fields"] and not self.is_local(t[0]):
            owner, member = self.ctx["cls"], t[0]
        elif len(t) == 3 and t[0] == "impl" and t[1] == "->" and self.ctx.get("impl") and t[2] in self.ctx["impl"].fields:
            owner, member = self.ctx["impl"], t[2]
        if owner is None or member not in self.ctx["elems"]:
            fail("%s: range-for over %r (not an array of a translated class)" % (self.what, rng))
        return self.ctx["elems"][member]

    def simple(self, text):
        t = text.strip()
        if not t:
            return
        m = re.fullmatch(r"return\b(.*)", t, re.S)
        if m:
            self.expr(m.group(1), False)
            return
        # a scope-long guard: std::lock_guard, or std::unique_lock / std::scoped_lock over ONE mutex that is never unlocked
        # or re-locked by hand (any `.unlock()` / `.lock()` / defer / try argument still fails below)
        m = re.fullmatch(r"std::(?:lock_guard|unique_lock|scoped_lock)(?:<[^>]*>)?\s+(\w+)\s*\(([^,()]*)\)", t, re.S)
        if m:
            self.locals[-1][m.group(1)] = None
            mu = self.mutex_of(m.group(2))
            q = {"method": self.qual, "lock": mu, "held": list(self.locks)}
            if q not in self.acquires:
                self.acquires.append(q)
            self.locks.append(mu)
            return
        if re.search(r"\b(lock_guard|unique_lock|scoped_lock|mutex|lock|unlock|try_lock)\b", t):
            fail("%s: locking construct %r is not a plain `std::lock_guard name(mutex);`" % (self.what, t))
        m = re.fullmatch(r"((?:const )?(?:bool|u16|u32|auto|IrqBits|std::size_t)&?)\s+(\w+)\s*(?:=(?!=)(.*)|\((.*)\))", t, re.S)
        if m:
            self.expr(m.group(3) if m.group(3) is not None else m.group(4), False)
            self.locals[-1][m.group(2)] = None
            return
        self.expr(t, True)

    def mutex_of(self, e):
        t = tokens(e, self.what)
        owner = None
        if len(t) == 1 and t[0] in self.ctx["fields"]:
            owner, member = self.ctx["cls"], t[0]
        elif len(t) == 3 and t[0] == "impl" and t[1] == "->" and self.ctx.get("impl") and t[2] in self.ctx["impl"].fields:
            owner, member = self.ctx["impl"], t[2]
        if owner is None or owner.fields[member][1] not in ("mutex", "recursive_mutex"):
            fail("%s: std::lock_guard on %r, which is not a mutex member" % (self.what, e))
        return owner.name + "." + member

    # -- expressions
    def expr(self, text, stmt):
        """Record the accesses of one expression.  `stmt`: it is an expression statement (an assignment or a call)."""
        t = tokens(text, self.what)
        if not t:
            return
        # top-level assignment?
        depth = 0
        at = None
        for k, tok in enumerate(t):
            if tok in "([{":
                depth += 1
            elif tok in ")]}":
                depth -= 1
            elif depth == 0 and tok in ("=", "|=", "&=", "^=", "+=", "-=", "*=", "/=", "%=", "<<=", ">>="):
                if at is not None:
                    fail("%s: chained assignment %r" % (self.what, text))
                at = k
        if at is not None:
            self.refs(t[:at], write=True, also_read=(t[at] != "="))
            self.refs(t[at + 1:], write=False)
        else:
            if stmt and "(" not in t and not (t[0] in ("++", "--") or t[-1] in ("++", "--")):
                fail("%s: expression statement without effect %r" % (self.what, text))
            if t[0] in ("++", "--") or t[-1] in ("++", "--"):
                inner = [x for x in t if x not in ("++", "--")]
                if len(inner) != 1 or not self.is_local(inner[0]):
                    fail("%s: ++/-- on something that is not a local: %r" % (self.what, text))
                return
            self.refs(t, write=False)

    def refs(self, t, write, also_read=False):
        """Walk a token list; `write`: the list is the left-hand side of an assignment (its base reference is
        written, everything inside its index brackets is read)."""
        i = 0
        n = len(t)
        first_ref = True
        while i < n:
            tok = t[i]
            if not re.fullmatch(r"[A-Za-z_]\w*", tok):
                i += 1
                continue
            prev = t[i - 1] if i > 0 else ""
            nxt = t[i + 1] if i + 1 < n else ""
            if prev == "::" or nxt == "::":
                if tok not in LIB_NAMES and tok not in ("lock_guard", "move", "size_t"):
                    fail("%s: unrecognised qualified name %r" % (self.what, tok))
                i += 1
                continue
            if prev == ".":
                fail("%s: unresolved member access .%s" % (self.what, tok))
            owner = None
            member = None
            j = i
            if tok in ("this", "impl") and nxt == "->":
                if tok == "this":
                    owner = self.ctx["cls"]
                else:
                    if self.is_local("impl") or not self.ctx.get("impl"):
                        fail("%s: `impl->` without a translated Impl class" % self.what)
                    owner = self.ctx["impl"]
                member = t[i + 2] if i + 2 < n else ""
                j = i + 2
                if owner is None or (member not in owner.fields and member not in owner.methods):
                    fail("%s: %s->%s is not a member of the translated class" % (self.what, tok, member))
            elif self.is_local(tok):
                lc = self.local_cls(tok)
                if nxt == "." and lc:
                    # method call on a reference to an element object
                    meth = t[i + 2] if i + 2 < n else ""
                    if meth not in self.ctx["classes"][lc].methods or (t[i + 3] if i + 3 < n else "") != "(":
                        fail("%s: %s.%s is not a call of a translated method" % (self.what, tok, meth))
                    self.call("method", lc + "." + meth)
                    i += 3
                    continue
                if nxt == ".":
                    meth = t[i + 2] if i + 2 < n else ""
                    fail("%s: member access %s.%s on a local" % (self.what, tok, meth))
                if write and first_ref:
                    if nxt == "[":
                        fail("%s: write through a local %r" % (self.what, tok))
                first_ref = False
                i += 1
                continue
            elif self.ctx["cls"] is not None and (tok in self.ctx["cls"].fields or tok in self.ctx["cls"].methods):
                owner = self.ctx["cls"]
                member = tok
            elif tok in LIB_NAMES:
                i += 1
                continue
            else:
                fail("%s: identifier %r does not resolve to a parameter, local, member or translated method"
                     % (self.what, tok))
            # owner.member at t[j]
            k = j + 1
            after = t[k] if k < n else ""
            if member in owner.methods and member not in owner.fields:
                if after != "(":
                    fail("%s: method %s used without a call" % (self.what, member))
                self.call("method", owner.name + "." + member)
                i = k
                first_ref = False
                continue
            ty, kind, atomic = owner.fields[member]
            # index
            if after == "[":
                depth = 0
                e = k
                while e < n:
                    if t[e] == "[":
                        depth += 1
                    elif t[e] == "]":
                        depth -= 1
                        if depth == 0:
                            break
                    e += 1
                self.refs(t[k + 1:e], write=False)
                k = e + 1
                after = t[k] if k < n else ""
                # second index (enabled[interrupt][irq])
                while after == "[":
                    depth = 0
                    e = k
                    while e < n:
                        if t[e] == "[":
                            depth += 1
                        elif t[e] == "]":
                            depth -= 1
                            if depth == 0:
                                break
                        e += 1
                    self.refs(t[k + 1:e], write=False)
                    k = e + 1
                    after = t[k] if k < n else ""
            is_lhs = write and first_ref
            first_ref = False
            if kind == "object":
                elem = self.ctx["elems"].get(member)
                if after != "." or elem is None:
                    fail("%s: array of objects %s used other than as %s[i].member" % (self.what, member, member))
                sub = t[k + 1] if k + 1 < n else ""
                ecls = self.ctx["classes"][elem]
                after2 = t[k + 2] if k + 2 < n else ""
                if sub in ecls.methods and after2 == "(":
                    self.call("method", elem + "." + sub)
                    i = k + 2
                    continue
                if sub in ecls.fields:
                    saved = self.ctx["cls"]
                    self.acc(ecls, sub, is_lhs)
                    if is_lhs and also_read:
                        self.acc(ecls, sub, False)
                    if ecls.fields[sub][1] == "callback" and after2 == "(":
                        self.call("callback", elem + "." + sub)
                    i = k + 2
                    continue
                fail("%s: %s[i].%s is not a member of %s" % (self.what, member, sub, elem))
            if after == ".":
                fn = t[k + 1] if k + 1 < n else ""
                if fn not in MEMBER_FUNCS or (t[k + 2] if k + 2 < n else "") != "(":
                    fail("%s: unrecognised member function %s.%s" % (self.what, member, fn))
                if fn == "exchange":
                    if not atomic:
                        fail("%s: exchange on a non-atomic member %s" % (self.what, member))
                    self.acc(owner, member, False)
                    self.acc(owner, member, True)
                else:
                    self.acc(owner, member, False)
                i = k + 2
                continue
            if kind == "callback" and after == "(":
                self.acc(owner, member, False)
                self.call("callback", owner.name + "." + member)
                i = k
                continue
            if is_lhs:
                self.acc(owner, member, True)
                if also_read:
                    self.acc(owner, member, False)
            else:
                self.acc(owner, member, False)
            i = k


def analyze(qual, ctx, params, body, what):
    a = Analyzer(qual, ctx, params, what)
    a.block(body)
    ACQ.extend(a.acquires)
    return a.accesses, a.calls


ACQ = []


# ------------------------------------------------------------------------------------ the files

def build(repo):
    fields, accesses, calls = [], [], []
    del ACQ[:]

    def add_fields(cls):
        for f in cls.order:
            ty, kind, atomic = cls.fields[f]
            fields.append({"name": cls.name + "." + f, "ty": ty, "kind": kind, "atomic": atomic})

    # ---- apbp.cpp
    what = "apbp.cpp"
    src = load(repo, "apbp.cpp")
    dc, span1 = parse_class(src, r"\bclass\s+DataChannel", "DataChannel", what)
    impl, span2 = parse_class(src, r"\bclass\s+Apbp::Impl", "Apbp", what)
    classes = {"DataChannel": dc, "Apbp": impl}
    elems = {}
    for f, (ty, kind, atomic) in impl.fields.items():
        if kind == "object":
            elems[f] = "DataChannel"
    add_fields(dc)
    add_fields(impl)
    ctx_dc = {"cls": dc, "fields": dc.fields, "impl": None, "elems": {}, "classes": classes}
    for mname in dc.morder:
        params, body = dc.methods[mname]
        a, c = analyze("DataChannel." + mname, ctx_dc, params, body, "%s DataChannel::%s" % (what, mname))
        accesses += a
        calls += c
    ctx_impl = {"cls": impl, "fields": impl.fields, "impl": None, "elems": elems, "classes": classes}
    impl_methods = {}
    for mname in impl.morder:
        params, body = impl.methods[mname]
        impl_methods["Impl::" + mname] = None
        a, c = analyze("Apbp.Impl::" + mname, ctx_impl, params, body, "%s Apbp::Impl::%s" % (what, mname))
        accesses += a
        calls += c
    # out-of-class Apbp:: methods: the rest of the file
    rest = src[:span1[0]] + src[span1[1]:span2[0]] + src[span2[1]:]
    rest = re.sub(r"\bnamespace\s+Teakra\s*\{", "", rest, count=1)
    rest = rest.rstrip()
    if not rest.endswith("}"):
        fail("%s: namespace does not close at the end of the file" % what)
    rest = rest[:-1]
    outer = Cls("Apbp")                  # `impl->X` members; bare identifiers resolve to nothing
    outer.fields = {}
    outer.methods = {}
    # impl->Reset() is a call of Impl::Reset
    implview = Cls("Apbp")
    implview.fields = impl.fields
    implview.methods = dict(("Impl::" + m if False else m, v) for m, v in impl.methods.items())
    apbp_methods = []
    for mem in split_members(rest, what):
        if mem[0] == "decl":
            t = norm(mem[1])
            if t.replace(" ", "") == "Apbp::~Apbp()=default":
                continue
            fail("%s: unrecognised top-level declaration %r" % (what, t))
        head = norm(mem[1])
        if head.replace(" ", "") == "Apbp::Apbp():impl(newImpl)":
            if mem[2].strip():
                fail("%s: Apbp::Apbp() has a body" % what)
            continue
        mname, params = parse_method_head(mem[1], what)
        if not mname.startswith("Apbp::"):
            fail("%s: unrecognised function %r" % (what, mname))
        short = mname[len("Apbp::"):]
        ctx = {"cls": outer, "fields": {}, "impl": implview, "elems": elems, "classes": classes}
        a, c = analyze("Apbp." + short, ctx, params, mem[2], "%s %s" % (what, mname))
        for x in c:                          # impl->Reset() resolves to Impl::Reset
            if x["kind"] == "method" and x["target"].startswith("Apbp.") and x["target"][5:] in impl.methods:
                x["target"] = "Apbp.Impl::" + x["target"][5:]
        accesses += a
        calls += c
        apbp_methods.append(short)

    # ---- icu.h
    what = "icu.h"
    src = load(repo, "icu.h")
    icu, span = parse_class(src, r"\bclass\s+ICU", "ICU", what)
    leftover = norm(src[:span[0]] + src[span[1]:])
    if leftover not in ("namespace Teakra{}", "namespace Teakra {}"):
        fail("%s: text outside class ICU: %r" % (what, leftover[:80]))
    add_fields(icu)
    ctx_icu = {"cls": icu, "fields": icu.fields, "impl": None, "elems": {}, "classes": {"ICU": icu}}
    for mname in icu.morder:
        params, body = icu.methods[mname]
        a, c = analyze("ICU." + mname, ctx_icu, params, body, "%s ICU::%s" % (what, mname))
        accesses += a
        calls += c

    # ---- interpreter.h: the atomics
    what = "interpreter.h"
    src = load(repo, "interpreter.h")
    if re.search(r"\b(mutex|lock_guard|unique_lock|scoped_lock)\b", src):
        fail("%s: a mutex appears in the interpreter - not modelled" % what)
    interp = Cls("Interpreter")
    # the latches are the members the two Signal… methods touch; find their declarations (atomic or not)
    latch_names = []
    for mname in ("SignalInterrupt", "SignalVectoredInterrupt", "Reset"):
        m = re.search(r"\bvoid\s+%s\s*\(([^)]*)\)\s*\{" % mname, src)
        if not m:
            if mname == "Reset":
                continue        # the pinned upstream interpreter had no Reset
            fail("%s: %s not found" % (what, mname))
        j = match_close(src, m.end() - 1, what)
        _, params = parse_method_head("void %s(%s)" % (mname, m.group(1)), what)
        for tok in tokens(src[m.end():j], what):
            if re.fullmatch(r"[A-Za-z_]\w*", tok) and tok not in params and tok not in LIB_NAMES and tok not in latch_names:
                latch_names.append(tok)
    TY = r"(?:std::array<)?(?:std::atomic<(?:bool|u16|u32)>|bool|u16|u32)(?:,\s*\d+>)?"
    for name in latch_names:
        ms = list(re.finditer(r"^\s*(%s)\s+%s\s*(\{[^;]*\}|=[^;]*)?;" % (TY, name), src, re.M))
        if len(ms) != 1:
            fail("%s: %d declarations found for %s (used by SignalInterrupt/SignalVectoredInterrupt)" % (what, len(ms), name))
        ty = norm(ms[0].group(1))
        if not ty.startswith("std::a"):
            ty = ty
        kind, atomic = classify_type(ty, what) if "atomic" in ty else ("data", False)
        interp.fields[name] = (ty, kind, atomic)
        interp.order.append(name)
    for m in re.finditer(r"^\s*((?:std::array<)?std::atomic<[^;=]*?>(?:,\s*\d+>)?)\s+(\w+)\s*(\{[^;]*\})?;", src, re.M):
        if m.group(2) not in interp.fields:
            fail("%s: atomic member %s is not written by SignalInterrupt/SignalVectoredInterrupt - not modelled" % (what, m.group(2)))
    if len(re.findall(r"std::atomic", src)) != sum(1 for f in interp.order if interp.fields[f][2]):
        fail("%s: %d occurrences of std::atomic but %d recognised atomic members"
             % (what, len(re.findall(r"std::atomic", src)), sum(1 for f in interp.order if interp.fields[f][2])))
    interp.order.sort(key=lambda f: src.index(f))
    add_fields(interp)
    ctx_in = {"cls": interp, "fields": interp.fields, "impl": None, "elems": {}, "classes": {"Interpreter": interp}}
    covered = []
    for mname in ("SignalInterrupt", "SignalVectoredInterrupt", "Reset"):
        m = re.search(r"\bvoid\s+%s\s*\(([^)]*)\)\s*\{" % mname, src)
        if not m:
            if mname == "Reset":
                continue        # the pinned upstream interpreter had no Reset
            fail("%s: %s not found" % (what, mname))
        j = match_close(src, m.end() - 1, what)
        _, params = parse_method_head("void %s(%s)" % (mname, m.group(1)), what)
        a, c = analyze("Interpreter." + mname, ctx_in, params, src[m.end():j], "%s Interpreter::%s" % (what, mname))
        accesses += a
        calls += c
        covered.append((m.start(), j))
    m = re.search(r"\bvoid\s+Run\s*\(\s*u64\s+cycles\s*\)\s*\{", src)
    if not m:
        fail("%s: Run(u64 cycles) not found" % what)
    j = match_close(src, m.end() - 1, what)
    run_body = src[m.end():j]
    covered.append((m.start(), j))
    run_acc = []

    def racc(f, write):
        a = {"method": "Interpreter.Run", "field": "Interpreter." + f, "write": write, "locks": [], "atomic": interp.fields[f][2]}
        if a not in run_acc:
            run_acc.append(a)
    names = "|".join(interp.order)
    for mm in re.finditer(r"\b(%s)\b" % names, run_body):
        f = mm.group(1)
        tail = run_body[mm.end():mm.end() + 40]
        headtxt = run_body[max(0, mm.start() - 40):mm.start()]
        if re.match(r"(\[\w+\])?\.exchange\(false\)", tail):
            racc(f, False)
            racc(f, True)
        elif re.match(r"(\[\w+\])?\s*=\s*(false|true)\s*;", tail):
            racc(f, True)                                   # `latch = false;`
        elif re.search(r"=\s*$", headtxt) and re.match(r"\s*;", tail):
            racc(f, False)                                  # `x = latch;`
        elif re.search(r"\bif\s*\(\s*$", headtxt) and re.match(r"\s*\)", tail):
            racc(f, False)                                  # `if (latch)`
        elif re.search(r"(\(|&&|\|\||!)\s*$", headtxt) and re.match(r"(\[\w+\])?\s*(&&|\|\||\))", tail):
            racc(f, False)                                  # a load inside a condition: `... && !latch[0] && ...`
        else:
            fail("%s: Run uses %s in an unrecognised way: %r" % (what, f, (headtxt[-20:] + f + tail[:20])))
    accesses += run_acc
    # the latches must not be touched anywhere else
    for mm in re.finditer(r"\b(%s)\b" % names, src):
        if any(a <= mm.start() <= b for a, b in covered):
            continue
        line = src[src.rfind("\n", 0, mm.start()) + 1:src.find("\n", mm.end())]
        if re.search(r"^\s*(%s)\s+%s\b" % (TY, mm.group(1)), line):
            continue
        fail("%s: latch %s is used outside Run / SignalInterrupt / SignalVectoredInterrupt: %r"
             % (what, mm.group(1), line.strip()))

    # ---- processor.cpp: forwarders
    what = "processor.cpp"
    src = norm(load(repo, "processor.cpp"))
    for meth, args in (("Run", "cycles"), ("SignalInterrupt", "i"), ("SignalVectoredInterrupt", "address,context_switch")):
        rx = r"void Processor::%s\([^)]*\)\{impl->interpreter\.%s\(%s\);\}" % (meth, meth, args)
        if not re.search(rx, src):
            fail("%s: Processor::%s is not a plain forwarder to the interpreter" % (what, meth))
        calls.append({"method": "Processor." + meth, "kind": "method", "target": "Interpreter." + meth, "locks": []})
    nfw = 3
    # Processor::Reset may additionally clear the interpreter's latches (init-only API, never concurrent with Run)
    if re.search(r"void Processor::Reset\(\)\{impl->regs ?= ?RegisterState\(\);impl->interpreter\.Reset\(\);\}", src):
        calls.append({"method": "Processor.Reset", "kind": "method", "target": "Interpreter.Reset", "locks": []})
        nfw = 4
    if src.count("impl->interpreter.") != nfw:
        fail("%s: the interpreter is used outside the recognised forwarders" % what)

    # ---- teakra.cpp
    entries, wiring, objects = parse_teakra(repo, {"Apbp": set(apbp_methods), "ICU": set(icu.morder),
                                                    "Processor": {"Run", "Reset", "SignalInterrupt", "SignalVectoredInterrupt",
                                                                  "GetRegisterState"}})
    # ---- mmio.cpp
    m_entries, direct = parse_mmio(repo, {"Apbp": set(apbp_methods), "ICU": set(icu.morder)}, icu)
    entries += m_entries
    e2 = []
    for e in entries:
        if e not in e2:
            e2.append(e)
    entries = e2

    # every call target / access field exists
    fnames = {f["name"] for f in fields}
    mnames = {a["method"] for a in accesses} | {c["method"] for c in calls} | \
             {"DataChannel." + m for m in dc.morder} | {"Apbp.Impl::" + m for m in impl.morder} | \
             {"Apbp." + m for m in apbp_methods} | {"ICU." + m for m in icu.morder} | {"Interpreter.Run"}
    for a in accesses:
        if a["field"] not in fnames:
            fail("internal: access to undeclared field %s" % a["field"])
    for c in calls:
        if c["kind"] == "method" and c["target"] not in mnames:
            fail("internal: call of unknown method %s" % c["target"])
        if c["kind"] == "callback" and c["target"] not in fnames:
            fail("internal: call of unknown callback %s" % c["target"])
    for e in entries:
        if e["method"] not in mnames and not e["method"].startswith("Processor."):
            fail("internal: entry %s reaches unknown method %s" % (e["name"], e["method"]))
    methods = sorted(mnames)
    return {"fields": fields, "accesses": accesses, "calls": calls, "acquires": list(ACQ), "direct": direct,
            "entries": entries, "wiring": wiring, "objects": objects, "methods": methods}


TRACKED = ("icu", "apbp_from_cpu", "apbp_from_dsp", "processor")


def check_covered(text, spans, names, what):
    for m in re.finditer(r"\b(%s)\b" % "|".join(names), text):
        if not any(a <= m.start() and m.end() <= b for a, b in spans):
            fail("%s: `%s` is used in an unrecognised way: %r" % (what, m.group(1), text[max(0, m.start() - 50):m.end() + 50]))


def parse_teakra(repo, methods):
    what = "teakra.cpp"
    src = norm(load(repo, "teakra.cpp"))
    spans = []
    entries, wiring = [], []
    objects = []

    def take(rx, required=True):
        ms = list(re.finditer(rx, src))
        if required and not ms:
            fail("%s: expected %r" % (what, rx))
        for m in ms:
            spans.append((m.start(), m.end()))
        return ms
    take(r"\bICU icu;")
    objects.append(("icu", "ICU"))
    take(r"\bApbp apbp_from_cpu, ?apbp_from_dsp;")
    objects += [("apbp_from_cpu", "Apbp"), ("apbp_from_dsp", "Apbp")]
    take(r"\bProcessor processor\{core_timing, ?memory_interface\};")
    objects.append(("processor", "Processor"))
    take(r"\bMMIORegion mmio\{miu, ?icu, ?apbp_from_cpu, ?apbp_from_dsp, ?timer, ?dma, ?ahbm, ?btdmp\};")
    ms = take(r"icu\.SetInterruptHandler\(std::bind\(&Processor::(\w+), ?&processor, ?_1\), ?"
              r"std::bind\(&Processor::(\w+), ?&processor, ?_1, ?_2\)\);")
    if len(ms) != 1:
        fail("%s: icu.SetInterruptHandler is called %d times" % (what, len(ms)))
    wiring.append({"obj": "icu", "field": "ICU.on_interrupt", "targetObj": "processor",
                   "targetMethod": "Processor." + ms[0].group(1)})
    wiring.append({"obj": "icu", "field": "ICU.on_vectored_interrupt", "targetObj": "processor",
                   "targetMethod": "Processor." + ms[0].group(2)})
    for m in take(r"(\w+)(\[\d\])?\.Set(Interrupt|Data|Semaphore)Handler\((?:(\d), ?)?\[this\]\(\) ?\{ ?icu\.(\w+)\((0x[0-9A-Fa-f]+)\); ?\}\);"):
        obj, idx, kind, ch, meth, arg = m.groups()
        if meth not in methods["ICU"]:
            fail("%s: handler calls unknown ICU::%s" % (what, meth))
        if obj in ("apbp_from_cpu", "apbp_from_dsp"):
            if kind == "Data":
                wiring.append({"obj": obj, "field": "DataChannel.handler", "targetObj": "icu", "targetMethod": "ICU." + meth})
            elif kind == "Semaphore":
                wiring.append({"obj": obj, "field": "Apbp.semaphore_handler", "targetObj": "icu", "targetMethod": "ICU." + meth})
            else:
                fail("%s: %s.SetInterruptHandler" % (what, obj))
        elif obj in TRACKED:
            fail("%s: unexpected handler installation on %s" % (what, obj))
        else:
            entries.append({"origin": "peripheral", "name": "%s%s interrupt handler -> icu.%s(%s)" % (obj, idx or "", meth, arg),
                            "obj": "icu", "method": "ICU." + meth})
    for o in ("apbp_from_cpu", "apbp_from_dsp"):
        chans = sorted(m.group(4) for m in re.finditer(
            r"(\w+)(\[\d\])?\.Set(Interrupt|Data|Semaphore)Handler\((?:(\d), ?)?\[this\]", src) if m.group(1) == o and m.group(3) == "Data")
        if chans and chans != ["0", "1", "2"]:
            fail("%s: %s data handlers are installed for channels %s, not for 0,1,2" % (what, o, chans))
        targets = {(w["targetObj"], w["targetMethod"]) for w in wiring if w["obj"] == o and w["field"] == "DataChannel.handler"}
        if len(targets) > 1:
            fail("%s: %s data channels are wired to different targets" % (what, o))
    # de-duplicate the three identical data-channel wires
    w2 = []
    for w in wiring:
        if w not in w2:
            w2.append(w)
    wiring = w2
    # Impl::Reset
    m = re.search(r"void Reset\(\) ?\{(.*?)\}", src)
    if not m:
        fail("%s: Impl::Reset not found" % what)
    for mm in re.finditer(r"\b(apbp_from_cpu|apbp_from_dsp|processor|icu)\.(\w+)\(\);", m.group(1)):
        if mm.group(2) != "Reset":
            fail("%s: Impl::Reset calls %s.%s" % (what, mm.group(1), mm.group(2)))
        spans.append((m.start(1) + mm.start(), m.start(1) + mm.end()))
        cls = dict(objects)[mm.group(1)]
        entries.append({"origin": "teakra", "name": "Teakra::Reset", "obj": mm.group(1), "method": cls + ".Reset"})
    # host API
    for m in re.finditer(r"\bTeakra::(\w+)\(", src):
        pe = match_close(src, m.end() - 1, what)
        m3 = re.match(r"( ?const)? ?(:[^{]*)?\{", src[pe + 1:])
        if not m3:
            fail("%s: Teakra::%s is not a function definition" % (what, m.group(1)))
        i = pe + m3.end()
        j = match_close(src, i, what)
        body = src[i + 1:j]
        for mm in re.finditer(r"\b(%s)\b" % "|".join(TRACKED), body):
            tail = body[mm.end():]
            head = body[:mm.start()]
            m2 = re.match(r"\.(\w+)\(", tail)
            if not m2 or not head.endswith("impl->"):
                fail("%s: Teakra::%s uses %s in an unrecognised way" % (what, m.group(1), mm.group(1)))
            cls = dict(objects)[mm.group(1)]
            if m2.group(1) not in methods[cls]:
                fail("%s: Teakra::%s calls unknown %s::%s" % (what, m.group(1), cls, m2.group(1)))
            entries.append({"origin": "teakra", "name": "Teakra::" + m.group(1), "obj": mm.group(1),
                            "method": cls + "." + m2.group(1)})
            spans.append((i + 1 + mm.start(), i + 1 + mm.end()))
    check_covered(src, spans, TRACKED, what)
    # entries in source order of appearance is not important; keep host API first
    return entries, wiring, [list(o) for o in objects]


REFCELL = norm("""static Cell RefCell(u16& var) {
        Cell cell({}, {});
        cell.set = [&var](u16 value) { var = value; };
        cell.get = [&var]() -> u16 { return var; };
        return cell;
    }""")
REFSLOT_BODY = norm("""BitFieldSlot slot{pos, length, {}, {}};
        slot.set = [&var](u16 value) { var = static_cast<T>(value); };
        slot.get = [&var]() -> u16 { return static_cast<u16>(var); };
        return slot;""")


def parse_mmio(repo, methods, icu):
    what = "mmio.cpp"
    src = norm(load(repo, "mmio.cpp"))
    if REFCELL not in src:
        fail("%s: Cell::RefCell is not the pinned `set: var = value; get: return var;`" % what)
    if REFSLOT_BODY not in src:
        fail("%s: BitFieldSlot::RefSlot is not the pinned direct accessor pair" % what)
    names = ("icu", "apbp_from_cpu", "apbp_from_dsp")
    cls_of = {"icu": "ICU", "apbp_from_cpu": "Apbp", "apbp_from_dsp": "Apbp"}
    spans = []
    entries, direct = [], []
    for m in re.finditer(r"MMIORegion::MMIORegion\(MemoryInterfaceUnit& miu, ?ICU& icu, ?Apbp& apbp_from_cpu, ?Apbp& apbp_from_dsp,", src):
        spans.append((m.start(), m.end()))
    if not spans:
        fail("%s: MMIORegion constructor signature not recognised" % what)

    def enclosing_cell(pos):
        best = None
        for m in re.finditer(r"impl->cells\[([^\]]+)\] ?= ?Cell::BitFieldCell\(\{", src[:pos]):
            best = m
        if best is None:
            fail("%s: slot at %d is not inside a BitFieldCell" % (what, pos))
        close = match_close(src, best.end() - 2, what)
        if close < pos:
            fail("%s: slot at %d is not inside a BitFieldCell" % (what, pos))
        return best.group(1).strip()

    # std::bind cells
    for m in re.finditer(r"impl->cells\[([^\]]+)\]\.(set|get) ?= ?std::bind\(&(\w+)::(\w+), ?&(\w+)((?:, ?\w+)*)\);", src):
        cell, acc, cls, meth, obj, args = m.groups()
        if obj not in names:
            continue
        if cls_of[obj] != cls or meth not in methods[cls]:
            fail("%s: cells[%s].%s binds unknown %s::%s on %s" % (what, cell, acc, cls, meth, obj))
        entries.append({"origin": "mmio", "name": "cells[%s].%s" % (cell.strip(), acc), "obj": obj, "method": cls + "." + meth})
        spans.append((m.start(), m.end()))
    # lambda slots
    for m in re.finditer(r"\[&(\w+)\]\((u16 v)?\)(?: ?-> ?u16)? ?\{ ?return \1\.(\w+)\(([\w, ]*)\); ?\}", src):
        obj, setter, meth, args = m.groups()
        if obj not in names:
            continue
        cls = cls_of[obj]
        if meth not in methods[cls]:
            fail("%s: slot lambda calls unknown %s::%s" % (what, cls, meth))
        cell = enclosing_cell(m.start())
        sm = None
        for sm_ in re.finditer(r"BitFieldSlot\{(\d+), ?(\d+),", src[:m.start()]):
            sm = sm_
        entries.append({"origin": "mmio", "name": "cells[%s] slot{%s,%s}.%s" % (cell, sm.group(1), sm.group(2), "set" if setter else "get"),
                        "obj": obj, "method": cls + "." + meth})
        spans.append((m.start(), m.end()))
    # std::bind slots: BitFieldSlot{pos, len, std::bind(&C::Set, &obj, ...), std::bind(&C::Get, &obj, ...)}
    for m in re.finditer(r"BitFieldSlot\{(\d+), ?(\d+), ?std::bind\(&(\w+)::(\w+), ?&(\w+)((?:, ?\w+)*)\), ?"
                         r"std::bind\(&(\w+)::(\w+), ?&(\w+)((?:, ?\w+)*)\)\}", src):
        pos, ln, c1, m1, o1, _a1, c2, m2, o2, _a2 = m.groups()
        if o1 not in names and o2 not in names:
            continue
        for acc, cls, meth, obj in (("set", c1, m1, o1), ("get", c2, m2, o2)):
            if obj not in names or cls_of[obj] != cls or meth not in methods[cls]:
                fail("%s: slot{%s,%s}.%s binds unknown %s::%s on %s" % (what, pos, ln, acc, cls, meth, obj))
            entries.append({"origin": "mmio", "name": "cells[%s] slot{%s,%s}.%s" % (enclosing_cell(m.start()), pos, ln, acc),
                            "obj": obj, "method": cls + "." + meth})
        spans.append((m.start(), m.end()))
    # direct references
    for m in re.finditer(r"BitFieldSlot::RefSlot\((\d+), ?(\d+), ?(\w+)\.(\w+)\[i\]\)", src):
        pos, ln, obj, f = m.groups()
        if obj not in names:
            continue
        if obj != "icu" or f not in icu.fields:
            fail("%s: RefSlot on unknown %s.%s" % (what, obj, f))
        direct.append({"cell": "cells[%s] slot{%s,%s}" % (enclosing_cell(m.start()), pos, ln), "obj": obj, "field": "ICU." + f})
        spans.append((m.start(), m.end()))
    for m in re.finditer(r"impl->cells\[([^\]]+)\] ?= ?Cell::RefCell\((\w+)\.(\w+)\[i\]\);", src):
        cell, obj, f = m.groups()
        if obj not in names:
            continue
        if obj != "icu" or f not in icu.fields:
            fail("%s: RefCell on unknown %s.%s" % (what, obj, f))
        direct.append({"cell": "cells[%s]" % cell.strip(), "obj": obj, "field": "ICU." + f})
        spans.append((m.start(), m.end()))
    check_covered(src, spans, names, what)
    return entries, direct


# ------------------------------------------------------------------------------------ output

def code(s):
    """A name as the table carries it: the big-endian base-256 number of its UTF-8 bytes (the Lean side writes
    the same number as `n% "..."`).  The Lean kernel compares numbers in one step but strings byte by byte."""
    return int.from_bytes(s.encode("utf-8"), "big")


def lean_name(s):
    return "0x%x" % code(s) if s else "0"


def lean_bool(b):
    return "true" if b else "false"


def lean_names(xs):
    return "[" + ", ".join(lean_name(x) for x in xs) + "]"


def rows(items, fmt, comment):
    out = []
    for k, it in enumerate(items):
        out.append("  %s%s  -- %s" % (fmt(it), "," if k + 1 < len(items) else "]", comment(it)))
    if not items:
        out.append("  ]")
    return "\n".join(out)


def emit_lean(data, namespace, origin):
    L = ["import TeakraModel.LockTypes",
         "/-! GENERATED by tools/translate_locks.py from %s - do not edit.  %d fields, %d accesses, %d call sites, "
         "%d entries.\nEvery name is the number `n%% \"name\"` (big-endian UTF-8 bytes); the comment at the end of each row is "
         "the readable form. -/" % (origin, len(data["fields"]), len(data["accesses"]), len(data["calls"]), len(data["entries"])),
         "set_option maxRecDepth 100000",
         "namespace " + namespace, "open Teakra.Lock", ""]
    lk = lambda ls: "[" + ", ".join(ls) + "]"
    L.append("def fields : List FieldDecl := [")
    L.append(rows(data["fields"],
                  lambda f: "⟨%s, %s, %s, %s⟩" % (lean_name(f["name"]), lean_name(f["ty"]), lean_name(f["kind"]), lean_bool(f["atomic"])),
                  lambda f: "%s : %s (%s%s)" % (f["name"], f["ty"], f["kind"], ", atomic" if f["atomic"] else "")))
    L.append("")
    L.append("def accesses : List Access := [")
    L.append(rows(data["accesses"],
                  lambda a: "⟨%s, %s, %s, %s, %s⟩" % (lean_name(a["method"]), lean_name(a["field"]), lean_bool(a["write"]),
                                                    lean_names(a["locks"]), lean_bool(a["atomic"])),
                  lambda a: "%s %s %s under %s%s" % (a["method"], "writes" if a["write"] else "reads", a["field"], lk(a["locks"]),
                                                     " (atomic)" if a["atomic"] else "")))
    L.append("")
    L.append("def calls : List CallSite := [")
    L.append(rows(data["calls"],
                  lambda c: "⟨%s, %s, %s, %s⟩" % (lean_name(c["method"]), lean_name(c["kind"]), lean_name(c["target"]), lean_names(c["locks"])),
                  lambda c: "%s calls %s %s under %s" % (c["method"], c["kind"], c["target"], lk(c["locks"]))))
    L.append("")
    L.append("def acquires : List Acquire := [")
    L.append(rows(data["acquires"],
                  lambda q: "⟨%s, %s, %s⟩" % (lean_name(q["method"]), lean_name(q["lock"]), lean_names(q["held"])),
                  lambda q: "%s: std::lock_guard on %s while holding %s" % (q["method"], q["lock"], lk(q["held"]))))
    L.append("")
    L.append("def direct : List Direct := [")
    L.append(rows(data["direct"],
                  lambda d: "⟨%s, %s, %s⟩" % (lean_name(d["cell"]), lean_name(d["obj"]), lean_name(d["field"])),
                  lambda d: "%s is a direct reference to %s.%s" % (d["cell"], d["obj"], d["field"])))
    L.append("")
    L.append("def entries : List Entry := [")
    L.append(rows(data["entries"],
                  lambda e: "⟨%s, %s, %s, %s⟩" % (lean_name(e["origin"]), lean_name(e["name"]), lean_name(e["obj"]), lean_name(e["method"])),
                  lambda e: "%s: %s -> %s.%s" % (e["origin"], e["name"], e["obj"], e["method"])))
    L.append("")
    L.append("def wiring : List Wire := [")
    L.append(rows(data["wiring"],
                  lambda w: "⟨%s, %s, %s, %s⟩" % (lean_name(w["obj"]), lean_name(w["field"]), lean_name(w["targetObj"]), lean_name(w["targetMethod"])),
                  lambda w: "%s.%s = %s.%s" % (w["obj"], w["field"], w["targetObj"], w["targetMethod"])))
    L.append("")
    L.append("def objects : List (Name × Name) := [" + ", ".join("(%s, %s)" % (lean_name(o[0]), lean_name(o[1])) for o in data["objects"]) +
             "]  -- " + ", ".join("%s : %s" % (o[0], o[1]) for o in data["objects"]))
    L.append("")
    L.append("def table : LockTable := ⟨fields, accesses, calls, acquires, direct, entries, wiring, objects⟩")
    L.append("")
    L.append("end " + namespace)
    return "\n".join(L) + "\n"


def write_if_changed(path, text):
    os.makedirs(os.path.dirname(path), exist_ok=True)
    if os.path.exists(path) and open(path).read() == text:
        return False
    with open(path + ".tmp", "w") as f:
        f.write(text)
    os.replace(path + ".tmp", path)
    return True


def stats(data):
    return {"fields": len(data["fields"]), "accesses": len(data["accesses"]), "call_sites": len(data["calls"]),
            "direct_mmio_fields": len(data["direct"]), "lock_guards": len(data["acquires"]), "entries": len(data["entries"]), "wires": len(data["wiring"]),
            "locked_accesses": sum(1 for a in data["accesses"] if a["locks"]),
            "atomic_accesses": sum(1 for a in data["accesses"] if a["atomic"])}


def translate(repo, out_root=ROOT, golden=False):
    data = build(repo)
    changed = []
    gen = os.path.join(out_root, "lean", "TeakraModel", "Generated", "LockTable.lean")
    if write_if_changed(gen, emit_lean(data, "Teakra.Lock", "src/apbp.cpp, icu.h, interpreter.h, processor.cpp, teakra.cpp, mmio.cpp")):
        changed.append(gen)
    js = os.path.join(out_root, ".build", "gen", "lock_table.json")
    if write_if_changed(js, json.dumps(data, indent=0, sort_keys=True) + "\n"):
        changed.append(js)
    if golden:
        g = os.path.join(out_root, "lean", "TeakraModel", "Golden", "LockTable.lean")
        if write_if_changed(g, emit_lean(data, "Teakra.Lock.Golden", "the pinned src/apbp.cpp, icu.h, interpreter.h, processor.cpp, "
                                         "teakra.cpp, mmio.cpp (snapshot)")):
            changed.append(g)
        gj = os.path.join(out_root, "lean", "TeakraModel", "Golden", "lock_table.json")
        if write_if_changed(gj, json.dumps(data, indent=0, sort_keys=True) + "\n"):
            changed.append(gj)
    return data, changed


def restore_golden(out_root=ROOT):
    data = json.load(open(os.path.join(out_root, "lean", "TeakraModel", "Golden", "lock_table.json")))
    changed = []
    for path, text in (
            (os.path.join(out_root, "lean", "TeakraModel", "Generated", "LockTable.lean"),
             emit_lean(data, "Teakra.Lock", "src/apbp.cpp, icu.h, interpreter.h, processor.cpp, teakra.cpp, mmio.cpp")),
            (os.path.join(out_root, ".build", "gen", "lock_table.json"), json.dumps(data, indent=0, sort_keys=True) + "\n")):
        if write_if_changed(path, text):
            changed.append(path)
    return data, changed


def main():
    ap = argparse.ArgumentParser()
    ap.add_argument("--repo", default=os.environ.get("VERIF_REPO", "/repo"))
    ap.add_argument("--out", default=ROOT)
    ap.add_argument("--golden", action="store_true", help="also rewrite the committed Golden/ snapshot")
    ap.add_argument("--dump", action="store_true")
    a = ap.parse_args()
    try:
        data, changed = translate(a.repo, a.out, a.golden)
    except TranslateError as e:
        print("translate_locks: " + str(e), file=sys.stderr)
        return 2
    if a.dump:
        print(json.dumps(data, indent=1))
    print(json.dumps({"stats": stats(data), "changed": changed}))
    return 0


if __name__ == "__main__":
    sys.exit(main())
