"""C07 - interrupts are delivered exactly once, in priority order, never spuriously.

Proof side: Proofs/C07Icu.lean (controller: routing at trigger time, sticky request bits, exact acknowledge),
Proofs/C07/*.lean + Proofs/C07.lean (core: latch phase, complete characterisation of the interrupt block at the
instruction boundary - priority int0 > int1 > int2 > vectored, masks, global enable, hold-off during `rep`, ie cleared and
request consumed on entry, return address pushed, context store - and the composition raise -> latch -> entry; reti/retic).

Tie: (a) the stand-alone ICU unit (`icu` ops on a real Teakra::ICU), (b) whole-machine histories on a real Teakra::Teakra
through the `bus` unit: a program with one handler per core line (each handler counts in its own address register),
software triggers / acknowledges / routing, mask and enable changes interleaved with single steps; model and implementation
are compared line by line and `inspect` evaluates on the implementation's own answers what can be stated without the
model: the pending word is exactly the triggered-minus-acknowledged bits, a handler that was never routed a request never
runs, and a handler runs at most once per request latched for its line.
"""
import os
import sys

import corr
import vlib
from checks import c07icu

PROP = "C07"
MODULE = "Proofs.C07"
T = "Teakra."
THEOREMS = c07icu.THEOREMS + [T + t for t in [
    "latched_spec", "latch_once", "latch_no_spurious", "latched_of_noLatch",
    "deliverLine_eq_some", "deliverLine_eq_none", "interruptCheck_spec", "interruptCheck_eq_decision", "entry_effect",
    "entryDecision_none_iff", "priority", "priority_vectored_last", "masked_never_enters", "masked_vectored_never_enters",
    "disabled_never_enters", "rep_holds_off", "entry_clears_enable", "entry_consumes_request", "no_spurious", "enabled_enters",
    "enterLine_run", "enterVectored_run", "pushPC_spec", "pushPC_run", "entry_pushes_next_pc", "vectored_entry_pushes_next_pc",
    "entry_pushes_next_pc_ordinary", "cycle_entry_after_exec", "cycle_spec", "raise_reaches_core", "unrouted_never_latches",
    "raised_stays_pending", "raise_then_latch", "routed_request_enters", "vectored_address_is_latest", "popPC_run", "reti_run",
    "retic_run", "reti_effect"]]
TRUSTED = c07icu.TRUSTED + [
    "hand-written model lean/TeakraModel/Run.lean (interrupt block, latch phase), Core.lean (SignalInterrupt / "
    "SignalVectoredInterrupt on the latches), Periph.lean (TriggerSingle wiring), tied by the `bus` whole-machine histories",
    "harness/u_bus.cpp + generated copy of Teakra::Impl (tools/gen_impl.py)"]
ASSUMPTIONS = c07icu.ASSUMPTIONS + [
    "one thread: the cross-thread latches are modelled as plain flags here (their exchange semantics is C19's)",
    "the vectored handler address is not latched with the request: SignalVectoredInterrupt overwrites address and "
    "context-switch flag while an earlier vectored request is pending, so two requests for different vectors before the next "
    "boundary give one entry at the later address (theorem vectored_address_is_latest; same in the C++)",
    "requests on one line are level-collapsed: several raises before the next boundary give one entry (latch = flag)"]

HANDLER = {0: (0x06, 0x0088), 1: (0x0E, 0x0089), 2: (0x16, 0x008A), 3: (0x200, 0x008B)}   # line -> (address, `modr rK+`)


def regenerate():
    sys.path.insert(0, os.path.join(vlib.ROOT, "tools"))
    import gen_impl
    st = gen_impl.generate()
    st.pop("include_dir", None)
    return st


def machine_script(rng, n):
    s = ["bus new %s" % rng.choice(["own", "own", "capi"]), "bus pw 0 4180", "bus pw 1 100"]
    for line, (addr, op) in HANDLER.items():
        body = [op] + [0] * rng.below(3)
        ret = rng.choice([0x45C0, 0x45C0, 0x45D0])
        for k, x in enumerate(body + [ret]):
            s.append("bus pw %x %x" % (addr + k, x))
    main = rng.choice(["busy", "busy", "idle", "rep", "st2"])
    if main == "st2":
        # the main loop saves and restores st2 (push st2 ... pop st2): the three request flags in bits 13..15 are
        # read-only views of the latches, so a request latched while the saved copy is on the stack must survive the restore
        # and a request delivered in between must not be set again by it
        s += ["bus pw 100 5e4a"] + ["bus pw %x 0" % (0x101 + k) for k in range(2)] + ["bus pw 103 5e6a", "bus pw 104 57b0"]
    elif main == "busy":
        s += ["bus pw 100 0", "bus pw 101 57e0"]
    elif main == "idle":
        s += ["bus pw 100 57f0"]
    else:                                   # a long single-instruction repeat holds interrupts off, then a busy loop
        s += ["bus pw 100 c%02x" % rng.choice([3, 10, 40]), "bus pw 101 0", "bus pw 102 0", "bus pw 103 57e0"]
    s += ["bus poke sp 1000", "bus poke ie %x" % (0 if rng.chance(1, 4) else 1)]
    for i in range(3):
        s.append("bus poke im%d %x" % (i, 0 if rng.chance(1, 4) else 1))
        if rng.chance(1, 3):
            s.append("bus poke ic%d 1" % i)
    s.append("bus poke imv %x" % (0 if rng.chance(1, 3) else 1))
    for q in range(16):
        if rng.chance(1, 2):
            # VIC (bit 15) and the 2-bit VADDR_H field; sometimes with the undocumented bits set (they must be ignored)
            hi = (0x8000 if rng.chance(1, 3) else 0) | (rng.choice([0x4, 0x7FFC, 0x0FF0]) if rng.chance(1, 5) else 0)
            s.append("bus mw %x %x" % (0x212 + 4 * q, hi))
            s.append("bus mw %x 200" % (0x214 + 4 * q))
    en = {}
    for off in (0x206, 0x208, 0x20A, 0x20C):
        en[off] = c07icu.bits(rng)
        s.append("bus mw %x %x" % (off, en[off]))
    for _ in range(n):
        m = rng.below(20)
        if m < 6:
            # half of the triggers are aimed at requests that are routed somewhere at this moment
            routed = en[0x206] | en[0x208] | en[0x20A] | en[0x20C]
            v = (routed & rng.bits(16)) if rng.chance(1, 2) and routed else c07icu.bits(rng)
            s.append("bus mw 204 %x" % v)
        elif m < 8:
            s.append("bus mw 202 %x" % c07icu.bits(rng))
        elif m < 10:
            off = rng.choice([0x206, 0x208, 0x20A, 0x20C])
            en[off] = c07icu.bits(rng)
            s.append("bus mw %x %x" % (off, en[off]))
        elif m < 12:
            s.append("bus poke %s %x" % (rng.choice(["ie", "im0", "im1", "im2", "imv"]), rng.below(2)))
        elif m < 17:
            s.append("bus steps %x" % rng.choice([1, 1, 1, 2, 3, 5, 9]))
        elif m < 18:
            s.append("bus run %x" % rng.choice([1, 4, 20]))
        else:
            s.append("bus mr 200")
    s.append("bus steps 20")
    s += ["bus mr 200", "bus reg r0", "bus reg r1", "bus reg r2", "bus reg r3", "bus reg ie", "bus state"]
    return s


def inspect(script, impl):
    """What the property says and needs no model: pending word, never spurious, at most once per latched request."""
    if not script or not script[0].startswith("bus new"):
        return []
    en = {0x206: 0, 0x208: 0, 0x20A: 0, 0x20C: 0}
    pending = 0
    routed = [0, 0, 0, 0]          # number of trigger calls that latched a request for line 0/1/2/vectored
    bad = []
    for i, (line, r) in enumerate(zip(script, impl)):
        t = line.split()
        head = r.split(" ")[0]
        if head in vlib.ABORTS or head in ("unmodelled", "bad-op"):
            return bad
        if t[1] == "mw":
            off, v = int(t[2], 16), int(t[3], 16)
            if off in en:
                en[off] = v
            elif off == 0x204:
                pending |= v
                for k, o in enumerate((0x206, 0x208, 0x20A, 0x20C)):
                    # Trigger calls the line's callback once per triggered irq bit routed to it
                    routed[k] += bin(v & en[o]).count("1")
            elif off == 0x202:
                pending &= ~v
        elif t[1] == "mr" and t[2] == "200":
            got = int(head, 16)
            if got != pending & 0xFFFF:
                bad.append(("pending word 0x%04x after this history, expected triggered-minus-acknowledged 0x%04x" % (got, pending & 0xFFFF), i))
        elif t[1] == "reg" and t[2] in ("r0", "r1", "r2", "r3"):
            k = int(t[2][1])
            cnt = int(head, 16)
            if cnt > 0 and routed[k] == 0:
                bad.append(("handler of %s ran %d time(s) although no request was ever routed to it (spurious entry)"
                            % (["int0", "int1", "int2", "the vectored interrupt"][k], cnt), i))
            if cnt > routed[k]:
                bad.append(("handler of %s ran %d times for %d latched request(s) (delivered more than once)"
                            % (["int0", "int1", "int2", "the vectored interrupt"][k], cnt, routed[k]), i))
    return bad[:1]


def signature(script, impl):
    if script and script[0].startswith("icu"):
        return c07icu.signature(script, impl)
    out = []
    regs = {}
    for line, r in zip(script, impl):
        t = line.split()
        if t[1] == "reg":
            regs[t[2]] = min(int(r.split(" ")[0], 16), 3) if r.split(" ")[0] not in vlib.ABORTS else -1
        elif t[1] in ("steps", "run"):
            parts = r.split("|")
            ev = parts[1].strip().split(",") if len(parts) > 1 and parts[1].strip() != "-" else []
            out.append((t[1], tuple(sorted({e[:2] if e[0] == "i" else e[0] for e in ev}))))
    out.append(("handlers", tuple(sorted(regs.items()))))
    return out


def judge(pair, script, impl, model):
    if script and script[0].startswith("icu"):
        return c07icu.judge(pair, script, impl, model)
    hits = inspect(script, impl)
    if hits:
        return True, "(the real code violates the property: %s)" % hits[0][0]
    return True, "(interrupt entry differs from the proved specification of the latch phase / interrupt block: which handler " \
                 "ran, when, or what it left on the stack)"


def explore(rng, tier, replay=None):
    n_icu = 1000 if tier == "quick" else 40000
    n_sys = 600 if tier == "quick" else 20000
    scripts = [c07icu.gen_script(rng, 6 + rng.below(30)) for _ in range(n_icu)]
    scripts += [machine_script(rng, 10 + rng.below(50)) for _ in range(n_sys)]
    return corr.explore(PROP, scripts, judge=judge, signature=signature, inspect=inspect, model_first=True,
                        rule="(a) random ICU histories on a real Teakra::ICU (complete state set, Trigger / TriggerSingle / Acknowledge "
                             "/ SetEnable / SetEnableVectored / getters, boundary words); (b) whole-machine histories on a real "
                             "Teakra::Teakra: a program with one counting handler per core line (ending in reti or retic, with and "
                             "without context switch), main code busy / idle / inside a long single-instruction repeat / saving and restoring st2 around the request, all 16 vector "
                             "cells, then an interleaving of software triggers, acknowledges, routing-mask writes, global-enable and "
                             "line-mask changes, single steps and short runs, with the pending word, the four handler counters, ie "
                             "and a digest of the whole state read back; model and implementation compared line by line, and the "
                             "pending word / never-spurious / at-most-once-per-latched-request evaluated on the implementation")


def replay(rep):
    regenerate()
    return corr.replay(rep)
