"""C15 — timers count, fire and reload exactly per mode, and fast-forward is exact."""
import corr

PROP = "C15"
MODULE = "Proofs.C15"
NS = "Teakra.Timer."
THEOREMS = [NS + t for t in [
    "tick_decrements", "fires_iff", "single_stops", "autorestart_reloads", "freerunning_wraps",
    "paused_holds", "eventcount_tick", "eventcount_event", "mirror_follows", "tick_of_WF",
    "ticks_eq_core", "skip_eq_ticks", "run_fast_eq_slow",
    "upstream_skip_zero_counterexample", "upstream_skip_zero_mirror_counterexample"]]
TRUSTED = ["hand-written model lean/TeakraModel/Timer.lean of src/timer.cpp, tied by the `timer` correspondence slice",
           "harness/u_timer.cpp, tools/vlib.py (comparison), g++ 12"]
ASSUMPTIONS = ["interrupt_handler is a pure counting callback",
               "CoreTiming::Skip never asks a timer to skip beyond the horizon it reported (checked for the real CoreTiming by C06)"]


def gen_state(rng):
    wf = not rng.chance(1, 12)
    cm = rng.below(4) if wf else rng.choice([0, 1, 2, 3, 4, 5, 7, 0xFFFF])
    sc = 0 if wf else rng.choice([0, 0, 1, 3])
    um = rng.choice([0, 1, 1, 2])
    pa = rng.choice([0, 0, 0, 1])

    def c32():
        m = rng.below(6)
        if m == 0:
            return rng.below(4)
        if m == 1:
            return rng.below(64)
        if m == 2:
            return 0xFFFFFFFF - rng.below(3)
        if m == 3:
            return rng.biased(32)
        if m == 4:
            return (rng.below(3) << 16) | rng.below(3)
        return rng.bits(32)
    start = c32()
    ctr = c32()
    return "timer set %x %x %x %x %x %x %x %x %x" % (um, pa, cm, sc, start >> 16, start & 0xFFFF, ctr,
                                                      rng.bits(16), rng.bits(16))


def gen_script(rng, n):
    s = [gen_state(rng)]
    for _ in range(n):
        m = rng.below(20)
        if m < 5:
            s.append("timer tick")
        elif m < 6:
            s.append("timer event")
        elif m < 7:
            s.append("timer restart")
        elif m < 9:
            s.append("timer maxskip")
        elif m < 13:
            s.append("timer ff %x %x" % (rng.choice([0, 1, 2, 3, 4, 4, 4]), rng.bits(34) if rng.chance(1, 2) else rng.below(50)))
        elif m < 19:
            s.append("timer ffcheck %x %x" % (rng.choice([0, 0, 1, 2, 3, 4, 4]), rng.bits(34) if rng.chance(1, 3) else rng.below(300)))
        else:
            s.append(gen_state(rng))
    return s


def signature(script, impl):
    out = []
    for line, r in zip(script, impl):
        t = line.split()
        rt = r.split()
        if t[1] in ("ff", "ffcheck") and len(rt) > 4 and rt[0] == "k":
            # (op, k class, mode, counter-zero?, paused?) as seen in the implementation's answer
            k = int(rt[1], 16)
            d = rt[-9:]
            out.append((t[1], min(k, 3), d[2], d[6] == "0", d[1] != "0", rt[2]))
        elif t[1] in ("tick", "event") and len(rt) > 2:
            d = rt[-9:]
            out.append((t[1], rt[1], d[2], d[6] == "0"))
    return out


def judge(pair, script, impl, model):
    """A disagreement on `ffcheck` where the implementation itself reports DIFF is a failing input of
    the property (Skip(k) != k ticks on the real code).  Likewise a tick whose interrupt flag differs."""
    last = impl[-1] if impl else ""
    if " DIFF " in last:
        return True, "(the real Timer::Skip differs from the same number of real Timer::Tick calls)"
    # evaluate the property directly on the implementation around the disagreeing state
    probe = script[:-1] + ["timer ffcheck 0 0", "timer ffcheck 1 1", "timer ffcheck 2 0", "timer ffcheck 4 7"]
    a, _, _, _ = pair.run([probe], shards=1)
    if any(" DIFF " in r for r in a[0]):
        return True, "(a zero/short skip on the real code differs from single ticks near this state)"
    op = script[-1].split()[1]
    if op in ("tick", "event", "restart", "maxskip"):
        # per-mode behaviour is stated outright by the theorems; the model is the property here
        return True, "(per-cycle behaviour differs from the proved per-mode specification)"
    return False, ""


def explore(rng, tier, replay=None):
    n = 2500 if tier == "quick" else 60000
    scripts = [gen_script(rng, 6 + rng.below(24)) for _ in range(n)]
    ctx = corr.explore(PROP, scripts, judge=judge, signature=signature,
                        rule="random timer histories (state set from a boundary-biased pool incl. non-well-formed "
                             "modes, then ticks / events / restarts / horizon queries / skips chosen relative to the "
                             "reported horizon: 0, 1, h-1, h, random<=h, h+1); `ffcheck` additionally evaluates the "
                             "property on the implementation itself (Skip(k) vs k Ticks). distinct = (op, k class, mode, "
                             "counter zero, paused, outcome) signatures seen in the implementation's answers")

    try:
        from checks import c12
        fv, fstats = c12.timing_slice(rng, 150 if tier == "quick" else 4000, PROP)
        ctx["violations"] = ctx.get("violations", []) + fv
        ctx["facade_slice"] = fstats
        ctx["evaluations"] = ctx.get("evaluations", 0) + fstats["facade_scripts"]
    except RuntimeError as ex:
        ctx["violations"] = ctx.get("violations", []) + [("facade slice could not run: " + str(ex)[-300:], {"kind": "error", "error": str(ex)[-2000:]}, False)]
    return ctx

def replay(rep):
    return corr.replay(rep)
