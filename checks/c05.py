"""C05 — assembly text and machine code correspond one-to-one.

What is proved and what is enumerated:

* Proofs.C05 proves, for EVERY token function, what `GenerateParser`/`Parse` (src/parser.cpp) compute from it
  (least opcode with the text, status, Invalid otherwise, when the ASSERT fires), the conditional end-to-end
  theorem `assemble_disasm` (IF equal text implies same decode-table entry, same operands, difference only
  in unused bits THEN assembling the printed text gives back the same instruction), and the bounds of the
  intended C binding (`cDo_bounds`) plus counterexamples for the C binding as found.
* The 1763 lines of token text in src/disassembler.cpp are NOT modelled.  The hypothesis of
  `assemble_disasm` (`SameTextOnlyUnused`, `NeedFromTable`) is a finite fact about 65536 first words; part (1)
  below establishes it on every run by calling the real `Disassembler::GetTokenList` / `NeedExpansion` for
  all 65536 words and grouping by text against the translated decode table (C02).  This is a test by complete
  enumeration of a finite table, not a theorem about disassembler.cpp.

Parts: (1) exhaustive token-level round trip on the real code + the Lean parser model fed with the real
entries; (2) the C binding against the `cDo` model for every buffer size 0..64 and around each text length;
(3) the four hwtest firmware sources through the real makedsp1 / dsp1_reader.
"""
import collections
import concurrent.futures as cf
import glob
import gzip
import hashlib
import json
import os
import subprocess
import sys
import time

if __name__ == "__main__":
    _root = os.path.dirname(os.path.dirname(os.path.abspath(__file__)))
    sys.path.insert(0, os.path.join(_root, "tools"))
    sys.path.insert(0, _root)

import vlib
from checks import c02
import translate_disasm as tdis

PROP = "C05"
MODULE = "Proofs.C05All"
A = "Teakra.Asm."
C = "Teakra.CDo."
THEOREMS = [A + t for t in [
    "parse_eq_firstWith", "parse_build_first", "parse_roundtrip", "parse_invalid", "build_ok_or_assert",
    "build_assert_iff", "parse_generate_least", "generate_assert_iff", "assemble_disasm",
    "assemble_disasm_text"]] + [C + t for t in [
        "cDo_bounds", "cDo_zero_out_of_bounds", "cDo_no_nul_after_text", "cDo_eq_fixed_of_tight"]] + ["Teakra." + t for t in [
            # the disassembler model translated from disassembler.cpp (Generated/DisasmTable.lean) over the shared look-up
            "instr_unique", "decodeInstr_eq_of_matches", "free_bit_irrelevant", "freeBits_are_unused",
            "decode_extract_unused", "text_unused_irrelevant", "handler_unused_irrelevant",
            "text_second_word_only_if_expanded", "expanded_iff_field16"]]
TRUSTED = [
    "the token text of src/disassembler.cpp is translated into Lean on every run (tools/translate_disasm.py -> "
    "Generated/DisasmTable.lean: 329 of the 331 visitor methods and the 12 enum->text tables are interpreted, the rest - "
    "ToHex, immediates/memory operand printers, Mul, PA, ar/arp printers, banke, mov(Register,Bx), GetTokenList, Do - is "
    "hand-modelled in TeakraModel/Disasm.lean and pinned by a hash of the source text); the model is compared with the real "
    "GetTokenList/Do/NeedExpansion on every first word x sampled second words x sampled ArArpSettings on every run. "
    "Proved over it: unused bits never change text / need / handler call. NOT proved in Lean: 'two opcodes print the same "
    "text only if they differ in unused bits' (the converse direction) - that finite fact over 65536 first words and "
    "NeedFromTable are re-established on every run by complete enumeration of the real code (checks/c05.py part 1) "
    "against the translated decode table of C02 - a test by complete enumeration, not a theorem",
    "hand-written models lean/TeakraModel/Asm.lean (src/parser.cpp) and lean/TeakraModel/CDo.lean "
    "(src/disassembler_c.cpp), tied by feeding the real 65536 entries to the model parser and by the `cdo` runs",
    "the decode table and its theorems (C02: tools/translate_decode.py, exhaustive `dec` run)",
    "harness/u_dis.cpp, the comparison code in checks/c05.py (grouping, makedsp1 line reader re-implemented for "
    "line-level diagnostics), tools/vlib.py, g++ 12; src/makedsp1/sha256.cpp is exercised only through the byte comparison"]
ASSUMPTIONS = [
    "identical execution of two opcodes that decode to the same entry with the same operand values is C02's "
    "unused_irrelevant/unused_same_decode plus the fact that Decode<V>::call hands the visitor only (entry, operand values)",
    "second words are sampled (quick: 4, thorough: 16 per first word); the text is checked to contain the second word "
    "verbatim as 4 hex digits at one fixed position, everything else independent of it",
    "ArArpSettings-dependent text is sampled on the opcodes that share text with another opcode",
    "the hwtest Makefiles do not run the assembler (they embed data/cdc.bin with bin2o); the sources are assembled "
    "with `makedsp1 <firm/source> <out>`, the only invocation src/makedsp1/main.cpp supports"]

GEN_JSON = c02.GEN_JSON
GOLDEN_JSON = c02.GOLDEN_JSON
GOLDEN_TOKENS = os.path.join(vlib.ROOT, "checks", "golden", "c05_tokens.txt.gz")
SEP = "    "   # Disassembler::Do joins with four blanks


def regenerate():
    """The decode table the grouping is judged against must be that of the tree under test; the disassembler's token
    table is re-translated from the tree under test."""
    st = c02.regenerate()
    st["disasm"] = tdis.run_checked(vlib.REPO, vlib.ROOT)
    return st


# ----------------------------------------------------------------------------- protocol helpers

def esc(t):
    if t == "":
        return "%e"
    return "".join(c if 0x20 < ord(c) < 0x7f and c != "%" else "%%%02X" % ord(c) for c in t)


def unesc(t):
    if t == "%e":
        return ""
    out, i = [], 0
    while i < len(t):
        if t[i] == "%":
            out.append(chr(int(t[i + 1:i + 3], 16)))
            i += 3
        else:
            out.append(t[i])
            i += 1
    return "".join(out)


def parse_tok(resp):
    """`n=<k> tok…` -> tuple of raw tokens; None for anything else."""
    if resp == "empty":
        return ()
    p = resp.split(" ")
    if not p or not p[0].startswith("n="):
        return None
    toks = tuple(unesc(x) for x in p[1:])
    if len(toks) != int(p[0][2:], 16):
        return None
    return toks


def hexbytes(resp):
    return b"" if resp == "-" else bytes.fromhex(resp)


def show(toks):
    return "[" + ", ".join(repr(t) for t in toks) + "]"


def is_error(toks):
    return any("[ERROR]" in t for t in toks)


def string_to_tokens(s):
    """makedsp1's StringToTokens: split at blanks and tabs only."""
    out, cur = [], None
    for ch in s:
        if ch in " \t":
            cur = None
        else:
            if cur is None:
                out.append("")
                cur = True
            out[-1] += ch
    return out


def subst_places(t0, t, h):
    """(token index, char index) at which replacing `0000` by h in the token list t0 gives t."""
    if len(t) != len(t0):
        return set()
    d = [i for i in range(len(t0)) if t[i] != t0[i]]
    if len(d) != 1:
        return set()
    a, b = t0[d[0]], t[d[0]]
    return {(d[0], c) for c in range(len(a) - 3) if a[c:c + 4] == "0000" and a[:c] + h + a[c + 4:] == b}


def viol(desc, part, impl_script=None, model_script=None, expect=None, extra=None):
    rep = {"kind": "c05", "part": part, "impl_script": impl_script or [], "model_script": model_script or [],
           "expect": expect or []}
    if extra:
        rep.update(extra)
    return (desc, rep, True)


# ----------------------------------------------------------------------------- part 1: token level, exhaustive

def table_view(data):
    hits = c02.decode_all(data["table"])
    unused = [sum(1 << o["pos"] for o in p["operands"] if o["kind"] == "Unused") for p in data["table"]]
    return hits, unused


def part_tokens(pair, rng, tier, data, violations, ev):
    t0 = time.time()
    table = data["table"]
    hits, unused = table_view(data)
    nsec = 3 if tier == "quick" else 15
    seconds = [0, 0xFFFF] + [1 + rng.below(0xFFFE) for _ in range(nsec - 1)]
    seconds = list(dict.fromkeys(seconds))
    nsec = len(seconds)
    scripts = []
    for w in range(65536):
        s = ["dis reset"] + ["dis tok %x %x" % (w, e) for e in seconds]
        s += ["dis need %x" % w, "dis cneed %x" % w, "dis do %x 0" % w, "dis do %x %x" % (w, seconds[-1])]
        scripts.append(s)
    out, crashes = vlib.run_scripts(pair.impl, scripts)
    if crashes:
        i, err = crashes[0]
        violations.append(("harness died while disassembling opcode 0x%04x: %s" % (i, err[-300:]),
                           {"kind": "crash", "script": scripts[i], "stderr": err}, True))
        return None
    toks = [[parse_tok(o[1 + k]) for k in range(nsec)] for o in out]
    need = [o[1 + nsec] for o in out]
    cneed = [o[2 + nsec] for o in out]
    do0 = [o[3 + nsec] for o in out]
    do1 = [o[4 + nsec] for o in out]
    bad_proto = [w for w in range(65536) if any(t is None for t in toks[w]) or need[w] not in ("0", "1")]
    if bad_proto:
        w = bad_proto[0]
        violations.append(("GetTokenList/NeedExpansion of opcode 0x%04x did not return (harness answered %r)" % (w, out[w][1:]),
                           {"kind": "c05", "part": "tokens", "impl_script": scripts[w], "model_script": [], "expect": []}, True))
        return None
    T0 = [t[0] for t in toks]
    evaluations = sum(len(s) for s in scripts)

    # -- (a) well-formed lists, Do = join, C NeedExpansion, NeedFromTable
    n_empty = 0
    for w in range(65536):
        if len(T0[w]) == 0:
            n_empty += 1
            if n_empty == 1:
                violations.append(viol("GetTokenList(0x%04x) is empty: Disassembler::Do reads v.back() of an empty vector" % w,
                                       "tokens", ["dis reset", "dis tok %x 0" % w], expect=[{"ne": [1, "empty"]}]))
            continue
        for k, d in ((0, do0[w]), (nsec - 1, do1[w])):
            want = SEP.join(toks[w][k]).encode("latin-1").hex() or "-"
            if d != want:
                violations.append(viol("Disassembler::Do(0x%04x, 0x%04x) is not the token list joined by four blanks: Do=%r tokens=%s"
                                       % (w, seconds[k], hexbytes(d) if d[0] in "0123456789abcdef-" else d, show(toks[w][k])),
                                       "tokens", ["dis reset", "dis tok %x %x" % (w, seconds[k]), "dis do %x %x" % (w, seconds[k])],
                                       expect=[{"do_is_join": [2, 1]}]))
                break
    exp_tab = [bool(hits[w]) and table[hits[w][0]]["expanded"] for w in range(65536)]
    nd = [w for w in range(65536) if (need[w] == "1") != exp_tab[w] or cneed[w] != need[w]]
    if nd:
        w = nd[0]
        violations.append(viol("NeedExpansion(0x%04x)=%s, Teakra_Disasm_NeedExpansion=%s, decode table says %d (%d opcodes affected): "
                               "the assembler would %s" % (w, need[w], cneed[w], exp_tab[w], len(nd),
                                                            "drop" if exp_tab[w] else "demand" + " a second word"),
                               "tokens", ["dis reset", "dis need %x" % w, "dis cneed %x" % w],
                               expect=[{"eq": [1, "1" if exp_tab[w] else "0"]}, {"eq": [2, "1" if exp_tab[w] else "0"]}]))

    # -- (b) renderable / error opcodes
    err = [w for w in range(65536) if is_error(T0[w])]
    err_undefined = sum(1 for w in err if not hits[w])
    errset = set(err)
    unstable = [w for w in range(65536) if any(is_error(t) != (w in errset) for t in toks[w])]
    if unstable:
        w = unstable[0]
        violations.append(viol("whether opcode 0x%04x is renderable depends on the second word" % w, "tokens",
                               ["dis reset"] + ["dis tok %x %x" % (w, e) for e in seconds]))

    # -- (c) grouping by text: SameTextOnlyUnused
    groups = collections.OrderedDict()
    for w in range(65536):
        if w not in errset:
            groups.setdefault(T0[w], []).append(w)
    multi = {k: g for k, g in groups.items() if len(g) > 1}
    ambiguous = []
    assert_pairs = []
    for k, g in multi.items():
        m = g[0]
        for w in g[1:]:
            hm, hw = hits[m], hits[w]
            why = None
            if not hm or not hw:
                why = "one of them is undefined in the decode table"
            elif hm[0] != hw[0]:
                why = "they decode to different entries: #%d %s(%s) and #%d %s(%s)" % (
                    hm[0], table[hm[0]]["name"], data["signatures"][hm[0]], hw[0], table[hw[0]]["name"], data["signatures"][hw[0]])
            else:
                p = table[hm[0]]
                a, b = c02.extract(p, m, 0), c02.extract(p, w, 0)
                if a != b:
                    why = "same entry #%d %s but different operand values %s / %s" % (hm[0], p["name"], a, b)
                elif (m ^ w) & ~unused[hm[0]] & 0xFFFF:
                    why = "same entry #%d %s but they differ in bits 0x%04x that are not declared Unused (unused mask 0x%04x)" % (
                        hm[0], p["name"], (m ^ w) & ~unused[hm[0]] & 0xFFFF, unused[hm[0]])
            if why:
                ambiguous.append((m, w, k, why))
            if m & ~w & 0xFFFF:
                assert_pairs.append((m, w, k))
    amb_groups = len({a[2] for a in ambiguous})
    for (m, w, k, why) in ambiguous[:2]:
        violations.append(viol("opcodes 0x%04x and 0x%04x print the same text %s although %s: assembling the text of 0x%04x "
                               "yields 0x%04x, a different instruction (SameTextOnlyUnused fails; %d text groups, %d opcode pairs affected)"
                               % (m, w, show(k), why, w, m, amb_groups, len(ambiguous)),
                               "tokens", ["dis reset", "dis tok %x 0" % m, "dis tok %x 0" % w, "dis parse " + " ".join(esc(t) for t in k)],
                               expect=[{"distinct": [1, 2]}]))

    # -- (d) second word: verbatim, one position, nothing else depends on it
    sec_bad = []
    sec_checked = 0
    for w in range(65536):
        if w in errset:
            continue
        t0_ = T0[w]
        if need[w] == "0":
            if any(t != t0_ for t in toks[w][1:]):
                sec_bad.append((w, "takes no second word but its text depends on it"))
            continue
        sec_checked += 1
        places = None
        for k in range(1, nsec):
            here = subst_places(t0_, toks[w][k], "%04x" % seconds[k])
            places = here if places is None else places & here
            if not places:
                sec_bad.append((w, "second word 0x%04x is not printed verbatim as 4 hex digits at one fixed place: %s vs %s"
                                % (seconds[k], show(t0_), show(toks[w][k]))))
                break
    for (w, why) in sec_bad[:2]:
        violations.append(viol("opcode 0x%04x: %s (%d opcodes affected): makedsp1's `$xxxx` syntax cannot express it"
                               % (w, why, len(sec_bad)), "tokens", ["dis reset"] + ["dis tok %x %x" % (w, e) for e in seconds]))

    # -- (e) the real parser and the Lean parser model on the same entries
    reps = list(groups.keys())
    malformed = []
    seen = set(groups.keys())

    def add_mal(t):
        t = tuple(t)
        if t not in seen:
            seen.add(t)
            malformed.append(t)
    add_mal(())
    step = 1 if tier == "thorough" else 7
    for i, k in enumerate(reps):
        if i % step:
            continue
        add_mal(k[:-1])
        add_mal(k[1:])
        add_mal(k + (k[-1],))
        if len(k) > 1:
            add_mal((k[1], k[0]) + k[2:])
        add_mal((k[0].upper(),) + k[1:])
        add_mal(tuple(string_to_tokens(SEP.join(k))))       # what makedsp1 would make of the printed text
    for w in err[::max(1, len(err) // 300)]:
        add_mal(T0[w])
    for _ in range(200):
        k = reps[rng.below(len(reps))]
        j = rng.below(len(k))
        add_mal(k[:j] + (k[j] + "x",) + k[j + 1:])
        add_mal(k[:j] + ("",) + k[j:])
    queries = reps + malformed
    qlines = ["dis parse" + "".join(" " + esc(t) for t in q) for q in queries]
    per = 4000
    iscripts = [["dis reset"] + qlines[i:i + per] for i in range(0, len(qlines), per)]
    iout, crashes = vlib.run_scripts(pair.impl, iscripts)
    if crashes:
        violations.append(("harness died while parsing: " + crashes[0][1][-300:],
                           {"kind": "crash", "script": iscripts[crashes[0][0]][:50], "stderr": crashes[0][1]}, True))
        return None
    ires = [r for o in iout for r in o[1:]]
    mscript = ["asm reset"] + ["asm add %x %s%s" % (w, need[w], "".join(" " + esc(t) for t in T0[w])) for w in range(65536)]
    mscript += ["asm parse" + "".join(" " + esc(t) for t in q) for q in queries]
    mout, mcr = vlib.run_scripts(pair.model, [mscript], shards=1)
    if mcr:
        raise RuntimeError("model driver crashed: %r" % (mcr[:1],))
    madd = mout[0][1:65537]
    mres = mout[0][65537:]
    evaluations += len(qlines) + len(mscript)

    def want_parse(q):
        g = groups.get(q)
        if g is None:
            return "invalid"
        m = g[0]
        return ("expansion " if need[m] == "1" else "valid ") + "%x" % m
    real_assert = any(r == "assert" for r in ires)
    model_assert = any(r == "assert" for r in madd)
    if assert_pairs or real_assert or model_assert:
        if assert_pairs:
            m, w, k = assert_pairs[0]
            d = ("GenerateParser ASSERT((current->opcode & ~o) == 0) must fire: 0x%04x and 0x%04x both print %s and 0x%04x lacks "
                 "bit(s) 0x%04x of the first; real parser: %s, model: %s" % (m, w, show(k), w, m & ~w & 0xFFFF,
                                                                              "assert" if real_assert else "built",
                                                                              "assert" if model_assert else "built"))
        else:
            d = "GenerateParser aborted (real: %s, model: %s) although no pair of equal texts violates the superset condition" % (
                real_assert, model_assert)
        failing = bool(assert_pairs) or real_assert != model_assert or real_assert
        violations.append((d, {"kind": "c05", "part": "tokens", "impl_script": ["dis reset", "dis parse nop"],
                               "model_script": [], "expect": [{"ne": [1, "assert"]}]}, failing))
    parse_bad = []
    for q, ri, rm in zip(queries, ires, mres):
        want = want_parse(q)
        if real_assert and model_assert:
            break
        if ri != want or rm != ri:
            parse_bad.append((q, ri, rm, want))
    for (q, ri, rm, want) in parse_bad[:3]:
        g = groups.get(q)
        what = ("Parse(GetTokenList(0x%04x)) = %r on the real code" % (g[-1], ri)) if g else ("Parse(%s) = %r on the real code" % (show(q), ri))
        violations.append(viol("%s, the parser model (first opcode wins) says %r, the least opcode printing this text gives %r "
                               "(%d token lists affected)" % (what, rm, want, len(parse_bad)), "tokens",
                               ["dis reset", "dis parse" + "".join(" " + esc(t) for t in q)],
                               expect=[{"eq": [1, want]}],
                               extra={"model_entries": "all 65536 real entries (rebuilt on replay)", "tokens": list(q)}))
    add_bad = []
    first = {g[0] for g in groups.values()}
    for w in range(65536):
        want = "skip" if w in errset else ("ok" if w in first else "dup")
        if madd[w] != want and not model_assert:
            add_bad.append((w, madd[w], want))
    if add_bad:
        w, got, want = add_bad[0]
        violations.append(("parser model iteration for opcode 0x%04x answered %r, expected %r" % (w, got, want),
                           {"kind": "error", "error": "model/py disagreement on asm add"}, False))

    # -- (f) ArArpSettings on the opcodes that share their text
    ar_bad = []
    ascripts, awho = [], []
    for k, g in multi.items():
        for _ in range(2):
            ar = [rng.bits(16) for _ in range(6)]
            e = rng.bits(16)
            s = ["dis reset"] + ["dis tok %x %x %s" % (w, e, " ".join("%x" % a for a in ar)) for w in g]
            ascripts.append(s)
            awho.append(g)
    if ascripts:
        aout, _ = vlib.run_scripts(pair.impl, ascripts)
        evaluations += sum(len(s) for s in ascripts)
        for s, g, o in zip(ascripts, awho, aout):
            if len(set(o[1:])) != 1:
                ar_bad.append((g, s, o))
        for (g, s, o) in ar_bad[:1]:
            violations.append(viol("opcodes %s print the same text without ArArpSettings but different text with them: %r"
                                   % (", ".join("0x%04x" % w for w in g), o[1:]), "tokens", s))

    # -- (g) text level (what makedsp1 / dsp1_reader exchange): recorded, see the report
    retok_bad = [w for w in range(65536) if w not in errset and tuple(string_to_tokens(SEP.join(T0[w]))) != T0[w]]
    texts = collections.Counter(SEP.join(k) for k in groups)
    text_collisions = sum(1 for v in texts.values() if v > 1)
    charset = sorted({c for k in groups for t in k for c in t})
    special = {"blank_in_token": sum(1 for k in groups if any(" " in t or "\t" in t for t in k)),
               "empty_token": sum(1 for k in groups if any(t == "" for t in k)),
               "dollar_in_token": sum(1 for k in groups if any("$" in t for t in k)),
               "comment_marker_in_token": sum(1 for k in groups if any("//" in t for t in k))}

    # -- (h) pinned text
    pin = golden_compare(T0, need)
    for d in pin.pop("violations"):
        violations.append(d)

    sizes = collections.Counter(len(g) for g in groups.values())
    ev["part1_tokens"] = {
        "first_words_enumerated": 65536, "second_words_per_first_word": ["0x%04x" % e for e in seconds],
        "renderable_opcodes": 65536 - len(err), "error_opcodes": len(err),
        "error_opcodes_undefined_in_table": err_undefined, "error_opcodes_bad_operand_value": len(err) - err_undefined,
        "distinct_texts": len(groups), "text_groups_with_several_opcodes": len(multi),
        "group_size_histogram": {str(k): v for k, v in sorted(sizes.items())},
        "opcodes_sharing_text": sum(len(g) for g in multi.values()),
        "ambiguous_groups (SameTextOnlyUnused fails)": amb_groups,
        "superset_assert_pairs": len(assert_pairs),
        "need_expansion_mismatches": len(nd),
        "expanded_renderable_opcodes_checked_for_verbatim_second_word": sec_checked, "second_word_failures": len(sec_bad),
        "parse_queries": {"group_representatives": len(reps), "malformed": len(malformed), "disagreements": len(parse_bad)},
        "model_parser_entries": 65536, "ararp_scripts": len(ascripts), "ararp_failures": len(ar_bad),
        "text_level": {"opcodes_whose_Do_text_does_not_retokenize_to_their_token_list": len(retok_bad),
                       "first": ["0x%04x %s" % (w, show(T0[w])) for w in retok_bad[:3]],
                       "groups_with": special, "distinct_texts_colliding_after_join": text_collisions,
                       "token_charset": "".join(charset),
                       "note": "tokens containing a blank or empty tokens are accepted by Parser::Parse as a token list but "
                               "makedsp1 splits source lines at blanks, so dsp1_reader's text of these opcodes cannot be fed back "
                               "to makedsp1 (recorded observation; the property is stated on token lists)"},
        "pinned_text": pin, "wall_s": round(time.time() - t0, 2)}
    ev["samples"] = [{"script": scripts[0x4180][:4], "impl": out[0x4180][:4]},
                     {"script": qlines[:2], "impl": ires[:2], "model": mres[:2]}]
    return {"T0": T0, "need": need, "groups": groups, "errset": errset, "evaluations": evaluations,
            "signatures": len(groups) + len(err)}


# ----------------------------------------------------------------------------- pinned text

def golden_lines(T0, need):
    return ["%04x %s%s" % (w, need[w], "".join(" " + esc(t) for t in T0[w])) for w in range(65536)]


def golden_compare(T0, need):
    info = {"file": os.path.relpath(GOLDEN_TOKENS, vlib.ROOT), "violations": []}
    if not os.path.exists(GOLDEN_TOKENS):
        info["status"] = "missing (run: python3 checks/c05.py --repin)"
        return info
    gold = gzip.open(GOLDEN_TOKENS, "rt").read().split("\n")
    cur = golden_lines(T0, need)
    diff = [w for w in range(65536) if w >= len(gold) or gold[w] != cur[w]]
    info["status"] = "equal" if not diff else "differs"
    info["changed_opcodes"] = len(diff)
    if diff:
        kinds = collections.OrderedDict()
        for w in diff:
            g = gold[w].split(" ") if w < len(gold) else ["?", "?"]
            key = (g[2] if len(g) > 2 else "", cur[w].split(" ")[2] if len(cur[w].split(" ")) > 2 else "")
            kinds.setdefault(key, w)
        for key, w in list(kinds.items())[:2]:
            g = gold[w].split(" ")
            info["violations"].append(viol(
                "text of opcode 0x%04x changed relative to the pinned disassembler text: now %s need=%s, pinned %s need=%s "
                "(%d opcodes changed; the hwtest sources and every existing assembly source are written in the pinned text; "
                "re-pin with `python3 checks/c05.py --repin` if the change is intended)"
                % (w, show(T0[w]), need[w], show([unesc(x) for x in g[2:]]), g[1], len(diff)),
                "tokens", ["dis reset", "dis tok %x 0" % w, "dis need %x" % w],
                expect=[{"eq": [1, "n=%x%s" % (len(g) - 2, "".join(" " + x for x in g[2:]))]}, {"eq": [2, g[1]]}]))
    return info


def repin():
    pair_impl = vlib.harness_build("plain")
    scripts = [["dis reset", "dis tok %x 0" % w, "dis need %x" % w] for w in range(65536)]
    out, cr = vlib.run_scripts(pair_impl, scripts)
    if cr:
        raise SystemExit("harness died: %r" % (cr[:1],))
    T0 = [parse_tok(o[1]) for o in out]
    need = [o[2] for o in out]
    os.makedirs(os.path.dirname(GOLDEN_TOKENS), exist_ok=True)
    with gzip.GzipFile(GOLDEN_TOKENS, "wb", mtime=0) as f:
        f.write("\n".join(golden_lines(T0, need)).encode())
    print("pinned %d opcodes from %s into %s" % (len(T0), vlib.REPO, GOLDEN_TOKENS))


# ----------------------------------------------------------------------------- part 2: the C binding

def part_cbinding(pair, rng, tier, p1, violations, ev):
    t0 = time.time()
    n = 160 if tier == "quick" else 3000
    words = [0x0000, 0x4180, 0x0021, 0x00C0]            # nop, br (two words), undefined, a 9-token form
    while len(words) < n:
        words.append(rng.bits(16))
    pre = [["dis reset", "dis do %x %x" % (w, e), "dis need %x" % w]
           for w, e in ((w, rng.bits(16)) for w in words)]
    pout, cr = vlib.run_scripts(pair.impl, pre)
    if cr:
        violations.append(("harness died in Disassembler::Do: " + cr[0][1][-300:], {"kind": "crash", "script": pre[cr[0][0]]}, True))
        return 0
    iscripts, mscripts, meta = [], [], []
    for s, o in zip(pre, pout):
        w, e = [int(x, 16) for x in s[1].split()[2:4]]
        if o[1] == "assert-empty":
            continue
        text = hexbytes(o[1])
        ln = len(text)
        lens = sorted(set(list(range(0, 65)) + [x for x in (ln - 1, ln, ln + 1, ln + 2) if x >= 0]))
        canary = rng.choice([0xAA, 0xCD, 0xFF, 0x01])
        i_s = ["dis reset"] + ["dis cdo %x %x %x %x" % (d, canary, w, e) for d in lens] + ["dis cdonull %x %x %x" % (rng.choice(lens), w, e)]
        m_s = ["asm reset"] + ["asm cdo %x %x %s" % (d, canary, text.hex() or "-") for d in lens] + \
              ["asm cdonull %x %s" % (int(i_s[-1].split()[2], 16), text.hex() or "-")]
        iscripts.append(i_s)
        mscripts.append(m_s)
        meta.append((w, e, text, lens, canary))
    with cf.ThreadPoolExecutor(2) as ex:
        fa = ex.submit(vlib.run_scripts, pair.impl, iscripts)
        fb = ex.submit(vlib.run_scripts, pair.model, mscripts)
        (ia, ca), (mb, cb) = fa.result(), fb.result()
    if cb:
        raise RuntimeError("model driver crashed: %r" % (cb[:1],))
    for (i, err) in ca[:1]:
        violations.append(("harness died inside Teakra_Disasm_Do (crash or heap corruption): " + err[-300:],
                           {"kind": "crash", "script": iscripts[i], "stderr": err}, True))
    diffs = []
    for (w, e, text, lens, canary), i_s, m_s, ra, rb in zip(meta, iscripts, mscripts, ia, mb):
        for k in range(1, len(i_s)):
            a = ra[k] if k < len(ra) else "<no-output>"
            b = rb[k] if k < len(rb) else "<no-output>"
            if a != b:
                d = int(i_s[k].split()[2], 16)
                diffs.append((w, e, text, d, canary, i_s[k], m_s[k], a, b))
    kinds = collections.OrderedDict()
    for x in diffs:
        w, e, text, d, canary, il, ml, a, b = x
        kind = "null" if " cdonull " in il else ("zero" if d == 0 else ("long" if d > len(text) + 1 else "other"))
        kinds.setdefault(kind, []).append(x)
    cur_explains = None
    if diffs:
        # does the model of the code as found (cDo) reproduce the real bytes exactly?
        probe = [["asm reset"] + [x[6].replace("asm cdo ", "asm cdocur ", 1) for x in diffs[:4000]]]
        pr, _ = vlib.run_scripts(pair.model, probe, shards=1)
        cur_explains = all(r == x[7] for r, x in zip(pr[0][1:], diffs[:4000]))
    for kind, xs in kinds.items():
        xs.sort(key=lambda x: (len(x[2]), x[3]))
        w, e, text, d, canary, il, ml, a, b = xs[0]
        what = {"zero": "with dstlen = 0 it writes outside the caller's (empty) buffer: the whole text from dst[0] on and a NUL at dst[-1]",
                "long": "with dstlen > len+1 the NUL is stored at dst[dstlen-1] instead of directly after the text; the bytes "
                        "between the text and the last byte keep the caller's old contents (not a C string unless pre-zeroed)",
                "null": "with dst = NULL the return value differs",
                "other": "the bytes written differ from the specification"}[kind]
        violations.append(viol(
            "C binding Teakra_Disasm_Do differs from the proved specification (cDo_bounds): %s. opcode 0x%04x expansion 0x%04x "
            "text %r (len %d) dstlen %d canary 0x%02x: real code %r, specification %r (%d of %d buffer-size cases differ; %s)"
            % (what, w, e, text.decode("latin-1"), len(text), d, canary, a, b, len(xs), sum(len(m[3]) for m in meta),
               "the model `cDo` of the code as found reproduces every differing answer byte for byte" if cur_explains
               else "the model of the code as found does NOT explain all differences"),
            "cbinding", ["dis reset", il], ["asm reset", ml], expect=[{"model_eq_impl": [1, 1]}]))
    ev["part2_cbinding"] = {
        "opcodes_sampled": len(meta), "buffer_sizes": "0..64 and len-1, len, len+1, len+2 for each text", "cases": sum(len(m[3]) + 1 for m in meta),
        "text_lengths": [min(len(m[2]) for m in meta), max(len(m[2]) for m in meta)] if meta else [],
        "differences_from_specification": len(diffs), "by_kind": {k: len(v) for k, v in kinds.items()},
        "explained_exactly_by_model_of_code_as_found": cur_explains, "driver_constant": "Drive.cdoFixed (lean/Drive/Asm.lean)",
        "wall_s": round(time.time() - t0, 2)}
    return sum(len(s) for s in iscripts) + sum(len(s) for s in mscripts)


# ----------------------------------------------------------------------------- part 3: firmware

TOOL_FLAGS = ["-std=c++17", "-O1", "-w"]


def build_tools():
    """makedsp1 and dsp1_reader from the tree under test (their main.cpp + the library sources they need), cached by content."""
    R = vlib.REPO
    inc = ["-I" + os.path.join(R, "src"), "-I" + os.path.join(R, "include"), "-I" + os.path.join(R, "include", "teakra", "impl")]
    units = {"mk_main": (os.path.join(R, "src", "makedsp1", "main.cpp"), ["-I" + os.path.join(R, "src", "makedsp1")]),
             "sha256": (os.path.join(R, "src", "makedsp1", "sha256.cpp"), ["-I" + os.path.join(R, "src", "makedsp1")]),
             "rd_main": (os.path.join(R, "src", "dsp1_reader", "main.cpp"), []),
             "parser": (os.path.join(R, "src", "parser.cpp"), []),
             "disassembler": (os.path.join(R, "src", "disassembler.cpp"), [])}
    _, hdrs = vlib.repo_sources()
    hdrs = hdrs + [os.path.join(R, "src", "makedsp1", "sha256.h")]
    h = hashlib.sha256()
    for p in [u[0] for u in units.values()] + hdrs:
        h.update(open(p, "rb").read())
        h.update(b"\0")
    h.update(" ".join(TOOL_FLAGS).encode())
    d = os.path.join(vlib.BUILD, "c05tools", h.hexdigest()[:20])
    mk, rd = os.path.join(d, "makedsp1"), os.path.join(d, "dsp1_reader")
    if os.path.exists(mk) and os.path.exists(rd):
        return mk, rd
    os.makedirs(d, exist_ok=True)
    with vlib.FileLock(os.path.join(vlib.BUILD, "c05tools.lock")):
        if os.path.exists(mk) and os.path.exists(rd):
            return mk, rd

        def cc(name):
            src, extra = units[name]
            rc, out = vlib.sh(["g++"] + TOOL_FLAGS + inc + extra + ["-c", src, "-o", os.path.join(d, name + ".o")], timeout=1800)
            if rc:
                raise RuntimeError("tool compile failed for %s:\n%s" % (src, out[-3000:]))
        with cf.ThreadPoolExecutor(5) as ex:
            list(ex.map(cc, units))
        for exe, objs in ((mk, ["mk_main", "sha256", "parser", "disassembler"]), (rd, ["rd_main", "disassembler"])):
            rc, out = vlib.sh(["g++"] + [os.path.join(d, o + ".o") for o in objs] + ["-o", exe + ".tmp"], timeout=600)
            if rc:
                raise RuntimeError("tool link failed:\n" + out[-3000:])
            os.replace(exe + ".tmp", exe)
    return mk, rd


def read_source(path):
    """makedsp1's reader, line for line (comment strip, `$xxxx`, StringToTokens, segment/data/instruction)."""
    segs, problems = [], []
    raw = open(path, "rb").read().decode("latin-1")
    lines = raw.split("\n")
    if lines and lines[-1] == "":
        lines.pop()
    for ln, line in enumerate(lines, 1):
        c = line.find("//")
        if c >= 0:
            line = line[:c]
        ep = line.find("$")
        e = None
        if ep >= 0:
            if len(line) - ep < 5:
                problems.append("%d: unexpected line break in expansion data" % ln)
                continue
            try:
                e = int(line[ep + 1:ep + 5], 16)
            except ValueError:
                problems.append("%d: expansion data is not 4 hex digits (std::stoi would parse a prefix or throw)" % ln)
                continue
            line = line[:ep] + "0000" + line[ep + 5:]
        t = string_to_tokens(line)
        if not t:
            continue
        if t[0] == "segment":
            if len(t) != 3 or t[1] not in ("p", "d"):
                problems.append("%d: bad segment line" % ln)
                continue
            segs.append({"type": 0 if t[1] == "p" else 2, "target": int(t[2], 16), "items": [], "line": ln})
        elif not segs:
            problems.append("%d: data/instruction before the first segment (makedsp1 would call back() on an empty vector)" % ln)
        elif t[0] == "data":
            if len(t) != 2:
                problems.append("%d: wrong parameter count for data" % ln)
                continue
            segs[-1]["items"].append({"line": ln, "kind": "data", "word": int(t[1], 16) & 0xFFFF})
        else:
            segs[-1]["items"].append({"line": ln, "kind": "inst", "tokens": t, "e": e})
    return segs, problems, len(lines)


def read_dsp1(raw):
    if raw[0x100:0x104] != b"DSP1":
        raise ValueError("no DSP1 magic")
    n = raw[0x10E]
    segs = []
    for i in range(n):
        b = 0x120 + i * 0x30
        off, addr, size = (int.from_bytes(raw[b + k:b + k + 4], "little") for k in (0, 4, 8))
        mt = raw[b + 15]
        data = raw[off:off + size]
        words = [data[k] | (data[k + 1] << 8) for k in range(0, len(data) - 1, 2)]
        segs.append({"type": mt, "target": addr, "words": words, "sha_ok": hashlib.sha256(data).digest() == raw[b + 16:b + 48]})
    return segs


def part_firmware(pair, tools, violations, ev):
    t0 = time.time()
    res = {}
    evals = 0
    srcs = sorted(glob.glob(os.path.join(vlib.REPO, "hwtest", "*", "firm", "source")))
    if not srcs:
        violations.append(("no hwtest/*/firm/source found in the tree under test", {"kind": "error", "error": "missing firmware sources"}, False))
    try:
        mk, rd = tools.result()
    except Exception as ex:  # noqa: BLE001
        violations.append(("makedsp1/dsp1_reader do not build from this tree: " + str(ex)[-600:], {"kind": "error", "error": str(ex)[-4000:]}, False))
        ev["part3_firmware"] = {"error": str(ex)[-600:]}
        return 0
    work = os.path.join(vlib.BUILD, "c05fw")
    os.makedirs(work, exist_ok=True)
    for src in srcs:
        name = src.split(os.sep)[-3]
        binp = os.path.join(os.path.dirname(os.path.dirname(src)), "data", "cdc.bin")
        info = {"source": os.path.relpath(src, vlib.REPO)}
        res[name] = info
        fv = []          # violations of this file
        outp = os.path.join(work, name + ".bin")
        if os.path.exists(outp):
            os.remove(outp)
        p = subprocess.run([mk, src, outp], stdout=subprocess.PIPE, stderr=subprocess.STDOUT, text=True, timeout=600)
        info["makedsp1_rc"] = p.returncode
        shipped = open(binp, "rb").read() if os.path.exists(binp) else None
        if shipped is None:
            fv.append("%s: shipped binary data/cdc.bin is missing" % name)
            continue
        built = open(outp, "rb").read() if os.path.exists(outp) else None
        info["shipped_bytes"] = len(shipped)
        segs, problems, nlines = read_source(src)
        info["source_lines"] = nlines
        info["instruction_lines"] = sum(1 for s in segs for it in s["items"] if it["kind"] == "inst")
        info["data_lines"] = sum(1 for s in segs for it in s["items"] if it["kind"] == "data")
        info["segments"] = len(segs)
        if problems:
            fv.append("%s: source not readable by makedsp1's rules: %s" % (name, "; ".join(problems[:3])))
        # assemble every instruction line with the real parser (line-level diagnostics)
        insts = [it for s in segs for it in s["items"] if it["kind"] == "inst"]
        sc = ["dis reset"] + ["dis parse" + "".join(" " + esc(t) for t in it["tokens"]) for it in insts]
        o, _ = vlib.run_scripts(pair.impl, [sc], shards=1)
        evals += len(sc)
        for it, r in zip(insts, o[0][1:]):
            it["parse"] = r
        dsegs = read_dsp1(shipped)
        info["binary_segments"] = len(dsegs)
        info["sha256_of_segments_ok"] = all(s["sha_ok"] for s in dsegs)
        line_bad = []
        nwords = 0
        inst_at = {}      # (segment index, word offset) -> source instruction
        if len(dsegs) != len(segs):
            line_bad.append("%d segments in the source, %d in the shipped binary" % (len(segs), len(dsegs)))
        for si, (s, dseg) in enumerate(zip(segs, dsegs)):
            words = []
            for it in s["items"]:
                if it["kind"] == "data":
                    words.append(it["word"])
                    continue
                r = it["parse"].split()
                at = len(words)
                if r[0] == "invalid" or r[0] == "assert":
                    line_bad.append("line %d %s: could not parse (%s)" % (it["line"], show(it["tokens"]), it["parse"]))
                    words.append(None)
                    continue
                wv = int(r[1], 16)
                inst_at[(si, at)] = (it, wv)
                words.append(wv)
                if r[0] == "expansion":
                    if it["e"] is None:
                        line_bad.append("line %d %s: needs expansion" % (it["line"], show(it["tokens"])))
                    words.append(it["e"] if it["e"] is not None else None)
                elif it["e"] is not None:
                    line_bad.append("line %d %s: unexpected expansion" % (it["line"], show(it["tokens"])))
                if at < len(dseg["words"]) and dseg["words"][at] != wv:
                    line_bad.append("line %d %s assembles to 0x%04x but the shipped binary has 0x%04x at segment %d word %d" % (it["line"], show(it["tokens"]), wv, dseg["words"][at], si, at))
            nwords += len(words)
            if s["type"] != dseg["type"] or s["target"] != dseg["target"]:
                line_bad.append("segment %d header differs (type/target %d/%x vs %d/%x)" % (si, s["type"], s["target"], dseg["type"], dseg["target"]))
            if [x for x in words] != dseg["words"] and not any("segment %d" % si in b for b in line_bad):
                k = next((k for k in range(max(len(words), len(dseg["words"])))
                          if k >= len(words) or k >= len(dseg["words"]) or words[k] != dseg["words"][k]), None)
                line_bad.append("segment %d differs from the shipped binary at word %s" % (si, k))
        info["words"] = nwords
        info["byte_identical_to_shipped"] = built == shipped
        if built != shipped:
            where = "makedsp1 exited with %d: %s" % (p.returncode, p.stdout.strip()[-200:]) if built is None or p.returncode else \
                "first differing byte at offset 0x%x" % next((k for k in range(min(len(built), len(shipped))) if built[k] != shipped[k]),
                                                             min(len(built), len(shipped)))
            fv.append("%s: `makedsp1 %s` does not reproduce the shipped data/cdc.bin (%s)%s" % (
                name, info["source"], where, ("; " + "; ".join(line_bad[:3])) if line_bad else ""))
        elif line_bad:
            fv.append("%s: makedsp1's output equals the shipped binary but the line-by-line assembly disagrees: %s" % (name, "; ".join(line_bad[:3])))

        # disassemble the shipped binary with the real dsp1_reader and assemble that text again
        txt = os.path.join(work, name + ".txt")
        p2 = subprocess.run([rd, binp, txt], stdout=subprocess.PIPE, stderr=subprocess.STDOUT, text=True, timeout=600)
        dis_bad = []
        stream = []       # (segment index, word offset, w, e or None, text)
        if p2.returncode != 0 or not os.path.exists(txt):
            dis_bad.append("dsp1_reader exited with %d" % p2.returncode)
        else:
            cur, psegs = None, [i for i, s in enumerate(dsegs) if s["type"] in (0, 1)]
            k = -1
            for l in open(txt, "rb").read().decode("latin-1").split("\n"):
                if l.startswith(">>>>>>>> Segment"):
                    k += 1
                    cur = psegs[k] if k < len(psegs) else None
                    continue
                if l.startswith(">>>>>>>> Data Segment"):
                    cur = None
                    continue
                if cur is None or len(l) < 14 or l[8:10] != "  ":
                    continue
                addr, wv = int(l[0:8], 16), int(l[10:14], 16)
                if l[14:] == " ^^^":
                    if stream and stream[-1][0] == cur and stream[-1][3] is None:
                        stream[-1] = stream[-1][:3] + (wv,) + stream[-1][4:]
                    continue
                stream.append((cur, addr - dsegs[cur]["target"], wv, None, l[23:]))
            # the printed words cover every program segment in order
            for si in psegs:
                got = []
                for (c_, off, wv, e, text) in stream:
                    if c_ == si:
                        if off != len(got):
                            dis_bad.append("segment %d: disassembly line at word %d out of sequence" % (si, off))
                        got.append(wv)
                        if e is not None:
                            got.append(e)
                if got != dsegs[si]["words"]:
                    dis_bad.append("segment %d: the words printed by dsp1_reader are not the segment's words" % si)
            # text = API text; assemble it again
            sc = ["dis reset"]
            for (c_, off, wv, e, text) in stream:
                sc += ["dis do %x %x" % (wv, e or 0), "dis tok %x 0" % wv, "dis need %x" % wv]
            o, _ = vlib.run_scripts(pair.impl, [sc], shards=1)
            evals += len(sc)
            rs = o[0][1:]
            psc, pidx = ["dis reset"], []
            unrender = 0
            for i, (c_, off, wv, e, text) in enumerate(stream):
                do, tk, nd = rs[3 * i:3 * i + 3]
                if hexbytes(do).decode("latin-1") != text:
                    dis_bad.append("segment %d word %d: dsp1_reader prints %r, Disassembler::Do gives %r" % (c_, off, text, hexbytes(do)))
                if (nd == "1") != (e is not None):
                    dis_bad.append("segment %d word %d: 0x%04x expansion %s but NeedExpansion=%s" % (c_, off, wv, e, nd))
                if "[ERROR]" in text:
                    unrender += 1
                    if (c_, off) in inst_at:
                        dis_bad.append("segment %d word %d: source line %d is an instruction but its word 0x%04x is not renderable" % (
                            c_, off, inst_at[(c_, off)][0]["line"], wv))
                    continue
                # makedsp1's view of the printed line: put `$` at an occurrence of the second word's digits
                cands = []
                if e is None:
                    cands.append(text)
                else:
                    h = "%04x" % e
                    cands = [text[:j] + "0000" + text[j + 4:] for j in range(len(text) - 3) if text[j:j + 4] == h]
                for cnd in cands:
                    psc.append("dis parse" + "".join(" " + esc(t) for t in string_to_tokens(cnd)))
                    pidx.append(i)
            o, _ = vlib.run_scripts(pair.impl, [psc], shards=1)
            evals += len(psc)
            back = collections.defaultdict(set)
            for i, r in zip(pidx, o[0][1:]):
                if r != "invalid":
                    back[i].add(r)
            reasm = 0
            for i, (c_, off, wv, e, text) in enumerate(stream):
                if "[ERROR]" in text:
                    continue
                want = ("expansion " if e is not None else "valid ") + "%x" % wv
                if back.get(i) != {want}:
                    dis_bad.append("segment %d word %d: 0x%04x%s disassembles to %r, which assembles to %s instead of the same word" % (
                        c_, off, wv, "" if e is None else " 0x%04x" % e, text, sorted(back.get(i, [])) or "nothing"))
                else:
                    reasm += 1
            # the instruction stream of the source is found again, instruction by instruction
            starts = {(c_, off): (wv, e, text) for (c_, off, wv, e, text) in stream}
            same = 0
            for (si, at), (it, wv) in inst_at.items():
                got = starts.get((si, at))
                if got is None:
                    dis_bad.append("source line %d (segment %d word %d) is not the start of a disassembled instruction "
                                   "(the linear sweep lost synchronisation on a data word)" % (it["line"], si, at))
                    continue
                src_text = SEP.join(it["tokens"])
                if it["e"] is None:
                    text_ok = got[2] == src_text
                else:
                    h = "%04x" % it["e"]
                    text_ok = src_text in [got[2][:j] + "0000" + got[2][j + 4:] for j in range(len(got[2]) - 3) if got[2][j:j + 4] == h]
                if got[0] != wv or got[1] != it["e"] or not text_ok:
                    dis_bad.append("source line %d %s$%s is disassembled as %r (word 0x%04x)" % (
                        it["line"], show(it["tokens"]), it["e"], got[2], got[0]))
                else:
                    same += 1
            info["disassembly"] = {"instructions_printed": len(stream), "not_renderable (data words in program segments)": unrender,
                                   "reassembled_to_same_word": reasm, "source_instructions_found_again": same,
                                   "of_source_instructions": len(inst_at)}
        if dis_bad:
            fv.append("%s: disassembling the shipped binary and assembling the result does not give back the instruction stream: %s"
                      % (name, "; ".join(dis_bad[:3])))
        info["violations"] = len(fv)
        for d in fv:
            violations.append((d, {"kind": "c05", "part": "firmware", "file": name, "impl_script": [], "model_script": [], "expect": []}, True))
    ev["part3_firmware"] = {"files": res, "tools": "makedsp1 + dsp1_reader built from the tree under test (src/makedsp1/main.cpp, sha256.cpp, "
                            "src/dsp1_reader/main.cpp, src/parser.cpp, src/disassembler.cpp) into .build/c05tools",
                            "invocation": "makedsp1 <hwtest/X/firm/source> <out>; dsp1_reader <hwtest/X/data/cdc.bin> <out.txt>",
                            "wall_s": round(time.time() - t0, 2)}
    return evals


# ----------------------------------------------------------------------------- part 1b: the translated Lean disassembler

def part_dismodel(pair, rng, tier, violations, ev):
    """Generated/DisasmTable.lean (translated from disassembler.cpp) against the real GetTokenList / Do / NeedExpansion:
    every first word x second words {0, ffff, random...} x one random ArArpSettings (two in the thorough tier)."""
    t0 = time.time()
    nsec = 2 if tier == "quick" else 6
    scripts = []
    for w in range(65536):
        secs = [0, 0xFFFF] + [rng.bits(16) for _ in range(nsec)]
        s = ["dis reset"] + ["dis tok %x %x" % (w, e) for e in secs] + ["dis need %x" % w, "dis do %x %x" % (w, secs[-1])]
        for _ in range(1 if tier == "quick" else 2):
            s.append("dis tok %x %x %s" % (w, rng.bits(16), " ".join("%x" % rng.bits(16) for _ in range(6))))
        scripts.append(s)
    a, ca = vlib.run_scripts(pair.impl, scripts)
    b, cb = vlib.run_scripts(pair.model, scripts)
    n = sum(len(s) for s in scripts)
    if ca or cb:
        i, err = (ca or cb)[0]
        violations.append(("%s died on the disassembler script of opcode 0x%04x: %s" % ("harness" if ca else "model driver", i, err[-300:]),
                           {"kind": "crash", "script": scripts[i], "stderr": err}, bool(ca)))
        return n
    bad = [w for w in range(65536) if a[w] != b[w]]
    ev["part1b_disasm_model"] = {"first_words": 65536, "lines_compared": n, "mismatching_first_words": len(bad),
                                 "wall_s": round(time.time() - t0, 2)}
    for w in bad[:2]:
        k = [i for i in range(len(scripts[w])) if a[w][i] != b[w][i]][0]
        violations.append((
            "the Lean disassembler model translated from disassembler.cpp (theorems text_unused_irrelevant, "
            "text_second_word_only_if_expanded are about it) differs from the real code on `%s`: impl %r, model %r (%d first words differ)"
            % (scripts[w][k], a[w][k], b[w][k], len(bad)),
            {"kind": "c05", "part": "dismodel", "impl_script": ["dis reset", scripts[w][k]],
             "model_script": ["dis reset", scripts[w][k]], "expect": [{"model_eq_impl": [1, 1]}]}, False))
    return n


# ----------------------------------------------------------------------------- entry points

def load_table():
    return json.load(open(GEN_JSON if os.path.exists(GEN_JSON) else GOLDEN_JSON))


def explore(rng, tier, replay=None):
    violations = []
    ev = {}
    bg = cf.ThreadPoolExecutor(1)
    tools = bg.submit(build_tools)
    try:
        pair = vlib.Pair("plain")
    except RuntimeError as ex:
        return {"evaluations": 0, "exhaustive": False, "rule": "harness unavailable",
                "violations": [("harness or model driver does not build on this tree: " + str(ex)[-600:],
                                {"kind": "error", "error": str(ex)[-4000:]}, False)]}
    data = load_table()
    evals = 0
    p1 = part_tokens(pair, rng.fork("tokens"), tier, data, violations, ev)
    if p1:
        evals += p1["evaluations"]
    evals += part_dismodel(pair, rng.fork("dismodel"), tier, violations, ev)
    evals += part_cbinding(pair, rng.fork("cbinding"), tier, p1, violations, ev)
    evals += part_firmware(pair, tools, violations, ev)
    bg.shutdown(wait=False)
    ctx = {"evaluations": evals, "distinct_nontrivial": p1["signatures"] if p1 else 0,
           "exhaustive": bool(p1), "exhaustive_part":
               "part (1) only: all 65536 first words through the real GetTokenList/NeedExpansion/Do (second words sampled), grouped "
               "against the decode table, every distinct text through the real Parser::Parse and the Lean parser model built from "
               "the same 65536 entries. Parts (2) C binding and (3) firmware are not exhaustive (sampled opcodes x all buffer sizes "
               "0..64; the four shipped sources)",
           "rule": "(1b) the Lean disassembler model translated from disassembler.cpp vs the real GetTokenList/Do/NeedExpansion on every first "
                   "word x second words x ArArpSettings. (1) every first word: token lists for sampled second words, NeedExpansion (C++ and C), Do = join; grouping by text "
                   "=> SameTextOnlyUnused against the translated decode table; Parse(text) = least opcode of the group with its status on "
                   "the real parser and on the parser model fed with the real entries, plus malformed token lists; second word printed "
                   "verbatim at one place; pinned text. (2) Teakra_Disasm_Do on canary-guarded heap buffers vs the cDo model for dstlen "
                   "0..64 and len-1..len+2. (3) makedsp1 on hwtest/*/firm/source vs data/cdc.bin byte for byte, dsp1_reader on the "
                   "binaries, re-assembly of its text. distinct = distinct renderable texts + error opcodes",
           "traces_validated_against_impl": evals, "unmodelled": [],
           "direct_property_cases": ev, "samples": ev.pop("samples", []), "harness_build_s": pair.build_s,
           "violations": violations}
    return ctx


def check_expect(expect, ia, mb):
    """Evaluate the recorded predicates on the replayed outputs; returns list of failed predicates."""
    bad = []
    for e in expect:
        (k, v), = e.items()
        try:
            if k == "eq" and ia[v[0]] != v[1]:
                bad.append("impl line %d = %r, expected %r" % (v[0], ia[v[0]], v[1]))
            elif k == "ne" and ia[v[0]] == v[1]:
                bad.append("impl line %d = %r" % (v[0], ia[v[0]]))
            elif k == "distinct" and ia[v[0]] == ia[v[1]]:
                bad.append("impl lines %d and %d are both %r" % (v[0], v[1], ia[v[0]]))
            elif k == "model_eq_impl" and mb[v[0]] != ia[v[1]]:
                bad.append("model %r vs impl %r" % (mb[v[0]], ia[v[1]]))
            elif k == "do_is_join":
                toks = parse_tok(ia[v[1]])
                if toks is None or ia[v[0]] != (SEP.join(toks).encode("latin-1").hex() or "-"):
                    bad.append("Do text %r is not the join of %r" % (ia[v[0]], toks))
        except IndexError:
            bad.append("missing output for %r" % e)
    return bad


def replay(rep):
    if rep.get("kind") == "crash":
        import corr
        return corr.replay(rep)
    if rep.get("kind") != "c05":
        print(json.dumps(rep, indent=1)[:4000])
        return 1
    try:
        regenerate()
    except Exception as ex:  # noqa: BLE001
        print("translator failed: %s" % ex)
    pair = vlib.Pair("plain")
    if rep.get("part") == "firmware":
        bg = cf.ThreadPoolExecutor(1)
        v, ev = [], {}
        part_firmware(pair, bg.submit(build_tools), v, ev)
        mine = [x for x in v if x[1].get("file") == rep.get("file")]
        print(json.dumps(ev["part3_firmware"]["files"].get(rep.get("file"), {}), indent=1))
        for d in mine:
            print("STILL FAILS: " + d[0])
        return 1 if mine else 0
    ia = vlib.run_scripts(pair.impl, [rep["impl_script"]], shards=1)[0][0] if rep.get("impl_script") else []
    mb = vlib.run_scripts(pair.model, [rep["model_script"]], shards=1)[0][0] if rep.get("model_script") else []
    for l, r in zip(rep.get("impl_script", []), ia):
        print("> %s\n  impl : %s" % (l, r))
    for l, r in zip(rep.get("model_script", []), mb):
        print("> %s\n  model: %s" % (l, r))
    if rep.get("tokens") is not None:
        # the parser model on the entries of the tree being replayed
        sc = [["dis reset", "dis tok %x 0" % w, "dis need %x" % w] for w in range(65536)]
        o, _ = vlib.run_scripts(pair.impl, sc)
        ms = ["asm reset"] + ["asm add %x %s %s" % (w, r[2], r[1].split(" ", 1)[1] if " " in r[1] else "") for w, r in enumerate(o)]
        ms.append("asm parse" + "".join(" " + esc(t) for t in rep["tokens"]))
        m = vlib.run_scripts(pair.model, [ms], shards=1)[0][0]
        print("> %s   (after `asm add` of all 65536 real entries)\n  model: %s" % (ms[-1], m[-1]))
    bad = check_expect(rep.get("expect", []), ia, mb)
    for b in bad:
        print("FAILS: " + b)
    if not rep.get("expect"):
        print(rep.get("description", ""))
        return 1
    return 1 if bad else 0


if __name__ == "__main__":
    if len(sys.argv) > 1 and sys.argv[1] == "--repin":
        repin()
    else:
        print(__doc__)
