"""C03 — accumulator add/sub/compare/logic: exact results, flags and saturation."""
import corr
from checks import alu_common

PROP = "C03"
MODULE = "Proofs.C03Exec"
NS = "Teakra.Alu."
THEOREMS = [NS + t for t in ["addSub_result", "addSub_wf", "addSub_value", "addSub_carry", "addSub_overflow",
                             "wf_toNat_cases", "accFlags_spec", "saturate_spec"]] + \
           ["Teakra.Interp." + t for t in ["run_getAcc", "run_setAcc", "run_addSub", "run_satAndSetAccAndFlag",
                                           "satSetRegs_spec", "satSetRegs_frame", "add_Ab_Bx_run", "sub_Ab_Bx_run",
                                           "addSubRegs_spec", "cmp_Ax_Bx_run", "cmp_keeps_accumulators"]]
TRUSTED = ["hand-written model lean/TeakraModel/Alu.lean (value parts of AddSub/SetAccFlag/SaturateAcc) and the handler "
           "transcriptions in lean/TeakraModel/Exec/*.lean, tied by the `alu` helper slice and the `interp` instruction slice"]
ASSUMPTIONS = ["theorems are about the value-level helpers every ALU-family handler funnels through; the per-handler "
               "composition (which operand, which extension) is tied to the C++ by the instruction-level correspondence"]
PREFIXES = ["alm_", "alu_", "alb_", "or__", "and__", "add_", "sub_", "cmp_", "moda", "pacr1", "clr", "norm", "swap",
            "lim_", "movr_", "addhp", "min_", "max_"]


def helper_scripts(rng, n):
    out = []
    for _ in range(n):
        m = rng.below(10)
        if m < 5:
            out.append(["alu addsub %x %x %x %x" % (alu_common.acc(rng), alu_common.acc(rng), rng.below(2), rng.below(2))])
        elif m < 8:
            out.append(["alu flags %x" % alu_common.acc(rng)])
        else:
            out.append(["alu sat %x %x" % (alu_common.acc(rng), rng.below(2))])
    return out


def explore(rng, tier, replay=None):
    n = 40000 if tier == "quick" else 2000000
    return alu_common.explore(PROP, rng, tier, helper_scripts(rng, n), PREFIXES,
                              "helper level: AddSub / SetAccFlag / SaturateAcc called directly on boundary-biased 40-bit "
                              "operands (incl. non-well-formed 64-bit patterns); instruction level: every opcode of the "
                              "add/sub/compare/logic/moda families from seeded states")


def replay(rep):
    return corr.replay(rep)
