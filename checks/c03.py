"""C03 — accumulator add/sub/compare/logic: exact results, flags and saturation."""
import corr
from checks import alu_common

PROP = "C03"
MODULE = "Proofs.C03All"
NS = "Teakra.Alu."
THEOREMS = [NS + t for t in ["addSub_result", "addSub_wf", "addSub_value", "addSub_carry", "addSub_overflow",
                             "wf_toNat_cases", "accFlags_spec", "saturate_spec"]] + \
           ["Teakra.Interp." + t for t in ["run_getAcc", "run_setAcc", "run_addSub", "run_satAndSetAccAndFlag",
                                           "satSetRegs_spec", "satSetRegs_frame", "add_Ab_Bx_run", "sub_Ab_Bx_run",
                                           "addSubRegs_spec", "cmp_Ax_Bx_run", "cmp_keeps_accumulators"]] + \
           [NS + t for t in ["I40_cases", "I40_bounds", "I40_signExtend", "signExtend40_wf", "wf_of_toNat", "I40_neg",
                             "I40_not", "not_wf"]] + \
           ["Teakra.Interp." + t for t in [
               # Proofs/C03b.lean: Moda family, AlmGeneric logic / test / compare forms, operand extension
               "setAccOf_frame", "accOf_setAccOf", "accOf_setAccOf_ne", "addSubWrite_spec", "run_conditionPass",
               "moda_fail", "run_setAccAndFlag", "moda_inc_run", "moda_dec_run", "moda_rnd_run", "moda_incdecrnd_spec",
               "satSetRegs_fits", "moda_clr_run", "moda_clrr_run", "setFlagRegs_spec", "moda_clr_spec",
               "moda_clrr_spec", "moda_copy_run", "moda_copy_spec", "moda_not_run", "moda_not_spec", "moda_neg_run",
               "moda_neg_spec", "negCarryForAnyPattern_false", "moda_handlers", "alm_logic_run",
               "signExtend40_getLsbD", "alm_logic_spec", "alm_tst0_run", "alm_tst1_run", "alm_cmp_run",
               "cmpRegs_spec", "extendOperandForAlm_spec"]]
TRUSTED = ["hand-written model lean/TeakraModel/Alu.lean (value parts of AddSub/SetAccFlag/SaturateAcc) and the handler "
           "transcriptions in lean/TeakraModel/Exec/*.lean, tied by the `alu` helper slice and the `interp` instruction slice"]
ASSUMPTIONS = ["theorems are about the value-level helpers every ALU-family handler funnels through; the per-handler "
               "composition (which operand, which extension) is tied to the C++ by the instruction-level correspondence",
               "moda_neg_spec / moda_not_spec / moda_copy_spec assume the source accumulator is a sign-extended 40-bit "
               "pattern (AccWF); negCarryForAnyPattern_false shows the neg carry claim fails without it"]
PREFIXES = ["alm_", "alu_", "alb_", "or__", "and__", "add_", "sub_", "cmp_", "moda", "pacr1", "clr", "norm", "swap",
            "lim_", "movr_", "addhp", "min_", "max_"]


def helper_scripts(rng, n):
    out = []
    for _ in range(n):
        m = rng.below(10)
        if m < 5:
            out.append(["alu addsub %x %x %x %x" % (alu_common.acc(rng), alu_common.acc(rng), rng.below(2), rng.below(2))])
        elif m < 8:
            out.append(["alu flags %x" % alu_common.acc(rng)])
        else:
            out.append(["alu sat %x %x" % (alu_common.acc(rng), rng.below(2))])
    return out


def explore(rng, tier, replay=None):
    n = 40000 if tier == "quick" else 2000000
    return alu_common.explore(PROP, rng, tier, helper_scripts(rng, n), PREFIXES,
                              "helper level: AddSub / SetAccFlag / SaturateAcc called directly on boundary-biased 40-bit "
                              "operands (incl. non-well-formed 64-bit patterns); instruction level: every opcode of the "
                              "add/sub/compare/logic/moda families from seeded states")


def replay(rep):
    return corr.replay(rep)
