"""Generators shared by the helper-level slices (C03, C04, C10) and family-restricted
instruction-level slices."""
import os
import re
import corr
from checks import c01


_POOL = None


def acc_pool():
    """Arithmetic boundary values of a 40-bit accumulator, plus every wide hex literal that occurs in the
    interpreter source under test (+-1): constants the code compares against are where a changed
    boundary shows."""
    global _POOL
    if _POOL is None:
        import re
        import vlib
        vals = [0, 1, -1, 0x7FFFFFFF, -2**31, 2**31, -2**31 - 1, 2**39 - 1, -2**39, -2**39 + 1, 0x8000, 0xFFFF,
                0x10000, 0x7FFF8000, 2**38, -2**38 - 1]
        try:
            src = open(os.path.join(vlib.REPO, "src", "interpreter.h")).read()
            for lit in set(re.findall(r"0x[0-9A-Fa-f']+", src)):
                v = int(lit.replace("'", ""), 16)
                if v > 0xFFFF:
                    if v >= 2**63:
                        v -= 2**64
                    vals += [v, v - 1, v + 1]
        except OSError:
            pass
        out = []
        for v in vals:
            v &= 0xFFFFFFFFFF
            if v & 0x8000000000:
                v |= 0xFFFFFF0000000000
            if v not in out:
                out.append(v)
        _POOL = out
    return _POOL


def acc(rng):
    """64-bit accumulator pattern: half from the boundary pool, otherwise in the shapes of the project's
    own bit40() generator (mostly well-formed, i.e. sign-extended from 40), sometimes arbitrary."""
    m = rng.below(10)
    if m <= 4:
        return rng.choice(acc_pool())
    if m == 5:
        v = (1 << rng.below(40)) if rng.chance(1, 2) else ((1 << rng.below(41)) - 1)
    elif m < 8:
        v = rng.bits(32)
        if v & 0x80000000:
            v |= 0xFF00000000
    elif m < 9 or rng.chance(1, 2):
        v = rng.bits(40)
    else:
        return rng.bits(64)          # not well-formed
    v &= 0xFFFFFFFFFF
    if v & 0x8000000000:
        v |= 0xFFFFFF0000000000
    return v


def key_matches(k, prefixes):
    """A handler key belongs to the family if it starts with one of the prefixes; a prefix written `~regex` is
    searched anywhere in the key (used to select handlers by operand type)."""
    return any(re.search(p[1:], k) if p.startswith("~") else k.startswith(p) for p in prefixes)


def family_scripts(rng, prefixes, nstates):
    """Instruction-level scripts for every opcode whose handler key starts with one of prefixes."""
    import gen_dispatch
    import vlib
    info = gen_dispatch.main(vlib.REPO, vlib.LEAN)
    missing = set(info["missing"])
    keys = c01.opcode_keys()
    per_key = {}
    for kx in keys:
        if kx is not None:
            per_key[kx[0]] = per_key.get(kx[0], 0) + 1
    scripts = []
    for w in range(65536):
        if keys[w] is None:
            continue
        k, x = keys[w]
        if k in missing or not key_matches(k, prefixes):
            continue
        for _ in range(nstates):
            scripts.append(["interp gen %x" % rng.bits(40), "interp step %x %x" % (w, rng.biased(16))])
        # the same opcode with the accumulators / products / factors at arithmetic boundary values;
        # small families get more cases per opcode (at least ~2000 per handler)
        for _ in range(max(1, nstates // 2, -(-2000 // per_key.get(k, 1)) if per_key.get(k, 1) < 2000 else 1)):
            pokes = c01.boundary_pokes(rng)
            scripts.append(["interp gen %x" % rng.bits(40)] + pokes + ["interp step %x %x" % (w, rng.biased(16))])
    return scripts, keys, [k for k in missing if key_matches(k, prefixes)]


def explore(prop, rng, tier, helper_scripts, prefixes, rule):
    nstates = 1 if tier == "quick" else 8
    fam, keys, unmod = family_scripts(rng, prefixes, nstates)
    scripts = helper_scripts + fam

    def signature(script, impl):
        out = []
        for line, r in zip(script, impl):
            t = line.split()
            if t[0] == "alu":
                out.append((t[1],) + tuple(x[:1] + str(len(x)) for x in r.split()[:4]))
            elif t[1] == "step":
                w = int(t[2], 16)
                out.append((keys[w][0], r.split(" ")[0]))
        return out

    def judge(pair, script, impl, model):
        if script[-1].startswith("alu"):
            return True, "(helper result differs from the model, which is proved equal to exact integer arithmetic)"
        s2 = script[:-1] + [script[-1].replace("interp step", "interp stepv")]
        a, b, _, _ = pair.run([s2], shards=1)
        return True, "(instruction result differs from the reference model: %s)" % c01.field_diff(a[0][-1], b[0][-1])

    return corr.explore(prop, scripts, judge=judge, signature=signature, model_first=True, rule=rule,
                        extra={"unmodelled": sorted(unmod), "helper_cases": len(helper_scripts),
                               "family_instruction_cases": len(fam)})


def instr_slice(rng, prefixes, nstates, with_variants=True):
    """Instruction-level cases for the handlers whose key starts with one of `prefixes`, from plain seeded
    states and from the interpreter-state variants of C01 (inside a repeat / block repeat / interrupts on).
    Returns (violations, stats) for a check that wants to add this slice to its own exploration."""
    import vlib
    fam, keys, unmod = family_scripts(rng, prefixes, nstates)
    scripts = list(fam)
    if with_variants:
        for s in fam:
            v = c01.variant(rng, 1, False)
            if v:
                scripts.append([s[0]] + v + [s[-1]])
    pair = vlib.Pair("plain")
    bad, a, b, crashes = pair.diff(scripts, model_first=True)
    violations = []
    for (i, kk, ia, mb) in bad[:3]:
        s2 = scripts[i][:-1] + [scripts[i][-1].replace("interp step", "interp stepv")]
        ra, rb, _, _ = pair.run([s2], shards=1)
        why = c01.field_diff(ra[0][-1], rb[0][-1])
        w = int(scripts[i][-1].split()[2], 16)
        violations.append(("instruction `%s` (%s; state: %s) differs from the reference model: %s"
                           % (scripts[i][-1], keys[w][0] if keys[w] else "?", " ; ".join(scripts[i][1:-1]) or "plain", why),
                           {"kind": "correspondence", "script": scripts[i], "impl": a[i], "model": b[i],
                            "correspondence": "interp/step"}, True))
    return violations, {"instruction_cases": len(scripts), "instruction_disagreements": len(bad),
                        "skipped_by_model": getattr(pair, "skipped", 0)}
