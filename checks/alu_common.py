"""Generators shared by the helper-level slices (C03, C04, C10) and family-restricted
instruction-level slices."""
import corr
from checks import c01


def acc(rng):
    """64-bit accumulator pattern: mostly well-formed (sign-extended from 40), in the shapes of the
    project's own bit40() generator, sometimes arbitrary."""
    m = rng.below(10)
    if m == 0:
        v = rng.choice([0, 1, 0x7FFFFFFF, 0x80000000, 0xFFFFFFFF, 0x7FFFFFFFFF, 0x8000000000, 0xFFFFFFFFFF,
                        0x7FFF8000, 0xFFFF, 0x10000, 0x8000, 0x7FFFFFFE, 0x80000001])
    elif m == 1:
        v = (1 << rng.below(40))
    elif m == 2:
        v = ((1 << rng.below(41)) - 1)
    elif m < 5:
        v = rng.bits(32)
        if v & 0x80000000:
            v |= 0xFF00000000
    elif m < 9:
        v = rng.bits(40)
    else:
        return rng.bits(64)          # not well-formed
    v &= 0xFFFFFFFFFF
    if v & 0x8000000000:
        v |= 0xFFFFFF0000000000
    return v


def family_scripts(rng, prefixes, nstates):
    """Instruction-level scripts for every opcode whose handler key starts with one of prefixes."""
    import gen_dispatch
    import vlib
    info = gen_dispatch.main(vlib.REPO, vlib.LEAN)
    missing = set(info["missing"])
    keys = c01.opcode_keys()
    scripts = []
    for w in range(65536):
        if keys[w] is None:
            continue
        k, x = keys[w]
        if k in missing or not any(k.startswith(p) for p in prefixes):
            continue
        for _ in range(nstates):
            scripts.append(["interp gen %x" % rng.bits(40), "interp step %x %x" % (w, rng.biased(16))])
    return scripts, keys, [k for k in missing if any(k.startswith(p) for p in prefixes)]


def explore(prop, rng, tier, helper_scripts, prefixes, rule):
    nstates = 1 if tier == "quick" else 8
    fam, keys, unmod = family_scripts(rng, prefixes, nstates)
    scripts = helper_scripts + fam

    def signature(script, impl):
        out = []
        for line, r in zip(script, impl):
            t = line.split()
            if t[0] == "alu":
                out.append((t[1],) + tuple(x[:1] + str(len(x)) for x in r.split()[:4]))
            elif t[1] == "step":
                w = int(t[2], 16)
                out.append((keys[w][0], r.split(" ")[0]))
        return out

    def judge(pair, script, impl, model):
        if script[-1].startswith("alu"):
            return True, "(helper result differs from the model, which is proved equal to exact integer arithmetic)"
        s2 = script[:-1] + [script[-1].replace("interp step", "interp stepv")]
        a, b, _, _ = pair.run([s2], shards=1)
        return True, "(instruction result differs from the reference model: %s)" % c01.field_diff(a[0][-1], b[0][-1])

    return corr.explore(prop, scripts, judge=judge, signature=signature, model_first=True, rule=rule,
                        extra={"unmodelled": sorted(unmod), "helper_cases": len(helper_scripts),
                               "family_instruction_cases": len(fam)})
