"""C06 - Run(n) is equivalent to n single-cycle steps, however it is sliced.

Proof side: Proofs/C06.lean (the control structure of Interpreter::Run for ANY machine satisfying the stated
obligations: run_eq_cycles, run_slice, run_partition) and Proofs/C06Sys*.lean (the obligations discharged for
the concrete machine TeakraModel/Sys.lean: core + bus + both timers + both audio ports + ICU).

Tie: the `bus` unit (harness/u_bus.cpp on a real Teakra::Teakra; lean/Drive/Bus.lean) with the system-level ops
`gen/poke/run/steps/state`.  Every case is a small DSP program (main code ending in an idle self-branch or a busy
loop, handlers for int0/int1/int2 and a vectored handler), peripheral programming through host MMIO writes
(timers in every mode, ICU routing, audio port), host events between slices, and two executions of the same
cycle budget from the same start: one partition of the budget against another (a single call, all ones, random
slices incl. zero-length ones).  `inspect` compares the two executions ON THE IMPLEMENTATION (final registers,
every MMIO register, all memory, the interrupt latches, and the ordered callback / interrupt-signal events); the
correspondence compares model and implementation line by line.
"""
import os
import sys

import corr
import vlib

PROP = "C06"
MODULE = "Proofs.C06Host"
L = "Teakra.LoopOps."
S = "Teakra.Sys."
THEOREMS = [L + t for t in ["P_cyclesN", "go_eq_cycles", "run_eq_cycles", "run_slice", "P_run", "run_partition"]] + \
           [S + t for t in ["ffOk", "obsOk", "run_eq_steps", "run_partition", "upstream_skip_not_idle",
                            "upstream_body_enters_interrupt", "fixed_no_skip", "decoderArray_getD", "decode_brrSelf",
                            "cycle_brr", "interruptCheck_noop", "ticksN_quiet", "skip_eq_ticked", "idle_body",
                            "body_congr", "tick_congr", "run_script_slicing", "run_script_merged", "run_script_slicing_items",
                            "guardEnv_hostOk", "guardP_not_hostOk"]] + \
           [L + t for t in ["run_congr", "exec_congr", "exec_merge", "exec_same_merge", "exec_run_zero", "exec_insert_run_zero",
                            "budget_merge"]]
TRUSTED = ["hand-written model lean/TeakraModel/{Run,RunLoop,Sys,Core,Bus,Periph,Timer,Btdmp,Icu}.lean of Interpreter::Run, "
           "CoreTiming::Tick/Skip and the facade wiring, tied by the `bus run/steps` correspondence on a real Teakra::Teakra",
           "the instruction handlers executed by the loop body are those of C01 (tied there)",
           "harness/u_bus.cpp + generated copy of Teakra::Impl (tools/gen_impl.py), tools/vlib.py, g++ 12"]
ASSUMPTIONS = [
    "the theorems hold on the invariant Sys.P: an idle state is a plain self-branch (`brr -1` whose condition holds, not under "
    "`rep`, not the last instruction of an active block repeat, nothing deliverable) - the exclusion stated in the property; the "
    "model refuses (answers `unmodelled`) to enter any other idle state; both audio ports satisfy the flag invariant and have "
    "a well-formed frame clock (an executable guard of the model's tick; the facade cannot change the period); timers are in a "
    "configuration Timer::Tick accepts (otherwise both Run and the single steps abort on the next tick)",
    "cycle budgets up to 2^63",
    "host events are placed at slice boundaries (between two calls of Run), as in the property; Proofs/C06Host.lean proves the "
    "statement for scripts of Run calls and host calls (mailbox send/receive, semaphore set/mask/clear, MMIO read/write): two "
    "scripts with the same host calls at the same cumulative cycle positions observe the same; an MMIO access is covered "
    "through a guard that never reads the idle flag (it rejects an access that leaves the audio/timer envelope or destroys "
    "the self-branch the core is parked on)",
    "observation = everything except the interpreter's private idle flag, which Run re-initialises on entry"]


def regenerate():
    sys.path.insert(0, os.path.join(vlib.ROOT, "tools"))
    import gen_impl
    st = gen_impl.generate()
    st.pop("include_dir", None)
    return st


# ---------------------------------------------------------------------------------------------------- programs

PLAIN = [0x0000] + [0x0080 | rn | (st << 3) for rn in range(8) for st in (1, 2)] + [0x4380, 0x43C0]
COND_PASS_AT_RESET = [0, 2, 3, 4, 7, 12, 13]     # true, neq, gt, ge, nn, nr, niu0 hold with all flags clear
COND_FAIL_AT_RESET = [1, 5, 8, 9, 10, 11]        # eq, lt, c, v, e, l do not
PLAIN_REG = [0x0080 | rn | (st << 3) for rn in range(8) for st in (1, 2)]   # modr rN+/-: flags other than fr untouched


def program(rng):
    """(list of `pw` lines, description).  Vectors at 0x6/0xE/0x16, main at 0x100, vectored handler at 0x200."""
    w = {}
    w[0], w[1] = 0x4180, 0x0100                      # br 0x0100
    for i, base in enumerate((0x06, 0x0E, 0x16)):
        body = [rng.choice(PLAIN) for _ in range(rng.below(4))]
        ret = rng.choice([0x45C0, 0x45C0, 0x45D0])   # reti / retic
        for k, x in enumerate(body + [ret]):
            w[base + k] = x
    vb = [rng.choice(PLAIN) for _ in range(rng.below(5))] + [rng.choice([0x45C0, 0x45D0])]
    for k, x in enumerate(vb):
        w[0x200 + k] = x
    kind = rng.choice(["idle", "idle", "idle", "idle-late", "busy", "idle-cond", "cond-false"])
    pc = 0x100
    pre = [rng.choice(PLAIN) for _ in range(rng.below(6) if kind != "idle" else 0)]
    if kind == "idle-late":
        pre += [0x4380]                              # eint just before idling
    for x in pre:
        w[pc] = x
        pc += 1
    if kind == "cond-false":
        # a conditional self-branch whose condition does NOT hold falls through: it must not be taken for the idle loop
        w[pc] = 0x57F0 | rng.choice(COND_FAIL_AT_RESET)
        pc += 1
        for _ in range(1 + rng.below(5)):
            w[pc] = rng.choice(PLAIN_REG)
            pc += 1
        w[pc] = 0x57F0
        w[pc + 1] = 0x57F0
    elif kind == "busy":
        w[pc] = rng.choice(PLAIN)
        w[pc + 1] = 0x57E0                           # brr -2: a two-instruction loop that never idles
    else:
        cond = rng.choice(COND_PASS_AT_RESET) if kind == "idle-cond" else 0
        w[pc] = 0x57F0 | cond
        w[pc + 1] = 0x57F0
    return ["bus pw %x %x" % (a, v) for a, v in sorted(w.items())], kind


def setup(rng):
    s = []
    # core: stack in ordinary data memory, interrupt enables/masks, context-switch bits, pc word order
    s += ["bus poke sp %x" % rng.choice([0x1000, 0x0800, 0x7FF0]), "bus poke ie %x" % (0 if rng.chance(1, 6) else 1)]
    for i in range(3):
        s.append("bus poke im%d %x" % (i, 0 if rng.chance(1, 4) else 1))
        if rng.chance(1, 3):
            s.append("bus poke ic%d 1" % i)
    s.append("bus poke imv %x" % rng.below(2))
    if rng.chance(1, 4):
        s.append("bus poke cpc 0")
    # ICU routing of timer0 (0xA), timer1 (0x9), audio (0xB), mailbox (0xE), manual (some other line)
    srcs = [0x9, 0xA, 0xB, 0xE, rng.below(16)]
    for off in (0x206, 0x208, 0x20A, 0x20C):
        m = 0
        for q in srcs:
            if rng.chance(1, 3):
                m |= 1 << q
        s.append("bus mw %x %x" % (off, m))
    for q in set(srcs):
        s.append("bus mw %x %x" % (0x212 + 4 * q, 0x8000 if rng.chance(1, 3) else 0))
        s.append("bus mw %x 200" % (0x214 + 4 * q))
    # timers
    for i in range(2):
        if rng.chance(1, 5):
            continue
        mode = rng.choice([0, 1, 1, 1, 2])
        start = rng.choice([0, 1, 2, 3, 4, 5, 7, 9, 13, 20, 50, 200, 0x10000 + rng.below(50)]) if rng.chance(9, 10) else rng.bits(32)
        ctl = (mode << 2) | 0x400 | (0x200 if rng.chance(1, 2) else 0) | (0x100 if rng.chance(1, 10) else 0)
        s += ["bus mw %x %x" % (0x24 + 16 * i, start & 0xFFFF), "bus mw %x %x" % (0x26 + 16 * i, start >> 16),
              "bus mw %x %x" % (0x20 + 16 * i, ctl)]
    # audio port 0/1
    for i in range(2):
        if rng.chance(1, 2):
            s.append("bus btperiod %x %x" % (i, rng.choice([1, 2, 3, 5, 8, 17, 64, 300])))
            for _ in range(rng.below(20)):
                s.append("bus mw %x %x" % (0x2C6 + 0x80 * i, rng.bits(16)))
            s.append("bus mw %x %x" % (0x2BE + 0x80 * i, rng.choice([0x8000, 1, 0])))
    return s


def host_event(rng):
    m = rng.below(9)
    if m == 0:
        return "bus send %x %x" % (rng.below(3), rng.bits(16))
    if m == 1:
        return "bus semset %x" % rng.bits(16)
    if m == 2:
        return "bus mw 204 %x" % (1 << rng.below(16))        # software trigger
    if m == 3:
        return "bus mw 202 %x" % rng.bits(16)                # acknowledge
    if m == 4:
        return "bus mw %x %x" % (0x2C6 + 0x80 * rng.below(2), rng.bits(16))
    if m == 5:
        return "bus mw %x %x" % (0x20 + 16 * rng.below(2), (rng.choice([0, 1, 2]) << 2) | 0x400)   # restart a timer
    if m == 6:
        return "bus recv %x" % rng.below(3)
    if m == 7:
        return "bus poke ie 1"
    return "bus mw %x %x" % (rng.choice([0x206, 0x208, 0x20A, 0x20C]), rng.bits(16))


def partition(rng, n, how):
    if how == "one":
        return [("run", n)]
    if how == "ones":
        return [("steps", n)]
    parts = []
    left = n
    while left > 0:
        k = rng.choice([0, 1, 1, 2, 3, rng.below(left + 1), rng.below(min(left, 40) + 1)])
        k = min(k, left)
        parts.append(("run", k))
        left -= k
    if rng.chance(1, 3):
        parts.append(("run", 0))
    return parts


def case(rng, tier):
    seedless = ["bus new %s" % rng.choice(["own", "own", "capi"])]   # capi: Teakra_Run etc. through the C binding
    prog, kind = program(rng)
    st = setup(rng)
    nseg = 1 + rng.below(4)
    segs = [rng.choice([1, 2, 5, 17, 60, 200, 700, rng.below(1500)]) for _ in range(nseg)]
    evs = [[host_event(rng) for _ in range(rng.below(3))] for _ in range(nseg - 1)]
    hows = rng.choice([("one", "ones"), ("one", "random"), ("random", "ones"), ("random", "random")])
    if kind == "cond-false" and rng.chance(2, 3):
        hows = ("one", "ones")       # a stale idle flag only shows inside one long call
    script = []
    for how in hows:
        script += seedless + prog + st
        for k, n in enumerate(segs):
            for op, c in partition(rng, n, how):
                script.append("bus %s %x" % (op, c))
            if k < len(evs):
                script += evs[k]
        script.append("bus state")
    return script


def d3_family():
    """The interrupt raised by the last tick of the cycle in which the idle branch first executes: a timer whose
    period equals the length of handler + return + one idle iteration."""
    out = []
    for start in range(0, 12):
        for body in ([0x0088], [], [0x0088, 0x0090], [0, 0, 0]):
            s = []
            for op in ("run", "steps"):
                s += ["bus new own", "bus pw 0 57f0"]
                for k, x in enumerate(body + [0x45C0]):
                    s.append("bus pw %x %x" % (6 + k, x))
                s += ["bus poke sp 1000", "bus poke ie 1", "bus poke im0 1", "bus mw 206 400",
                      "bus mw 24 %x" % start, "bus mw 26 0", "bus mw 20 604", "bus %s 100" % op, "bus state"]
            out.append(s)
    return out


# ---------------------------------------------------------------------------------------------------- judging

def executions(script, impl):
    """Split a case into its executions: [(events in order, final state line, aborted?)]."""
    runs = []
    cur = None
    for line, r in zip(script, impl):
        t = line.split()
        if t[1] == "new":
            cur = {"events": [], "state": None, "abort": False, "first": len(runs)}
            runs.append(cur)
            continue
        if cur is None:
            continue
        head = r.split(" ")[0]
        if head in vlib.ABORTS or head in ("unmodelled", "hang", "toolong", "bad-op"):
            cur["abort"] = True
        if t[1] != "state":
            parts = r.split("|")
            if len(parts) >= 2 and parts[1].strip() not in ("-", ""):
                cur["events"] += parts[1].strip().split(",")
        if t[1] == "state":
            cur["state"] = r
    return runs


def inspect(script, impl):
    runs = executions(script, impl)
    if len(runs) < 2 or any(x["abort"] or x["state"] is None for x in runs):
        return []
    a, b = runs[0], runs[1]
    bad = []
    if a["state"] != b["state"]:
        fa, fb = a["state"].split(), b["state"].split()
        names = ["registers", "MMIO read-back of all peripherals", "memory", "|", "int0 latch", "int1 latch", "int2 latch",
                 "vectored latch", "vectored ctx", "vectored address"]
        diff = [names[i] for i in range(min(len(fa), len(fb), len(names))) if fa[i] != fb[i]]
        bad.append("final state differs in: " + ", ".join(diff))
    if a["events"] != b["events"]:
        k = 0
        while k < min(len(a["events"]), len(b["events"])) and a["events"][k] == b["events"][k]:
            k += 1
        bad.append("event sequences differ from event #%d on (%d vs %d events; %s vs %s)"
                   % (k, len(a["events"]), len(b["events"]), a["events"][k:k + 3], b["events"][k:k + 3]))
    if bad:
        how = [" ".join(l.split()[1:]) for l in script if l.split()[1] in ("run", "steps")]
        return [("the same cycle budget sliced two ways gives different results ON THE IMPLEMENTATION: %s  [slicings: %s]"
                 % ("; ".join(bad), " / ".join(how)[:200]), len(script) - 1)]
    return []


def signature(script, impl):
    out = []
    runs = executions(script, impl)
    for x in runs[:1]:
        kinds = sorted({e[0] for e in x["events"]})
        out.append(("ev", tuple(kinds), min(len(x["events"]), 6), x["abort"]))
    for line, r in zip(script, impl):
        t = line.split()
        if t[1] in ("run", "steps"):
            out.append((t[1], min(int(t[2], 16), 3), r.split(" ")[0]))
    return out


def judge(pair, script, impl, model):
    hits = inspect(script, impl)
    if hits:
        return True, "(the real code violates the property: %s)" % hits[0][0]
    return False, "(model and implementation differ; no property violation exhibited on the real code)"


def explore(rng, tier, replay=None):
    scripts = d3_family()
    n = 1500 if tier == "quick" else 40000
    for _ in range(n):
        scripts.append(case(rng, tier))
    ctx = corr.explore(PROP, scripts, judge=judge, signature=signature, inspect=inspect, model_first=True,
                       rule="each case: one DSP program (main code ending in an idle self-branch - unconditional, conditional (condition true; or false and falling through into further code), "
                            "reached after a prefix or right after `eint` - or a busy loop; int0/int1/int2 handlers and a vectored "
                            "handler ending in reti/retic), peripheral programming by host MMIO writes (both timers in single / "
                            "auto-restart / free-running mode with start values from 0 up, mirror and pause bits, ICU routing masks and "
                            "vectors with and without context switch, both audio ports with short periods and queued words), host "
                            "events between segments (mailbox send/receive, semaphore, software trigger, acknowledge, timer restart, "
                            "routing change), executed twice from the same start with two different slicings of every segment (one "
                            "call / all ones / random slices incl. zero-length) and compared on the implementation: registers, every "
                            "MMIO register, all memory, latches and the ordered events; plus the family 'timer period = handler "
                            "length' that places an interrupt on the tick of the cycle in which the idle branch first executes. "
                            "model and implementation are compared line by line on the same scripts")
    return ctx


def replay(rep):
    regenerate()
    return corr.replay(rep)
