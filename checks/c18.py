"""C18 - no guest program or register write makes the emulator touch memory out of bounds (partial).

Proof side (Proofs/C18.lean): every access the bus model makes to the DSP memory goes through Mem.readWord / writeWord,
which check the bound - so the model never touches a cell outside the 0x80000-byte array, and an attempt is the explicit
outcome `oob`; where that outcome can arise is characterised exactly: a program-space access (instruction fetch,
ProgramRead/Write, movp/movd) with word address >= 0x40000 - for a fetch: prpage != 0 or pc >= 0x40000; never a data access
(default paging: bank z < 2 gives 0x20000 + 0x10000 z + a < 0x40000; z >= 2 is an assertion abort); the DMA's DSP-space
accesses with a configured address outside the array; the DMA channel window index is in range after every write of
CHANNEL.  What a theorem cannot show here - that the C++ has no other access path, no use of uninitialised or freed memory,
no signed overflow or out-of-range shift - is explored by running the real code: the TEAKRA_VERIF memory observer reports
every SharedMemory access before it is made (the harness answers `oob` instead of performing one outside the array), the
harness guards the unchecked table indices, and the same scripts are executed under AddressSanitizer + UBSan.

The property is FALSE on the unchanged tree for the recorded findings (known_findings.json): they are reported as
KNOWN-FINDING with the call site; any out-of-bounds access at another site is a VIOLATION.
"""
import os
import sys

import corr
import vlib
from checks import c01

PROP = "C18"
MODULE = "Proofs.C18"
T = "Teakra."
THEOREMS = [T + t for t in [
    "C18.readWord_inbounds", "C18.writeWord_inbounds", "C18.readWord_never_oob", "C18.writeWord_never_oob",
    "C18.programRead_inbounds", "C18.programRead_oob_iff",
    "C18.programWrite_oob_iff", "C18.data_access_never_oob", "C18.fetch_inrange_iff", "C18.fetch_oob_witness_prpage",
    "C18.fetch_oob_witness_pc", "C18.activateChannel_lt", "C18.window_index_inbounds", "C18.upstream_window_index_witness",
    "C18.mmio_offset_inbounds", "C18.dma_dsp_index_inbounds", "C18.upstream_dma_dsp_index_witness"]]
TRUSTED = ["hand-written models lean/TeakraModel/{Bus,Mmio,Dma,Run}.lean; the claim 'the model's only paths to DSP memory are "
           "Mem.readWord/writeWord' is by inspection of the model, the claim 'the C++ has no other path' is NOT proved: it rests "
           "on the TEAKRA_VERIF observer hook inside SharedMemory::ReadWord/WriteWord (every access of the real code is reported "
           "before it is made) and on the sanitizer runs",
           "g++ 12 -fsanitize=address,undefined -fno-sanitize-recover=all (harness variant `san`)",
           "harness/u_interp.cpp, harness/u_bus.cpp"]
ASSUMPTIONS = ["in-contract host calls: mailbox index < 3, AHBM channel index < 3 (unchecked std::uint8_t arguments of the host "
               "API are the host's responsibility)",
               "level: partial - memory safety of the C++ object code (use of uninitialised or freed memory, signed overflow, "
               "shift counts) is explored with sanitizers on the generated inputs, not proved"]


def regenerate():
    sys.path.insert(0, os.path.join(vlib.ROOT, "tools"))
    import gen_impl
    st = gen_impl.generate()
    st.pop("include_dir", None)
    return st


# ---------------------------------------------------------------------------------------------------- generators

def instr_cases(rng, n):
    """One instruction from register states at the edges of the hardware widths: program page, pc at the top of the
    program space, data-to-program moves with every pcmhi, stack pointer and address registers at the ends of the data
    space, loop frames ending at the instruction."""
    keys = c01.opcode_keys()
    ws = [w for w in range(65536) if keys[w]]
    out = []
    # shift counts taken from a 16-bit immediate: tstb SttMod, ##imm16 with every kind of count
    for a in range(8):
        for e in (0, 15, 16, 31, 32, 33, 0x7FFF, 0xFFFE, 0xFFFF):
            out.append(["interp gen %x" % rng.bits(40), "interp step %x %x" % (0x0028 | a, e)])
    # shift counts taken from a register: every shift-by-sv instruction with the count at and around the widths
    # (16, 32, 40 and the ends of the 16-bit range), both shift modes, negative and positive operands
    shifters = [w for w in ws if keys[w][0].startswith(("shfc", "movs_", "movs", "shfi", "movsi"))]
    for sv in (0, 1, 15, 16, 17, 31, 32, 33, 39, 40, 41, 0x7FFF, 0x8000, 0xFFFF, 0xFFF0, 0xFFE0, 0xFFD9, 0xFFD8, 0xFFD7, 0xFFC0):
        for w in ([rng.choice(shifters) for _ in range(6)] if shifters else []):
            out.append(["interp gen %x" % rng.bits(40), "interp poke sv %x" % sv, "interp poke s %x" % rng.below(2),
                        "interp poke a0 %x" % rng.choice([0xFFFFFF8000000001, 0x7FFFFFFFFF, 0xFFFFFFFFFFFFFFFF, 1, rng.bits(40)]),
                        "interp poke a1 %x" % rng.choice([0xFFFFFFD1FC9138C6, 0x12345678, 0xFFFFFF8000000000]),
                        "interp step %x %x" % (w, rng.biased(16))])
    # the loop machinery indexes the four-entry frame stack with bcn: every loop instruction (bkrep forms, frame store /
    # restore, break, rep) from every nesting level 0..4 - at level 4 a further frame has no slot - with the saved frame
    # words in memory drawn both valid and invalid, and the instruction at / next to the innermost frame end
    loops = [w for w in ws if keys[w][0].startswith(("bkrep", "break", "rep_"))]
    for w in loops:
        if keys[w][0].startswith("bkrep_Imm8") and (w & 0xFF) not in (0, 1, 0x7F, 0xFF):
            continue
        for bcn in range(5):
            for rep_ in range(1 if bcn < 3 else 3):
                pk = ["interp poke lp %x" % (1 if bcn else 0), "interp poke bcn %x" % bcn,
                      "interp poke sp %x" % rng.choice([0x1000, 0x7000, rng.bits(16)])]
                out.append(["interp gen %x" % rng.bits(40)] + pk + ["interp step %x %x" % (w, rng.biased(16))])
    for _ in range(n):
        w = rng.choice(ws)
        pk = []
        m = rng.below(8)
        if m == 0:
            pk.append("interp poke prpage %x" % rng.choice([1, 2, 3, 8, 15]))
        elif m == 1:
            pk.append("interp poke pc %x" % rng.choice([0x3FFFF, 0x3FFFE, 0x3FFFD]))
        elif m == 2:
            pk.append("interp poke pcmhi %x" % rng.below(4))
        elif m == 3:
            pk.append("interp poke sp %x" % rng.choice([0, 1, 0xFFFF, 0xFFFE, 0x8000, 0x87FF]))
        elif m == 4:
            for k in range(8):
                pk.append("interp poke r%d %x" % (k, rng.choice([0, 0xFFFF, 0x7FFF, 0x8000, rng.bits(16)])))
        elif m == 5:
            pk += ["interp poke lp 1", "interp poke bcn %x" % rng.choice([1, 2, 3, 4])]
        out.append(["interp gen %x" % rng.bits(40)] + pk + ["interp step %x %x" % (w, rng.biased(16))])
    return out


def dma_cases(rng, n):
    out = []
    for _ in range(n):
        s = ["bus new own"]
        ch = rng.below(8)
        s.append("bus mw 1be %x" % ch)
        s.append("bus mw 184 %x" % (1 << ch | rng.bits(8)))
        for off in range(0x1C0, 0x1DC, 2):
            if off == 0x1DA:
                v = rng.choice([0, 1, 5, 7, 2, 3]) | (rng.choice([0, 1, 5, 7, 2, 3]) << 4) | (rng.below(2) << 10)
            elif off in (0x1C2, 0x1C6):
                v = rng.choice([0, 0, 1, 2, 3, 4, 7, 0xFF, 0xFFFF, rng.bits(16)])
            elif off in (0x1C8, 0x1CA, 0x1CC):
                v = rng.choice([0, 1, 2, 3, 8])
            else:
                v = rng.choice([0, 1, 2, 0xFFFF, 0x8000, rng.bits(16)])
            s.append("bus mw %x %x" % (off, v))
        for k in range(3):
            s += ["bus mw %x %x" % (0xE2 + 6 * k, rng.bits(16) & 0x0E7F), "bus mw %x %x" % (0xE4 + 6 * k, rng.bits(16) & 0x0200),
                  "bus mw %x %x" % (0xE6 + 6 * k, 1 << rng.below(8))]
        s.append("bus mw 1de 40c0")
        s.append("bus digest")
        out.append(s)
    return out


def window_cases(rng, n):
    """CHANNEL (0x1BE) written with every kind of value, then the channel window is read and written."""
    out = []
    for _ in range(n):
        v = rng.choice([8, 9, 15, 16, 0xFF, 0x100, 0x8000, 0xFFFF, rng.bits(16), rng.below(8)])
        off = 0x1C0 + 2 * rng.below(15)
        s = ["bus new own", "bus mw 1be %x" % v, "bus mr 1be", "bus mr %x" % off, "bus mw %x %x" % (off, rng.bits(16)), "bus mr %x" % off,
             "bus digest"]
        out.append(s)
    return out


def mmio_cases(rng, n):
    """Every offset with arbitrary values through both paths, and data accesses with the window at every base."""
    out = []
    for _ in range(n):
        s = ["bus new own"]
        for _ in range(30):
            m = rng.below(6)
            off = rng.below(0x800)
            if off == 0x1DE or off in (0x20, 0x30):
                continue
            if m < 3:
                s.append("bus mw %x %x" % (rng.bits(16) & ~0x7FF | off, rng.bits(16)))
            elif m < 4:
                s.append("bus mr %x" % (rng.bits(16) & ~0x7FF | off))
            elif m < 5:
                s.append("bus dw %x %x %x" % (rng.bits(16), rng.bits(16), rng.below(2)))
            else:
                s.append("bus dr %x %x" % (rng.bits(16), rng.below(2)))
        s.append("bus digest")
        out.append(s)
    return out


def program_cases(rng, n):
    """Short runs of arbitrary program words placed at the top of the program space and at random places."""
    keys = c01.opcode_keys()
    ws = [w for w in range(65536) if keys[w]]
    out = []
    for _ in range(n):
        base = rng.choice([0x3FFF0, 0x3FFF8, 0x3FFFC, 0x100, 0x1FFF0, rng.below(0x3FF00)])
        s = ["bus new own", "bus pw 0 4180", "bus pw 1 %x" % (base & 0xFFFF)]
        s[1] = "bus pw 0 %x" % (0x4180 | ((base >> 16) << 4))
        for k in range(rng.choice([4, 8, 16])):
            if base + k < 0x40000:
                s.append("bus pw %x %x" % (base + k, rng.choice([0, 0x0088, rng.choice(ws)])))
        s += ["bus poke sp %x" % rng.choice([0x1000, 0, 0xFFFF]), "bus run %x" % rng.choice([8, 20, 40]), "bus reg pc", "bus regdigest"]
        out.append(s)
    return out


def paging_cases(rng, n):
    """MIU paging: page mode on/off, x/y/z pages 0..3 and beyond, region sizes, then loads and stores on both sides of the
    X/Y boundary and at the ends of the data space (pages >= 2 must end in the deliberate assertion, never in an access)."""
    out = []
    for _ in range(n):
        s = ["bus new own"]
        xs = rng.choice([0x20, 0x1E, 0x01, 0x3F, 0x00, rng.below(0x40)])
        s.append("bus mw 114 %x" % ((rng.below(0x40) << 8) | xs))
        s.append("bus mw 11a %x" % rng.choice([0x40, 0x40, 0x40, 0, 0xFFFF, 0x40 | rng.bits(16)]))
        s.append("bus mw 10e %x" % rng.choice([0, 1, 0, 1, 2, 3, 0xFFFF]))
        s.append("bus mw 110 %x" % rng.choice([0, 1, 0, 1, 2, 3, 4, 0xFF, 0xFFFF]))
        s.append("bus mw 112 %x" % rng.choice([0, 0, 1, 2]))
        edge = xs * 0x400
        for _ in range(8):
            a = rng.choice([0, 1, edge - 1, edge, edge + 1, edge + 2, 0x7FFF, 0x8800, 0x9000, 0xFFFF, rng.bits(16)]) & 0xFFFF
            if rng.chance(1, 2):
                s.append("bus dw %x %x %x" % (a, rng.bits(16), rng.below(2)))
            else:
                s.append("bus dr %x %x" % (a, rng.below(2)))
        out.append(s)
    return out


def vector_cases(rng, n):
    """Vectored interrupts with arbitrary words in the vector registers: control must stay inside the 18-bit program space."""
    out = []
    for _ in range(n):
        q = rng.below(16)
        hi = rng.choice([0, 1, 2, 3, 4, 5, 7, 0x8004, 0x7FFF, 0xFFFF, rng.bits(16)])
        s = ["bus new own", "bus pw 0 57f0", "bus poke ie 1", "bus poke imv 1", "bus poke sp 1000",
             "bus mw %x %x" % (0x212 + 4 * q, hi), "bus mw %x %x" % (0x214 + 4 * q, rng.choice([0x100, 0xFFFF, 0, rng.bits(16)])),
             "bus mw 20c %x" % (1 << q), "bus mw 204 %x" % (1 << q), "bus run 4", "bus reg pc"]
        out.append(s)
    return out


# ---------------------------------------------------------------------------------------------------- judging

def classify(script, k, impl=None):
    """Name the call site of an `oob` answer at line k."""
    line = script[k]
    t = line.split()
    if t[0] == "interp":
        pk = {l.split()[2]: int(l.split()[3], 16) for l in script[:k] if l.split()[1] == "poke"}
        if pk.get("prpage"):
            return "program fetch outside the array: prpage != 0 makes the fetch address (prpage << 18 | pc) >= 0x40000"
        if pk.get("pc", 0) >= 0x3FFFD:
            return "program fetch outside the array: pc ran past the last program word 0x3FFFF (pc is not wrapped to 18 bits)"
        w = int(t[2], 16)
        keys = c01.opcode_keys()
        return "instruction %s accesses DSP memory outside the array" % (keys[w][0] if keys[w] else "%04x" % w)
    if t[1] == "mw" and t[2] == "1de":
        return "DMA transfer reaches a DSP-space address outside the 0x80000-byte array (source/destination space 0 with an unmasked 32-bit address)"
    if t[1] in ("mr", "mw") and 0x1C0 <= (int(t[2], 16) & 0x7FF) <= 0x1DE:
        return "DMA channel window access with CHANNEL >= 8 indexes channels[8] out of range (Dma::ActivateChannel stores the value unmasked)"
    if t[1] in ("run", "steps"):
        # where was the core when the fetch left the array?  (the registers keep the state of the faulting cycle)
        pc = None
        if impl is not None and k + 1 < len(script) and script[k + 1] == "bus reg pc":
            try:
                pc = int(impl[k + 1].split()[0], 16)
            except ValueError:
                pc = None
        vectored = any(l.startswith("bus mw 20c") for l in script[:k])
        if vectored:
            # a handler legitimately placed in the last words of program space runs off the end like any other code
            vw = [l.split() for l in script[:k] if l.startswith("bus mw 2") and 0x212 <= int(l.split()[2], 16) <= 0x250]
            hi = [int(t[3], 16) for t in vw if (int(t[2], 16) - 0x212) % 4 == 0]
            lo = [int(t[3], 16) for t in vw if (int(t[2], 16) - 0x212) % 4 == 2]
            if hi and lo and (((hi[-1] & 3) << 16) | lo[-1]) >= 0x3FF80:
                vectored = False
        if pc is None or (0x40000 <= pc <= 0x40082 and not vectored):
            # reachable from the top of program space by pc++ or a 7-bit relative branch/call (`pc += offset`, unwrapped)
            return "program fetch outside the array: pc ran past the last program word 0x3FFFF (pc is not wrapped to 18 bits)"
        return "control was transferred to program address 0x%x, outside the 18-bit program space (fetch outside the array)" % pc
    if t[1] in ("dr", "dw"):
        return "data access `%s` reaches DSP memory outside the array (address conversion / paging)" % " ".join(t[1:])
    return "`%s` makes the emulator access memory outside its arrays" % " ".join(t[1:])


def inspect(script, impl):
    for k, (line, r) in enumerate(zip(script, impl)):
        head = r.split(" ")[0]
        if head == "oob":
            return [("out-of-bounds access on the real code: %s  [input: %s]" % (classify(script, k, impl), " ; ".join(script[max(1, k - 3):k + 1])[:200]), min(k + 1, len(script) - 1))]
        if head in vlib.ABORTS:
            return []
    return []


def signature(script, impl):
    out = []
    for line, r in zip(script, impl):
        t = line.split()
        head = r.split(" ")[0]
        if t[0] == "interp" and t[1] == "step":
            var = script[1].split()[2] if len(script) > 2 else "plain"
            out.append(("step", var, head if head in vlib.ABORTS else "ok"))
        elif t[0] == "bus" and t[1] in ("mw", "mr", "dw", "dr", "run"):
            out.append((t[1], head if head in vlib.ABORTS else "ok", (int(t[2], 16) & 0x7FF) >> 5 if t[1] in ("mw", "mr") else 0))
    return out


def judge(pair, script, impl, model):
    hits = inspect(script, impl)
    if hits:
        return True, "(the real code violates the property: %s)" % hits[0][0]
    return False, "(model and implementation differ; no out-of-bounds access exhibited on the real code)"


def enclosing_function(rel, line):
    """Signature of the function that contains source line `line` (so that a finding names a site that survives edits
    elsewhere in the file)."""
    import re
    try:
        src = open(os.path.join(vlib.REPO, rel)).read().split("\n")
    except OSError:
        return "?"
    for k in range(min(line, len(src)) - 1, -1, -1):
        m = re.match(r"\s*(?:static |inline |virtual |template <[^>]*> )*[\w:<>&\*]+\s+(\w+)\(([^)]*)\)\s*(?:const)?\s*\{", src[k])
        if m and m.group(1) not in ("if", "for", "while", "switch"):
            return "%s(%s)" % (m.group(1), m.group(2))
    return "?"


def sanitizer_run(scripts, violations, ctx):
    """The same inputs under ASan + UBSan: a sanitizer abort is a violation with the script as replay."""
    try:
        exe = vlib.harness_build("san")
    except Exception as ex:      # noqa: BLE001
        violations.append(("sanitizer build failed: %s" % str(ex)[-300:], {"kind": "error", "error": str(ex)[-2000:]}, False))
        return
    out, crashes = vlib.run_scripts(exe, scripts)
    ctx["sanitizer"] = {"scripts": len(scripts), "aborts": len(crashes), "flags": "-fsanitize=address,undefined -fno-sanitize-recover=all"}
    seen = set()
    for (i, err) in crashes:
        import re
        m = re.search(r"(runtime error: [^\n]+|ERROR: AddressSanitizer: [^\n]+)", err)
        what = m.group(1) if m else err[-200:]
        what = re.sub(r"exponent -?\d+", "exponent N", what)
        what = re.sub(r"0x[0-9a-f]{6,}", "ADDR", what)
        loc = re.search(r"((?:src|include)/[\w./]+):(\d+)", err)
        where = "?"
        if loc:
            where = "%s, %s" % (enclosing_function(loc.group(1), int(loc.group(2))), loc.group(1))
        key = (what[:80], where)
        if key in seen:
            continue
        seen.add(key)
        violations.append(("sanitizer abort on the real code: %s in %s" % (what[:160], where),
                           {"kind": "crash", "script": scripts[i], "stderr": err[-3000:]}, True))
        if len(seen) >= 6:
            break


def explore(rng, tier, replay=None):
    q = tier == "quick"
    scripts = (instr_cases(rng, 6000 if q else 200000) + dma_cases(rng, 300 if q else 6000) + window_cases(rng, 60 if q else 600) +
               mmio_cases(rng, 150 if q else 3000) + program_cases(rng, 200 if q else 4000) +
               paging_cases(rng, 300 if q else 6000) + vector_cases(rng, 150 if q else 3000))
    ctx = corr.explore(PROP, scripts, judge=judge, signature=signature, inspect=inspect, model_first=False, max_report=2000,
                       rule="the TEAKRA_VERIF observer inside SharedMemory reports every word access of the real code before it is made; "
                            "the harness answers `oob` instead of performing one outside the 0x80000 bytes, and guards the unchecked "
                            "table indices; inputs: one instruction of every kind from register states at the edges of the hardware "
                            "widths (program page, pc at the top of program space, every pcmhi, stack pointer / address registers at "
                            "the ends of data space, loop frames; every loop instruction - bkrep forms, bkrepsto / bkreprst, break, rep - from every "
                            "nesting level 0..4), random DMA configurations over all spaces with 32-bit addresses and "
                            "AHBM settings then a start, CHANNEL written with out-of-range values followed by window accesses, arbitrary "
                            "values to every MMIO offset through both paths with data accesses around the window, short runs of "
                            "arbitrary program words at the top of the program space; MIU paging (page mode, x/y/z pages incl. values >= 2, "
                            "region sizes) with loads/stores around the X/Y boundary; vectored interrupts with arbitrary words in the "
                            "vector registers; the same scripts under ASan+UBSan")
    v = ctx.get("violations", [])
    # de-duplicate by call site (one report per site)
    seen, uniq = set(), []
    for item in v:
        site = item[0].split("[input:")[0]
        if site in seen:
            continue
        seen.add(site)
        uniq.append(item)
    # the same inputs under ASan + UBSan (the observer still answers `oob` instead of performing an outside access)
    if os.environ.get("VERIF_NO_SAN") != "1":
        sanitizer_run(scripts[:(3000 if q else 100000)] + scripts[-600:], uniq, ctx)
    ctx["violations"] = uniq
    return ctx


def replay(rep):
    regenerate()
    return corr.replay(rep)
