"""C18 - no guest program or register write makes the emulator touch memory out of bounds (partial).

Proof side (Proofs/C18.lean): every access the bus model makes to the DSP memory goes through Mem.readWord / writeWord,
which check the bound - so the model never touches a cell outside the 0x80000-byte array, and an attempt is the explicit
outcome `oob`; where that outcome can arise is characterised exactly: a program-space access (instruction fetch,
ProgramRead/Write, movp/movd) with word address >= 0x40000 - for a fetch: prpage != 0 or pc >= 0x40000; never a data access
(default paging: bank z < 2 gives 0x20000 + 0x10000 z + a < 0x40000; z >= 2 is an assertion abort); the DMA's DSP-space
accesses with a configured address outside the array; the DMA channel window index is in range after every write of
CHANNEL.  What a theorem cannot show here - that the C++ has no other access path, no use of uninitialised or freed memory,
no signed overflow or out-of-range shift - is explored by running the real code: the TEAKRA_VERIF memory observer reports
every SharedMemory access before it is made (the harness answers `oob` instead of performing one outside the array), the
harness guards the unchecked table indices, and the same scripts are executed under AddressSanitizer + UBSan.

The property is FALSE on the unchanged tree for the recorded findings (known_findings.json): they are reported as
KNOWN-FINDING with the call site; any out-of-bounds access at another site is a VIOLATION.
"""
import os
import sys

import corr
import vlib
from checks import c01

PROP = "C18"
MODULE = "Proofs.C18"
T = "Teakra."
THEOREMS = [T + t for t in [
    "C18.readWord_inbounds", "C18.writeWord_inbounds", "C18.programRead_inbounds", "C18.programRead_oob_iff",
    "C18.programWrite_oob_iff", "C18.data_access_never_oob", "C18.fetch_inrange_iff", "C18.fetch_oob_witness_prpage",
    "C18.fetch_oob_witness_pc", "C18.activateChannel_lt", "C18.window_index_inbounds", "C18.upstream_window_index_witness",
    "C18.mmio_offset_inbounds"]]
TRUSTED = ["hand-written models lean/TeakraModel/{Bus,Mmio,Dma,Run}.lean; the claim 'the model's only paths to DSP memory are "
           "Mem.readWord/writeWord' is by inspection of the model, the claim 'the C++ has no other path' is NOT proved: it rests "
           "on the TEAKRA_VERIF observer hook inside SharedMemory::ReadWord/WriteWord (every access of the real code is reported "
           "before it is made) and on the sanitizer runs",
           "g++ 12 -fsanitize=address,undefined -fno-sanitize-recover=all (harness variant `san`)",
           "harness/u_interp.cpp, harness/u_bus.cpp"]
ASSUMPTIONS = ["in-contract host calls: mailbox index < 3, AHBM channel index < 3 (unchecked std::uint8_t arguments of the host "
               "API are the host's responsibility)",
               "level: partial - memory safety of the C++ object code (use of uninitialised or freed memory, signed overflow, "
               "shift counts) is explored with sanitizers on the generated inputs, not proved"]


def regenerate():
    sys.path.insert(0, os.path.join(vlib.ROOT, "tools"))
    import gen_impl
    st = gen_impl.generate()
    st.pop("include_dir", None)
    return st


# ---------------------------------------------------------------------------------------------------- generators

def instr_cases(rng, n):
    """One instruction from register states at the edges of the hardware widths: program page, pc at the top of the
    program space, data-to-program moves with every pcmhi, stack pointer and address registers at the ends of the data
    space, loop frames ending at the instruction."""
    keys = c01.opcode_keys()
    ws = [w for w in range(65536) if keys[w]]
    out = []
    for _ in range(n):
        w = rng.choice(ws)
        pk = []
        m = rng.below(8)
        if m == 0:
            pk.append("interp poke prpage %x" % rng.choice([1, 2, 3, 8, 15]))
        elif m == 1:
            pk.append("interp poke pc %x" % rng.choice([0x3FFFF, 0x3FFFE, 0x3FFFD]))
        elif m == 2:
            pk.append("interp poke pcmhi %x" % rng.below(4))
        elif m == 3:
            pk.append("interp poke sp %x" % rng.choice([0, 1, 0xFFFF, 0xFFFE, 0x8000, 0x87FF]))
        elif m == 4:
            for k in range(8):
                pk.append("interp poke r%d %x" % (k, rng.choice([0, 0xFFFF, 0x7FFF, 0x8000, rng.bits(16)])))
        elif m == 5:
            pk += ["interp poke lp 1", "interp poke bcn %x" % rng.choice([1, 2, 3, 4])]
        out.append(["interp gen %x" % rng.bits(40)] + pk + ["interp step %x %x" % (w, rng.biased(16))])
    return out


def dma_cases(rng, n):
    out = []
    for _ in range(n):
        s = ["bus new own"]
        ch = rng.below(8)
        s.append("bus mw 1be %x" % ch)
        s.append("bus mw 184 %x" % (1 << ch | rng.bits(8)))
        for off in range(0x1C0, 0x1DC, 2):
            if off == 0x1DA:
                v = rng.choice([0, 1, 5, 7, 2, 3]) | (rng.choice([0, 1, 5, 7, 2, 3]) << 4) | (rng.below(2) << 10)
            elif off in (0x1C2, 0x1C6):
                v = rng.choice([0, 0, 1, 2, 3, 4, 7, 0xFF, 0xFFFF, rng.bits(16)])
            elif off in (0x1C8, 0x1CA, 0x1CC):
                v = rng.choice([0, 1, 2, 3, 8])
            else:
                v = rng.choice([0, 1, 2, 0xFFFF, 0x8000, rng.bits(16)])
            s.append("bus mw %x %x" % (off, v))
        for k in range(3):
            s += ["bus mw %x %x" % (0xE2 + 6 * k, rng.bits(16) & 0x0E7F), "bus mw %x %x" % (0xE4 + 6 * k, rng.bits(16) & 0x0200),
                  "bus mw %x %x" % (0xE6 + 6 * k, 1 << rng.below(8))]
        s.append("bus mw 1de 40c0")
        s.append("bus digest")
        out.append(s)
    return out


def window_cases(rng, n):
    """CHANNEL (0x1BE) written with every kind of value, then the channel window is read and written."""
    out = []
    for _ in range(n):
        v = rng.choice([8, 9, 15, 16, 0xFF, 0x100, 0x8000, 0xFFFF, rng.bits(16), rng.below(8)])
        off = 0x1C0 + 2 * rng.below(15)
        s = ["bus new own", "bus mw 1be %x" % v, "bus mr 1be", "bus mr %x" % off, "bus mw %x %x" % (off, rng.bits(16)), "bus mr %x" % off,
             "bus digest"]
        out.append(s)
    return out


def mmio_cases(rng, n):
    """Every offset with arbitrary values through both paths, and data accesses with the window at every base."""
    out = []
    for _ in range(n):
        s = ["bus new own"]
        for _ in range(30):
            m = rng.below(6)
            off = rng.below(0x800)
            if off == 0x1DE or off in (0x20, 0x30):
                continue
            if m < 3:
                s.append("bus mw %x %x" % (rng.bits(16) & ~0x7FF | off, rng.bits(16)))
            elif m < 4:
                s.append("bus mr %x" % (rng.bits(16) & ~0x7FF | off))
            elif m < 5:
                s.append("bus dw %x %x %x" % (rng.bits(16), rng.bits(16), rng.below(2)))
            else:
                s.append("bus dr %x %x" % (rng.bits(16), rng.below(2)))
        s.append("bus digest")
        out.append(s)
    return out


def program_cases(rng, n):
    """Short runs of arbitrary program words placed at the top of the program space and at random places."""
    keys = c01.opcode_keys()
    ws = [w for w in range(65536) if keys[w]]
    out = []
    for _ in range(n):
        base = rng.choice([0x3FFF0, 0x3FFF8, 0x3FFFC, 0x100, 0x1FFF0, rng.below(0x3FF00)])
        s = ["bus new own", "bus pw 0 4180", "bus pw 1 %x" % (base & 0xFFFF)]
        s[1] = "bus pw 0 %x" % (0x4180 | ((base >> 16) << 4))
        for k in range(rng.choice([4, 8, 16])):
            if base + k < 0x40000:
                s.append("bus pw %x %x" % (base + k, rng.choice([0, 0x0088, rng.choice(ws)])))
        s += ["bus poke sp %x" % rng.choice([0x1000, 0, 0xFFFF]), "bus run %x" % rng.choice([8, 20, 40]), "bus regdigest"]
        out.append(s)
    return out


# ---------------------------------------------------------------------------------------------------- judging

def classify(script, k):
    """Name the call site of an `oob` answer at line k."""
    line = script[k]
    t = line.split()
    if t[0] == "interp":
        pk = {l.split()[2]: int(l.split()[3], 16) for l in script[:k] if l.split()[1] == "poke"}
        if pk.get("prpage"):
            return "program fetch outside the array: prpage != 0 makes the fetch address (prpage << 18 | pc) >= 0x40000"
        if pk.get("pc", 0) >= 0x3FFFD:
            return "program fetch outside the array: pc ran past the last program word 0x3FFFF (pc is not wrapped to 18 bits)"
        w = int(t[2], 16)
        keys = c01.opcode_keys()
        return "instruction %s accesses DSP memory outside the array" % (keys[w][0] if keys[w] else "%04x" % w)
    if t[1] == "mw" and t[2] == "1de":
        return "DMA transfer reaches a DSP-space address outside the 0x80000-byte array (source/destination space 0 with an unmasked 32-bit address)"
    if t[1] in ("mr", "mw") and 0x1C0 <= (int(t[2], 16) & 0x7FF) <= 0x1DE:
        return "DMA channel window access with CHANNEL >= 8 indexes channels[8] out of range (Dma::ActivateChannel stores the value unmasked)"
    if t[1] in ("run", "steps"):
        return "program fetch outside the array: pc ran past the last program word 0x3FFFF (pc is not wrapped to 18 bits)"
    return "`%s` makes the emulator access memory outside its arrays" % " ".join(t[1:])


def inspect(script, impl):
    for k, (line, r) in enumerate(zip(script, impl)):
        head = r.split(" ")[0]
        if head == "oob":
            return [("out-of-bounds access on the real code: %s  [input: %s]" % (classify(script, k), " ; ".join(script[max(1, k - 3):k + 1])[:200]), k)]
        if head in vlib.ABORTS:
            return []
    return []


def signature(script, impl):
    out = []
    for line, r in zip(script, impl):
        t = line.split()
        head = r.split(" ")[0]
        if t[0] == "interp" and t[1] == "step":
            var = script[1].split()[2] if len(script) > 2 else "plain"
            out.append(("step", var, head if head in vlib.ABORTS else "ok"))
        elif t[0] == "bus" and t[1] in ("mw", "mr", "dw", "dr", "run"):
            out.append((t[1], head if head in vlib.ABORTS else "ok", (int(t[2], 16) & 0x7FF) >> 5 if t[1] in ("mw", "mr") else 0))
    return out


def judge(pair, script, impl, model):
    hits = inspect(script, impl)
    if hits:
        return True, "(the real code violates the property: %s)" % hits[0][0]
    return False, "(model and implementation differ; no out-of-bounds access exhibited on the real code)"


def sanitizer_run(scripts, violations, ctx):
    """The same inputs under ASan + UBSan: a sanitizer abort is a violation with the script as replay."""
    try:
        exe = vlib.harness_build("san")
    except Exception as ex:      # noqa: BLE001
        violations.append(("sanitizer build failed: %s" % str(ex)[-300:], {"kind": "error", "error": str(ex)[-2000:]}, False))
        return
    out, crashes = vlib.run_scripts(exe, scripts)
    ctx["sanitizer"] = {"scripts": len(scripts), "aborts": len(crashes), "flags": "-fsanitize=address,undefined -fno-sanitize-recover=all"}
    seen = set()
    for (i, err) in crashes:
        import re
        m = re.search(r"(runtime error: [^\n]+|ERROR: AddressSanitizer: [^\n]+)", err)
        what = m.group(1) if m else err[-200:]
        loc = re.search(r"(src/[\w./]+:\d+|include/[\w./]+:\d+)", err)
        key = (what.split(" for ")[0][:60], loc.group(1) if loc else "")
        if key in seen:
            continue
        seen.add(key)
        violations.append(("sanitizer abort on the real code: %s at %s" % (what[:160], loc.group(1) if loc else "?"),
                           {"kind": "crash", "script": scripts[i], "stderr": err[-3000:]}, True))
        if len(seen) >= 6:
            break


def explore(rng, tier, replay=None):
    q = tier == "quick"
    scripts = (instr_cases(rng, 6000 if q else 200000) + dma_cases(rng, 300 if q else 6000) + window_cases(rng, 60 if q else 600) +
               mmio_cases(rng, 150 if q else 3000) + program_cases(rng, 200 if q else 4000))
    ctx = corr.explore(PROP, scripts, judge=judge, signature=signature, inspect=inspect, model_first=False, max_report=2000,
                       rule="the TEAKRA_VERIF observer inside SharedMemory reports every word access of the real code before it is made; "
                            "the harness answers `oob` instead of performing one outside the 0x80000 bytes, and guards the unchecked "
                            "table indices; inputs: one instruction of every kind from register states at the edges of the hardware "
                            "widths (program page, pc at the top of program space, every pcmhi, stack pointer / address registers at "
                            "the ends of data space, loop frames), random DMA configurations over all spaces with 32-bit addresses and "
                            "AHBM settings then a start, CHANNEL written with out-of-range values followed by window accesses, arbitrary "
                            "values to every MMIO offset through both paths with data accesses around the window, short runs of "
                            "arbitrary program words at the top of the program space; the same scripts under ASan+UBSan")
    v = ctx.get("violations", [])
    # de-duplicate by call site (one report per site)
    seen, uniq = set(), []
    for item in v:
        site = item[0].split("[input:")[0]
        if site in seen:
            continue
        seen.add(site)
        uniq.append(item)
    # the same inputs under ASan + UBSan (the observer still answers `oob` instead of performing an outside access)
    if os.environ.get("VERIF_NO_SAN") != "1":
        sanitizer_run(scripts[:(3000 if q else 100000)] + scripts[-600:], uniq, ctx)
    ctx["violations"] = uniq
    return ctx


def replay(rep):
    regenerate()
    return corr.replay(rep)
