"""C13 — a DMA transfer copies exactly the documented 3-D strided element sequence."""
import corr
import vlib

PROP = "C13"
MODULE = "Proofs.C13"
NS = "Teakra."
THEOREMS = [NS + t for t in [
    "dma_trace", "dma_terminates", "dma_hangs_upstream", "dma_run_eq_fold", "run_trace",
    "spec_length", "spec_docExample", "dma_memory", "dma_memory_frame", "copyElem_frame", "dma_irq_once",
    "setZ_starts_only_on_magic", "setZ_magic",
    "AhbmChannel.aligned_unit_exact_write16", "AhbmChannel.aligned_unit_exact_write32",
    "AhbmChannel.aligned_unit_exact_read16", "AhbmChannel.aligned_unit_exact_read32",
    "AhbmChannel.writeInternal_eq", "AhbmChannel.flush_append", "AhbmChannel.fill_add",
    "AhbmChannel.burst_transparent_write", "AhbmChannel.burst_transparent_read",
    "AhbmChannel.burst_tail_lost", "AhbmChannel.burst_tail_stale", "AhbmChannel.ext_to_ext_burst_misplaced"]]
TRUSTED = ["hand-written models lean/TeakraModel/Dma.lean, lean/TeakraModel/Ahbm.lean of src/dma.cpp, src/ahbm.cpp, "
           "tied by the `dma` correspondence slice (real Dma + Ahbm + SharedMemory objects, logging external callbacks)",
           "harness/u_dma.cpp (incl. its independent three-nested-loop reference copy used by `startcheck`), "
           "tools/vlib.py (comparison), g++ 12",
           "the TEAKRA_VERIF memory-observer hook in src/shared_memory.h (reports accesses outside the 0x80000-byte array)"]
ASSUMPTIONS = ["interrupt_handler is a pure counting callback; the external-memory callbacks are a byte-addressed "
               "little-endian memory (deterministic background overlaid by writes)",
               "DSP-side accesses outside the 0x80000-byte array are outside this property (C18): model and harness "
               "both answer `oob` at the first such access",
               "DMA channel index < 8 and AHBM channel index < 3 (C18 owns the unmasked index)",
               "the tree under test has the repaired 32-bit cursor counters (dma_trace / dma_terminates then hold for every "
               "configuration; with the upstream u16 counters dword_mode != 0 with size0 = 0xFFFF does not end: "
               "dma_hangs_upstream, and the harness answers `hang` instead of blocking); generated transfers are capped at "
               "4096 elements except the counter-boundary scripts (<= 0x30000 ticks)"]

M32 = 0xFFFFFFFF


def regenerate():
    import os
    import sys
    sys.path.insert(0, os.path.join(vlib.ROOT, "tools"))
    import gen_impl
    st = gen_impl.generate()
    st.pop("include_dir", None)
    return st
STEP_POOL = [0, 1, 2, 3, 4, 0xFFFF, 0xFFFE, 0x8000, 0x7FFF, 0x100, 8, 6]
CAP = 4096


def dims(size0, size1, size2, dword):
    n0 = max(size0, 1)
    if dword:
        n0 = (n0 + 1) // 2
    return n0, max(size1, 1), max(size2, 1)


def extent(n, steps):
    """Last cursor minus first cursor (steps are unsigned, the cursor never decreases before 2^32 wrap)."""
    n0, n1, n2 = n
    s0, s1, s2 = steps
    return s0 * (n0 - 1) * n1 * n2 + s1 * (n1 - 1) * n2 + s2 * (n2 - 1)


def dsp_base(rng, ext_, dword, oob=False):
    """A start cursor such that every element stays inside the array (cursor window [-0x20000, 0x20000)),
    or, with oob, one that leaves it."""
    span = ext_ + (2 if dword else 1)
    if oob or span >= 0x40000:
        return rng.choice([0x1FFFF, 0x20000, 0x1FFF0, 0xFFFDFFFF, 0x7FFE0000, 0x10000 + rng.below(0x10000), rng.bits(32)])
    m = rng.below(4)
    room = 0x40000 - span
    if m == 0:     # data region start
        off = 0x20000 + rng.below(min(room - 0x20000, 64) + 1) if room > 0x20000 else rng.below(room + 1)
    elif m == 1:   # as high as possible
        off = room - rng.below(min(room, 8) + 1)
    elif m == 2:   # anywhere (may alias program memory through the u32 wrap)
        off = rng.below(room + 1)
    else:
        off = 0x20000 + rng.below(room - 0x20000 + 1) if room > 0x20000 else rng.below(room + 1)
    return (off - 0x20000) & M32


def ext_base(rng, align):
    m = rng.below(5)
    if m == 0:
        a = rng.below(0x100)
    elif m == 1:
        a = 0x20000000 + rng.below(0x1000)
    elif m == 2:
        a = M32 - rng.below(0x40)
    else:
        a = rng.bits(32)
    if align:
        a &= ~(align - 1) & M32
    return a


def cfg_line(ch, src, dst, sizes, ss, ds, sp, dp, dw):
    v = [ch, src & 0xFFFF, src >> 16, dst & 0xFFFF, dst >> 16, sizes[0], sizes[1], sizes[2],
         ss[0], ds[0], ss[1], ds[1], ss[2], ds[2], sp, dp, dw]
    return "dma cfg " + " ".join("%x" % x for x in v)


def ahbm_lines(rng, ch, unit, burst, direction, decoy=True):
    """Connect DMA channel `ch` to one AHBM channel; sometimes a lower-numbered channel is connected to
    other DMA channels only, sometimes a higher one also claims `ch` (first match must win)."""
    i = rng.below(3)
    out = []
    for j in range(3):
        if j == i:
            mask = (1 << ch) | (rng.bits(8) if rng.chance(1, 3) else 0)
            out.append("dma ahbm %x %x %x %x %x" % (j, unit, burst, direction, mask))
        elif decoy and rng.chance(1, 2):
            mask = rng.bits(8)
            if j < i:
                mask &= ~(1 << ch)
            out.append("dma ahbm %x %x %x %x %x" % (j, rng.below(4), rng.below(4), rng.below(2), mask))
    return out


def gen_transfer(rng, ch, sizes, dword, sp, dp, steps_s, steps_d, unit=None, burst=None, oob=False, decoy=True):
    n = dims(sizes[0], sizes[1], sizes[2], dword)
    lines = []
    if sp == 0:
        src = dsp_base(rng, extent(n, steps_s), dword, oob)
    else:
        src = ext_base(rng, rng.choice([0, 0, 2, 4, 4]))
    if dp == 0:
        dst = dsp_base(rng, extent(n, steps_d), dword, oob and rng.chance(1, 2))
        if sp == 0 and rng.chance(1, 3):      # overlapping ranges
            dst = (src + rng.choice([0, 1, 2, 3, M32, M32 - 1, 5])) & M32
    else:
        dst = ext_base(rng, rng.choice([0, 0, 2, 4, 4]))
        if sp == 7 and rng.chance(1, 3):
            dst = (src + rng.choice([0, 1, 2, 4, M32 - 1, M32 - 3, 8])) & M32
    if sp == 7 or dp == 7 or rng.chance(1, 4):
        if unit is None:
            unit = rng.choice([1, 2, 0, (2 if dword else 1), (2 if dword else 1), 3])
        if burst is None:
            burst = rng.choice([0, 0, 1, 2, 3])
        lines += ahbm_lines(rng, ch, unit, burst, 1 if dp == 7 else 0, decoy)
    lines.append(cfg_line(ch, src, dst, sizes, steps_s, steps_d, sp, dp, dword))
    return lines


def pick_steps(rng, n, window=0x40000):
    """Three steps from the boundary pool, retried a few times so that the extent fits the DSP window."""
    for _ in range(6):
        s = [rng.choice(STEP_POOL) for _ in range(3)]
        if extent(n, s) < window - 2:
            return s
    return [rng.choice([0, 1, 2, 3]) for _ in range(3)]


def grid_scripts(rng, tier):
    """All sizes 0..4 in each dimension, steps from the boundary pool, spaces {0,7}^2, both modes."""
    out = []
    reps = 1 if tier == "quick" else 6
    for s0 in range(5):
        for s1 in range(5):
            for s2 in range(5):
                for _ in range(reps):
                    for dword in (0, 1):
                        sp = rng.choice([0, 0, 7])
                        dp = rng.choice([0, 0, 7])
                        sizes = (s0, s1, s2)
                        n = dims(s0, s1, s2, dword)
                        oob = rng.chance(1, 16)
                        ss = pick_steps(rng, n) if not oob else [rng.choice(STEP_POOL) for _ in range(3)]
                        ds = pick_steps(rng, n) if not oob else [rng.choice(STEP_POOL) for _ in range(3)]
                        ch = rng.below(8)
                        sc = ["dma init %x" % rng.bits(32)]
                        sc += gen_transfer(rng, ch, sizes, dword, sp, dp, ss, ds, oob=oob)
                        sc.append("dma start %x" % ch)
                        sc += ["dma peek %x" % rng.below(0x40000) for _ in range(2)]
                        out.append(sc)
    return out


def random_sizes(rng, dword):
    while True:
        m = rng.below(6)
        if m == 0:
            s = [rng.below(6), rng.below(6), rng.below(6)]
        elif m == 1:
            s = [rng.below(70), rng.below(9), rng.below(9)]
        elif m == 2:
            s = [rng.choice([0, 1, 2, 3]), rng.below(40), rng.below(40)]
        elif m == 3:
            s = [rng.below(4097), rng.choice([0, 1]), rng.choice([0, 1])]
        elif m == 4:
            s = [rng.choice([0, 1, 2]), rng.choice([0, 1, 2]), rng.below(1025)]
        else:
            s = [rng.below(17), rng.below(17), rng.below(17)]
        n = dims(s[0], s[1], s[2], dword)
        if n[0] * n[1] * n[2] <= CAP:
            return tuple(s)


def random_scripts(rng, count):
    out = []
    for _ in range(count):
        sc = ["dma init %x" % rng.bits(32)]
        for _ in range(1 + rng.below(3)):       # several transfers: leftover burst-queue state carries over
            dword = rng.below(2)
            sizes = random_sizes(rng, dword)
            n = dims(sizes[0], sizes[1], sizes[2], dword)
            sp = rng.choice([0, 0, 0, 7, 7, 1, 5])
            dp = rng.choice([0, 0, 0, 7, 7, 1, 5])
            oob = rng.chance(1, 20)

            def steps():
                if rng.chance(1, 3):
                    return [rng.biased(16) for _ in range(3)]
                return pick_steps(rng, n)
            ch = rng.below(8)
            sc += gen_transfer(rng, ch, sizes, dword, sp, dp, steps(), steps(), oob=oob)
            if rng.chance(1, 8):
                sc += ["dma wreg 1 %x" % ch, "dma wreg 13 40c0"]
            else:
                sc.append("dma start %x" % ch)
            sc += ["dma peek %x" % rng.below(0x40000), "dma aget %x 4" % rng.below(3)]
        out.append(sc)
    return out


def long_scripts(rng, count):
    """Counter boundary: sizes near 0xFFFF, bounded by `startn`; the non-terminating family included."""
    out = []
    for _ in range(count):
        dword = rng.below(2)
        s0 = rng.choice([0xFFFF, 0xFFFE, 0xFFFD, 0x8000, 0x7FFF, 0x1000])
        sizes = (s0, rng.choice([0, 1, 2]), rng.choice([0, 1]))
        ss = [rng.choice([0, 0, 1, 2]), rng.choice([0, 1]), 0]
        ds = [rng.choice([0, 0, 1, 2]), rng.choice([0, 1]), 0]
        n = dims(sizes[0], sizes[1], sizes[2], dword)
        ch = rng.below(8)
        sc = ["dma init %x" % rng.bits(32)]
        src = dsp_base(rng, extent(n, ss), dword)
        dst = dsp_base(rng, extent(n, ds), dword)
        sc.append(cfg_line(ch, src, dst, sizes, ss, ds, 0, 0, dword))
        budget = rng.choice([0, 1, 0x7FFF, 0x8000, 0x8001, 0xFFFE, 0xFFFF, 0x10000, 0x20000, 0x30000])
        sc.append("dma startn %x %x" % (ch, budget))
        sc.append("dma peek %x" % rng.below(0x40000))
        out.append(sc)
    return out


def ahbm_scripts(rng, count):
    """Direct AHBM accesses: every unit / burst value, odd and even addresses, reads and writes mixed."""
    out = []
    for _ in range(count):
        sc = ["dma init %x" % rng.bits(32)]
        for i in range(3):
            sc.append("dma ahbm %x %x %x %x %x" % (i, rng.below(4), rng.below(4), rng.below(2), rng.bits(8)))
        base = ext_base(rng, 0)
        for _ in range(4 + rng.below(20)):
            i = rng.below(3)
            a = (base + rng.below(16)) & M32 if rng.chance(3, 4) else ext_base(rng, 0)
            m = rng.below(10)
            if m < 2:
                sc.append("dma ar16 %x %x" % (i, a))
            elif m < 4:
                sc.append("dma ar32 %x %x" % (i, a))
            elif m < 6:
                sc.append("dma aw16 %x %x %x" % (i, a, rng.bits(16)))
            elif m < 8:
                sc.append("dma aw32 %x %x %x" % (i, a, rng.bits(32)))
            elif m < 9:
                sc.append("dma aget %x %x" % (i, rng.below(7)))
            else:
                sc.append("dma chfordma %x" % rng.below(8))
        sc.append("dma xpeek %x" % ((base + rng.below(16)) & M32))
        out.append(sc)
    return out


def reg_scripts(rng, count):
    out = []
    for _ in range(count):
        sc = ["dma init %x" % rng.bits(32)]
        for _ in range(10 + rng.below(30)):
            m = rng.below(10)
            if m < 2:
                sc.append("dma wreg 1 %x" % rng.below(8))
            elif m < 6:
                r = rng.choice([0] + list(range(2, 20)))
                v = rng.biased(16)
                if r == 0x13 and v == 0x40C0:
                    v = 0x40C1
                sc.append("dma wreg %x %x" % (r, v))
            elif m < 9:
                sc.append("dma rreg %x" % rng.below(20))
            else:
                sc.append("dma aset %x %x %x" % (rng.below(3), rng.below(4), rng.biased(16)))
                sc.append("dma aget %x %x" % (rng.below(3), rng.below(4)))
        if rng.chance(1, 3):
            sc.append("dma dmareset")
            sc += ["dma rreg %x" % rng.below(20) for _ in range(3)]
        out.append(sc)
    return out


# ---------------------------------------------------------------- the property evaluated on the implementation

def direct_scripts(rng, count):
    """`startcheck`: the real transfer against the harness's own three-nested-loop in-order copy.
    Classes (all inside the stated domain of C13):
      dsp     DSP->DSP, any geometry incl. overlap
      x1      one side external, unit = element width, burst x1, naturally aligned addresses
      burst   one side external, burst x4/x8, every step on the external side = unit size, element count
              a multiple of the burst length
      tail    as burst, element count NOT a multiple of the burst length
      e2e     external->external through one AHBM channel (x1 and burst)
      dword-ffff  double-word mode with size0 = 0xFFFF (0x8000 elements per stride; did not end upstream)
    """
    out = []
    for k in range(count):
        cls = ["dsp", "dsp", "x1", "x1", "burst", "burst", "tail", "e2e", "e2e1", "dword-ffff"][k % 10]
        dword = rng.below(2)
        ub = 4 if dword else 2
        unit = 2 if dword else 1
        ch = rng.below(8)
        sc = ["dma init %x" % rng.bits(32)]
        if cls == "dword-ffff":
            sizes = (0xFFFF, rng.below(3), rng.below(3))
            n = dims(sizes[0], sizes[1], sizes[2], 1)
            ss = [rng.choice([0, 1, 2]), rng.choice([0, 1]), 0]
            ds = [rng.choice([0, 1, 2]), rng.choice([0, 1]), 0]
            sc.append(cfg_line(ch, dsp_base(rng, extent(n, ss), 1), dsp_base(rng, extent(n, ds), 1), sizes, ss, ds, 0, 0, 1))
            sc.append("dma startcheck %x" % ch if rng.chance(1, 2) else "dma start %x" % ch)
            out.append((cls, sc))
            continue
        if cls == "dsp":
            sizes = random_sizes(rng, dword) if rng.chance(1, 2) else (rng.below(5), rng.below(5), rng.below(5))
            n = dims(sizes[0], sizes[1], sizes[2], dword)
            ss, ds = pick_steps(rng, n), pick_steps(rng, n)
            sc += gen_transfer(rng, ch, sizes, dword, 0, 0, ss, ds)
            sc.append("dma startcheck %x" % ch)
            out.append((cls, sc))
            continue
        if cls == "x1":
            sizes = random_sizes(rng, dword) if rng.chance(1, 2) else (rng.below(5), rng.below(5), rng.below(5))
            n = dims(sizes[0], sizes[1], sizes[2], dword)
            sp, dp = rng.choice([(0, 7), (7, 0)])
            es = [rng.choice([0, ub, 2 * ub, 3 * ub, 0x100, 0xFFFC, 0x8000]) for _ in range(3)]
            dsps = pick_steps(rng, n)
            ss, ds = (es, dsps) if sp == 7 else (dsps, es)
            e = ext_base(rng, 4)
            d = dsp_base(rng, extent(n, dsps), dword)
            src, dst = (e, d) if sp == 7 else (d, e)
            sc += ahbm_lines(rng, ch, unit, 0, 1 if dp == 7 else 0)
            sc.append(cfg_line(ch, src, dst, sizes, ss, ds, sp, dp, dword))
            sc.append("dma startcheck %x" % ch)
            out.append((cls, sc))
            continue
        burst = rng.choice([1, 2])
        blen = 4 if burst == 1 else 8
        if cls in ("burst", "tail"):
            # contiguous on the external side: every step = unit size
            while True:
                n = (1 + rng.below(12), 1 + rng.below(4), 1 + rng.below(3))
                tot = n[0] * n[1] * n[2]
                if (tot % blen == 0) == (cls == "burst"):
                    break
            sizes = (n[0] * (2 if dword else 1), n[1], n[2])
            sp, dp = rng.choice([(0, 7), (7, 0)])
            es = [ub, ub, ub]
            dsps = pick_steps(rng, n)
            ss, ds = (es, dsps) if sp == 7 else (dsps, es)
            e = ext_base(rng, 4)
            d = dsp_base(rng, extent(n, dsps), dword)
            src, dst = (e, d) if sp == 7 else (d, e)
            sc += ahbm_lines(rng, ch, unit, burst, 1 if dp == 7 else 0)
            sc.append(cfg_line(ch, src, dst, sizes, ss, ds, sp, dp, dword))
            sc.append("dma startcheck %x" % ch)
            if sp == 7 and cls == "tail":
                # a read tail leaves prefetched words queued: the next transfer on this channel sees them
                n2 = (blen, 1, 1)
                sizes2 = (blen * (2 if dword else 1), 1, 1)
                e2 = ext_base(rng, 4)
                ds2 = [2 if dword else 1, 0, 0]
                d2 = dsp_base(rng, extent(n2, ds2), dword)
                sc.append(cfg_line(ch, e2, d2, sizes2, es, ds2, 7, 0, dword))
                sc.append("dma startcheck %x" % ch)
            out.append((cls + ("-write" if dp == 7 else "-read"), sc))
            continue
        # external -> external
        b = 0 if cls == "e2e1" else burst
        n = (blen * (1 + rng.below(3)), 1, 1)
        sizes = (n[0] * (2 if dword else 1), 1, 1)
        src = ext_base(rng, 4)
        dst = (src + 0x1000 + 4 * rng.below(64)) & M32
        sc += ahbm_lines(rng, ch, unit, b, 1)
        sc.append(cfg_line(ch, src, dst, sizes, [ub, ub, ub], [ub, ub, ub], 7, 7, dword))
        sc.append("dma startcheck %x" % ch)
        out.append(("e2e-x1" if b == 0 else "e2e-burst", sc))
    return out


DIRECT_TEXT = {
    "dword-ffff": "DMA never completes: in double-word mode with SIZE0 = 0xFFFF the u16 dimension-0 counter goes "
            "0xFFFE -> 0 and never reaches SIZE0, so Dma::DoDma does not return and no interrupt is raised",
    "tail-write": "burst tail lost: with burst x4/x8 and an element count that is not a multiple of the burst length the "
                  "last elements written to external memory stay in the AHBM burst queue and never reach memory",
    "tail-read": "burst tail stale: with burst x4/x8 and an element count that is not a multiple of the burst length the "
                 "prefetched words left in the AHBM burst queue are delivered to the next transfer instead of its own data",
    "e2e-burst": "external->external with burst x4/x8: read prefetch and write buffering share one queue, the write "
                 "goes to a stale write_burst_start with prefetched read words",
}


# ---------------------------------------------------------------- the transfer programmed through a real Teakra

DMA_REGS = [0x1C0, 0x1C2, 0x1C4, 0x1C6, 0x1C8, 0x1CA, 0x1CC, 0x1CE, 0x1D0, 0x1D2, 0x1D4, 0x1D6, 0x1D8, 0x1DA]


def facade_script(rng):
    """One or two DSP->DSP transfers programmed through the MMIO channel window of a real Teakra::Teakra, twice from the
    same memory: first undisturbed, then with the host-side queries (DMAChan0GetSrcHigh / DMAChan0GetDstHigh, MMIO reads
    of the window) falling between the channel select, the register writes and the start.  The host queries are documented
    as read-only, so both runs must leave the same memory (`inspect_facade`), and both must agree with the model."""
    nch = 1 + rng.below(2)
    chans = []
    while len(chans) < nch:
        c = rng.below(8)
        if c not in chans:
            chans.append(c)
    fill = []
    writes = []
    for k, ch in enumerate(chans):
        dword = rng.below(2)
        n0, n1, n2 = 1 + rng.below(5), 1 + rng.below(3), 1 + rng.below(2)
        size0 = n0 * 2 if dword else n0
        src = 0x0200 + 0x400 * k + 2 * rng.below(16)
        dst = 0x2000 + 0x800 * k + 2 * rng.below(16)
        st = [rng.choice([1, 2, 3, 4]) * (2 if dword else 1) for _ in range(6)]
        for a in range(src, src + 0x80):
            fill.append("bus dw %x %x" % (a, rng.bits(16)))
        vals = [src & 0xFFFF, 0, dst & 0xFFFF, 0, size0, n1, n2, st[0], st[1], st[2], st[3], st[4], st[5], dword << 10]
        writes.append([(ch, off, v) for off, v in zip(DMA_REGS, vals)])
    # interleave the register programming of the channels
    order = []
    idx = [0] * nch
    while any(idx[k] < len(writes[k]) for k in range(nch)):
        k = rng.below(nch)
        if idx[k] < len(writes[k]):
            run = 1 + rng.below(5)
            order += writes[k][idx[k]:idx[k] + run]
            idx[k] += run
    starts = list(chans)

    def program(disturb):
        out = []
        cur = None
        for (ch, off, v) in order:
            if cur != ch:
                out.append("bus mw 1be %x" % ch)
                cur = ch
                if disturb and rng.chance(1, 2):
                    out.append("bus " + rng.choice(["dsthi", "srchi", "dsthi"]))
            out.append("bus mw %x %x" % (off, v))
            if disturb and rng.chance(1, 6):
                out.append("bus " + rng.choice(["dsthi", "srchi", "mr 1be", "mr 1c6"]))
        for ch in starts:
            out.append("bus mw 1be %x" % ch)
            if disturb:
                out.append("bus " + rng.choice(["dsthi", "srchi", "dsthi"]))
            out.append("bus mw 1de 40c0")
        out.append("bus mr 1be")
        out.append("bus memdigest")
        return out

    s = ["bus new %s" % rng.choice(["own", "capi"])] + fill + program(False)
    s += ["bus rst"] + fill + program(True)
    return s


def inspect_facade(script, impl):
    if not script or not script[0].startswith("bus new"):
        return []
    dig = []
    for i, (line, r) in enumerate(zip(script, impl)):
        if r.split(" ")[0] in vlib.ABORTS or r.split(" ")[0] in ("unmodelled", "bad-op"):
            return []
        if line == "bus memdigest":
            dig.append((r.split(" ")[0], i))
    if len(dig) == 2 and dig[0][0] != dig[1][0]:
        return [("the same transfers programmed through the MMIO channel window leave different memory when read-only host "
                 "queries (DMAChan0GetSrcHigh / DMAChan0GetDstHigh / MMIO reads) fall between channel select, register writes "
                 "and start: memory digest %s undisturbed, %s with the queries" % (dig[0][0], dig[1][0]), dig[1][1])]
    return []


def signature(script, impl):
    if script and script[0].startswith("bus"):
        return [("facade", sum(1 for l in script if l == "bus mw 1de 40c0"), sum(1 for l in script if l in ("bus dsthi", "bus srchi")) > 0)]
    out = []
    cfg = None
    ah = None
    for line, r in zip(script, impl):
        t = line.split()
        if t[1] == "cfg":
            v = [int(x, 16) for x in t[2:]]
            cfg = (min(v[5], 5), min(v[6], 5), min(v[7], 5), v[14], v[15], v[16],
                   tuple(STEP_POOL.index(s) if s in STEP_POOL else -1 for s in v[8:14]))
        elif t[1] == "ahbm":
            ah = (t[3], t[4])
        elif t[1] in ("start", "startn", "startcheck") or (t[1] == "wreg" and t[2] == "13"):
            out.append((t[1], cfg, ah, r.split(" ")[0]))
        elif t[1] in ("ar16", "ar32", "aw16", "aw32"):
            out.append((t[1], ah, int(t[3], 16) & 3, len(r.split("|")[-1].split())))
    return out


def judge(pair, script, impl, model):
    if script and script[0].startswith("bus"):
        hits = inspect_facade(script, impl)
        if hits:
            return True, "(the real code violates the property: %s)" % hits[0][0]
        return True, "(a transfer programmed through the MMIO registers of a real Teakra differs from the model the theorems are about)"
    op = script[-1].split()[1] if script else ""
    if op in ("start", "startn", "startcheck", "wreg"):
        return True, "(the real transfer differs from the model, which is proved equal to the closed-form element sequence)"
    if op in ("ar16", "ar32", "aw16", "aw32"):
        return True, "(the real AHBM access differs from the model the AHBM theorems are proved about)"
    return False, ""


def explore(rng, tier, replay=None):
    quick = tier == "quick"
    scripts = []
    scripts += grid_scripts(rng.fork("grid"), tier)
    scripts += random_scripts(rng.fork("random"), 700 if quick else 12000)
    scripts += long_scripts(rng.fork("long"), 24 if quick else 200)
    scripts += ahbm_scripts(rng.fork("ahbm"), 400 if quick else 6000)
    scripts += reg_scripts(rng.fork("reg"), 150 if quick else 2000)
    direct = direct_scripts(rng.fork("direct"), 300 if quick else 4000)
    scripts += [s for (_, s) in direct]
    scripts += [facade_script(rng.fork("facade%d" % k)) for k in range(120 if quick else 2500)]
    ctx = corr.explore(PROP, scripts, judge=judge, signature=signature, inspect=inspect_facade,
                       rule="(1) grid: sizes 0..4 per dimension x both modes, steps from the boundary pool "
                            "{0,1,2,3,4,6,8,0x100,0x7FFF,0x8000,0xFFFE,0xFFFF}, spaces {0,7}, base addresses chosen from "
                            "the closed-form extent so most transfers stay inside the array and 1/16 leave it (both "
                            "sides must answer oob); (2) random geometries <= 4096 elements incl. spaces 1/5, all "
                            "unit/burst values 0..3, overlapping ranges, 1-3 transfers per script (burst-queue state "
                            "carries over), start through SetZ(0x40C0); (3) counter-boundary sizes with a tick budget; "
                            "(4) direct AHBM accesses at odd/even addresses; (5) register set/get; (6) `startcheck`: "
                            "the real transfer against the harness's own three-nested-loop copy; (7) facade: DSP->DSP transfers on one or two "
                            "channels programmed through the MMIO channel window of a real Teakra::Teakra (own and C binding), "
                            "twice from the same memory - undisturbed, then with the read-only host queries DMAChan0GetSrcHigh / "
                            "DMAChan0GetDstHigh and window reads between select, register writes and start - memory digests "
                            "compared on the implementation and with the model. distinct = (op, size "
                            "classes, spaces, mode, step-pool indices, unit, burst, outcome) seen in the implementation")
    # the property evaluated on the implementation itself
    pair = vlib.Pair("plain")
    a, _, _, _ = pair.run([s for (_, s) in direct])
    seen = {}
    n_same = n_skip = 0
    for (cls, sc), r in zip(direct, a):
        for line, resp in zip(sc, r):
            if " startcheck " not in line and " start " not in line:
                continue
            if resp.startswith("same"):
                n_same += 1
            elif resp.startswith("skip"):
                n_skip += 1
            elif resp.startswith("DIFF") or resp.startswith("hang"):
                seen.setdefault(cls, (sc, r))
                break
    for cls, (sc, r) in sorted(seen.items()):
        text = DIRECT_TEXT.get(cls, "the real transfer differs from the in-order copy of the documented element sequence "
                                    "(class %s)" % cls)
        desc = "%s; startcheck on the real code answered %r" % (text, [x for x in r if x[:4] in ("DIFF", "hang")][:1])
        ctx["violations"].append((desc, {"kind": "correspondence", "script": sc, "impl": r, "class": cls,
                                         "correspondence": PROP + "/dma"}, True))
    ctx["direct_property_cases"] = {"startcheck_same": n_same, "startcheck_outside_domain": n_skip,
                                    "classes_failing": sorted(seen)}
    return ctx


def replay(rep):
    regenerate()
    return corr.replay(rep)
