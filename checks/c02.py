"""C02 — every opcode decodes one way; consumers agree on form and length; unused bits are irrelevant.

Translator-based: `regenerate()` rewrites lean/TeakraModel/Generated/DecodeTable.lean and
harness/recvis.gen.h from the *current* /repo/src/decoder.h + operand.h, the theorems of Proofs.C02 are
re-proved over that table, and the table is tied to the real code by an exhaustive run: all 65536 first
words x several second words through `Decode<RecordingVisitor>` (harness) and `decode` (model), plus the
`consumers` op comparing Decode<Interpreter> and Disassembler::NeedExpansion on the real code.
"""
import json
import os

import corr
import vlib
import translate_decode as td

PROP = "C02"
MODULE = "Proofs.C02All"
GOLDEN_MODULE = "Proofs.C02Golden"
NS = "Teakra.Decode."
THEOREMS = [NS + t for t in [
    "decode_unique", "pairDisjoint_sound", "cubeEmpty_sound", "table_allPairs", "decode_eq_of_matches",
    "decode_some", "operands_disjoint", "noOverlap_static_assert", "mask_covers", "expected_within_mask",
    "expanded_iff", "needExpansion_iff", "unused_irrelevant", "unused_same_decode", "expected_matches"]] + [
    # the interpreter's fetch (model of Interpreter::Run) consumes a second word exactly when the decoder says so
    "Teakra.decodeInstr_sig", "Teakra.fetch_decode_agrees", "Teakra.fetch_defined_agrees",
    "Teakra.cycle_consumes_one", "Teakra.cycle_consumes_two"]
TRUSTED = ["tools/translate_decode.py (decoder.h/operand.h -> Generated/DecodeTable.lean; the template machinery "
           "At/Unused/Const/Cn/AtConst/MatcherCreator/Matcher::Matches/Decode is pinned textually, not interpreted), "
           "tied by the exhaustive `dec` run over all 65536 first words",
           "hand-written lean/TeakraModel/Decode.lean (Matcher::Matches, At::Extract)",
           "harness/u_decode.cpp + generated harness/recvis.gen.h, tools/vlib.py (comparison), g++ 12"]
ASSUMPTIONS = ["the disassembler's, assembler's (parser.cpp calls Disassembler::NeedExpansion) and test generator's "
               "views are observed through Decode<V> on the one shared table; Decode<Disassembler>/Decode<TestGenerator> "
               "are file-local classes and are not instantiated by the harness",
               "the interpreter's pc advance over the operand word is proved for the model's loop iteration (cycle_consumes_one/two) and tied to the C++ by the instruction-level slices (C01/C06) and the fetch-loop slice"]

GEN_JSON = os.path.join(vlib.BUILD, "gen", "decode_table.json")
GOLDEN_JSON = os.path.join(vlib.LEAN, "TeakraModel", "Golden", "decode_table.json")
SECOND_QUICK = [0x0000, 0xFFFF, 0x5A3C]


def regenerate():
    """Re-translate from vlib.REPO; files are rewritten only when their content changes."""
    try:
        data, changed = td.translate(vlib.REPO, vlib.ROOT)
    except Exception:
        td.restore_golden(vlib.ROOT)     # unreadable source: the differential runs against the pinned encoding
        raise
    st = td.stats(data)
    st["rewritten"] = [os.path.relpath(c, vlib.ROOT) for c in changed]
    st["equals_golden"] = data == json.load(open(GOLDEN_JSON))
    return st


# ----------------------------------------------------------------------------- executable decision procedures

def at_mask(o):
    if o["kind"] in ("At", "AtNamed"):
        return (((1 << o["bits"]) - 1) << o["pos"]) & 0xFFFF
    if o["kind"] == "Unused":
        return (1 << o["pos"]) & 0xFFFF
    return 0


def matches(p, w):
    return (w & p["mask"]) == p["expected"] and all((w & m) != u for m, u in p["rejectors"])


def decode_all(table):
    """For every word: list of indices of matching entries (enumerating each entry's own cube)."""
    hits = [[] for _ in range(65536)]
    for i, p in enumerate(table):
        free = ~p["mask"] & 0xFFFF
        if p["expected"] & free:
            continue                      # expected bit outside the compared bits: matches nothing
        s = free
        while True:
            w = p["expected"] | s
            if all((w & m) != u for m, u in p["rejectors"]):
                hits[w].append(i)
            if s == 0:
                break
            s = (s - 1) & free
    for h in hits:
        h.sort()
    return hits


def extract(p, w, e):
    out = []
    for o in p["operands"]:
        if o["kind"] == "Unused":
            continue
        if o["bits"] == 0:
            out.append(o["value"])
        elif o["pos"] == 16:
            out.append(e)
        else:
            out.append((w & at_mask(o)) >> o["pos"])
    return out


def form(data, hits, w, e):
    """What a consumer sees for (w, e): (name, signature, expanded, operand values) or 'undefined'/'assert'."""
    h = hits[w]
    if not h:
        return "undefined"
    if len(h) > 1:
        return "assert"
    p = data["table"][h[0]]
    return (p["name"], data["signatures"][h[0]], p["expanded"], tuple(extract(p, w, e)))


def direct_searches(data, hits):
    """The decision procedures the theorems certify, run on the regenerated table; each finding carries a
    concrete first word."""
    out = []
    t = data["table"]
    # decode_unique
    multi = [w for w in range(65536) if len(hits[w]) > 1]
    if multi:
        w = multi[0]
        i, j = hits[w][0], hits[w][1]
        out.append(("opcode 0x%04x is matched by two decode-table entries: #%d %s(%s) and #%d %s(%s); %d words are "
                    "matched more than once (decode_unique fails; Decode<V> ASSERTs)"
                    % (w, i, t[i]["name"], data["signatures"][i], j, t[j]["name"], data["signatures"][j], len(multi)),
                    ["dec reset", "dec dec %x 0" % w, "dec consumers %x" % w]))
    for i, p in enumerate(t):
        fields = [p["expected"]] + [at_mask(o) for o in p["operands"]]
        # operands_disjoint
        if sum(fields) != _or(fields):
            out.append(("decode-table entry #%d %s (expected 0x%04x): expected bits / operand masks overlap "
                        "(operands_disjoint fails; the NoOverlap static_assert rejects it)" % (i, p["name"], p["expected"]),
                        ["dec reset", "dec dec %x 0" % p["expected"]]))
        # expanded_iff
        if p["expanded"] != any(o["pos"] == 16 for o in p["operands"]):
            out.append(("decode-table entry #%d %s: NeedExpansion=%s but %s operand is taken from the expansion word "
                        "(expanded_iff fails): opcode 0x%04x would %s"
                        % (i, p["name"], p["expanded"], "an" if not p["expanded"] else "no", p["expected"],
                           "execute its operand word as an instruction" if not p["expanded"] else "swallow the next instruction"),
                        ["dec reset", "dec dec %x ffff" % p["expected"], "dec consumers %x" % p["expected"]]))
        # unused_irrelevant
        for o in p["operands"]:
            if o["kind"] != "Unused":
                continue
            u = o["pos"]
            bad = [r for r in p["rejectors"] if (r[0] >> u) & 1]
            clash = [q for q in p["operands"] if q is not o and (at_mask(q) >> u) & 1]
            if bad or clash or (p["mask"] >> u) & 1 or u >= 16:
                ws = [w for w in range(65536) if matches(p, w) and
                      (not matches(p, w ^ (1 << u)) or extract(p, w, 0) != extract(p, w ^ (1 << u), 0))]
                w = ws[0] if ws else p["expected"]
                out.append(("decode-table entry #%d %s: bit %d is declared Unused but %s (unused_irrelevant fails): "
                            "0x%04x and 0x%04x decode differently"
                            % (i, p["name"], u, "an .EXCEPT mask looks at it" if bad else "it is compared / extracted",
                               w, w ^ (1 << u)),
                            ["dec reset", "dec dec %x 0" % w, "dec dec %x 0" % (w ^ (1 << u))]))
    # one representative per kind of finding (the first), with the number of entries affected
    kinds = {}
    for desc, script in out:
        k = desc.split(":")[1][:40] if desc.startswith("decode-table entry") else "multi"
        kinds.setdefault(k, []).append((desc, script))
    return [(v[0][0] + ("" if len(v) == 1 else " [%d entries affected]" % len(v)), v[0][1]) for v in kinds.values()]


def _or(xs):
    r = 0
    for x in xs:
        r |= x
    return r


def golden_diff(data, hits):
    """Words whose decoding differs between the regenerated and the golden (pinned) table."""
    gold = json.load(open(GOLDEN_JSON))
    if gold == data:
        return {"equal": True, "changed_words": 0}, []
    ghits = decode_all(gold["table"])
    changed = []
    for w in range(65536):
        for e in (0x0000, 0xFFFF):
            a, b = form(data, hits, w, e), form(gold, ghits, w, e)
            if a != b:
                changed.append((w, e, a, b))
                break
    info = {"equal": False, "changed_words": len(changed),
            "table_entries": [len(data["table"]), len(gold["table"])],
            "first_changed": ["0x%04x" % c[0] for c in changed[:16]]}
    return info, changed


# ----------------------------------------------------------------------------- correspondence

def scripts_for(seconds):
    out = []
    for w in range(65536):
        s = ["dec reset"]
        for e in seconds:
            s.append("dec dec %x %x" % (w, e))
        s.append("dec consumers %x" % w)
        out.append(s)
    return out


def signature(script, impl):
    out = []
    for line, r in zip(script, impl):
        t = line.split()
        rt = r.split()
        if t[1] == "dec" and rt:
            out.append(("dec",) + tuple(rt[:4]) if len(rt) > 3 else ("dec", rt[0]))
    return out


def judge(pair, script, impl, model):
    """The model answers from the regenerated table the theorems were just proved about; any difference
    on a concrete word is a word on which the real decoder does not behave as that table says."""
    last = impl[-1] if impl else ""
    if last.startswith("DIFF") or " DIFF" in last:
        return True, "(consumers of the decode table disagree with each other on the real code)"
    if script[-1].split()[1] == "gdec":
        return True, "(the real decoder no longer decodes this word as the pinned encoding does)"
    return True, "(the real decoder differs from the translated table on this word)"


def explore(rng, tier, replay=None):
    violations = []
    extra = {"exhaustive": True, "unmodelled": []}
    data = json.load(open(GEN_JSON if os.path.exists(GEN_JSON) else GOLDEN_JSON))
    hits = decode_all(data["table"])
    undefined = sum(1 for h in hits if not h)
    direct = direct_searches(data, hits)
    ginfo, changed = golden_diff(data, hits)
    ok_g, glog = vlib.lean_build([GOLDEN_MODULE])
    ginfo["table_eq_golden_theorem"] = "checked" if ok_g else "does not hold (table regenerated from a changed decoder.h/operand.h)"
    extra["golden_agreement"] = ginfo
    extra["direct_property_cases"] = {
        "what": "executable searches for the facts the table theorems certify (two entries matching one word, operand "
                "mask overlap, expansion flag vs operand positions, unused bit visible to a mask/rejector/operand), over the "
                "regenerated table",
        "words": 65536, "entries": len(data["table"]), "undefined_words": undefined, "findings": len(direct),
        "golden_agreement": ginfo}
    seconds = SECOND_QUICK if tier == "quick" else SECOND_QUICK + [rng.bits(16) for _ in range(13)]
    scripts = scripts_for(seconds)
    probes = []
    for desc, script in direct[:6]:
        probes.append((desc, script, "direct"))
    groups = {}
    for c in changed:                      # one representative word per (new form, pinned form) kind of change
        groups.setdefault((_head(c[2]), _head(c[3])), c)
    for (w, e, a, b) in list(groups.values())[:3]:
        probes.append(("decoding of opcode 0x%04x changed relative to the pinned encoding: now %s, pinned %s (%d words changed)"
                       % (w, _fmt(a), _fmt(b), len(changed)), ["dec reset", "dec gdec %x %x" % (w, e)], "golden"))
    try:
        ctx = corr.explore(PROP, scripts, judge=judge, signature=signature, extra=extra, sample_n=3,
                           rule="exhaustive: every 16-bit first word x %d second words through Decode<RecordingVisitor>"
                                "(w).call(...) on the real code and `decode` of the model (entry index, handler name, overload "
                                "signature, NeedExpansion, raw operand storage), plus per word the `consumers` op "
                                "(Decode<Interpreter> name/NeedExpansion and Disassembler::NeedExpansion against the recording "
                                "visitor's). distinct = (entry index, name, signature, expanded) seen in the implementation's answers"
                                % len(seconds))
        if probes:
            pair = vlib.Pair("plain")
            a, b, _, _ = pair.run([p[1] for p in probes], shards=1)
            for (desc, script, kind), ra, rb in zip(probes, a, b):
                violations.append((desc + " | impl: %r model: %r" % (ra[1:], rb[1:]),
                                   {"kind": "correspondence", "script": script, "impl": ra, "model": rb,
                                    "correspondence": "C02/dec", "source": kind}, True))
    except RuntimeError as ex:
        # the harness does not build / run on this tree (e.g. NoOverlap static_assert): report what the searches found
        ctx = dict(extra)
        ctx.update({"evaluations": 0, "violations": [], "rule": "harness unavailable: " + str(ex)[-600:]})
        for desc, script, kind in probes:
            violations.append((desc, {"kind": "correspondence", "script": script, "source": kind,
                                      "correspondence": "C02/dec"}, True))
        violations.append(("harness does not build or run on this tree: " + str(ex)[-400:],
                           {"kind": "error", "error": str(ex)[-4000:]}, False))
    try:
        from checks import c01
        fv, fstats = c01.fetch_slice(rng, tier)
        violations += fv
        ctx["fetch_slice"] = fstats
        ctx["evaluations"] = ctx.get("evaluations", 0) + fstats["fetch_cases"]
    except RuntimeError as ex:
        violations.append(("fetch slice could not run: " + str(ex)[-300:], {"kind": "error", "error": str(ex)[-2000:]}, False))
    ctx["violations"] = violations + ctx.get("violations", [])
    return ctx


def _head(f):
    return f if isinstance(f, str) else (f[0], f[1], f[2])


def _fmt(f):
    if isinstance(f, str):
        return f
    return "%s(%s)%s %s" % (f[0], f[1], " +expansion" if f[2] else "", [hex(v) for v in f[3]])


def replay(rep):
    try:
        regenerate()            # the model must answer from the table of the tree being replayed
    except Exception as ex:     # noqa: BLE001
        print("translator failed: %s" % ex)
    rc = corr.replay(rep)
    if rep.get("kind") == "correspondence" and rc == 0:
        # a direct finding (e.g. two entries match: both sides answer `assert`) is a failure even when both agree
        pair = vlib.Pair(rep.get("variant", "plain"))
        a, _, _, _ = pair.run([rep["script"]], shards=1)
        if any(r.startswith("assert") or "DIFF" in r for r in a[0]):
            print("implementation reports: " + "; ".join(a[0]))
            return 1
    return rc
