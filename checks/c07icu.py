"""C07 (interrupt-controller slice) — routing, request latching and acknowledge of src/icu.h.
Helper slice to be merged into the C07 check."""
import corr

PROP = "C07"
MODULE = "Proofs.C07Icu"
NS = "Teakra.Icu."
THEOREMS = [NS + t for t in [
    "mem_triggered", "getVector_eq", "trigger_routes", "trigger_sets_request", "ack_exact",
    "triggerSingle_routes", "unrouted_never", "step_triggerSingle", "pending_sticky",
    "route_change_silent"]]
TRUSTED = ["hand-written model lean/TeakraModel/Icu.lean of src/icu.h, tied by the `icu` correspondence slice",
           "harness/u_icu.cpp, tools/vlib.py (comparison), g++ 12"]
ASSUMPTIONS = ["on_interrupt / on_vectored_interrupt are installed (the C++ calls them unchecked) and are pure logging callbacks",
               "one call at a time: ICU::mutex is not modelled",
               "interrupt index < 3, vector index < 16, TriggerSingle argument < 32 (unchecked array indices / shift count in "
               "the C++; larger values are answered `oob` by harness and model without calling the code)"]


def bits(rng):
    m = rng.below(6)
    if m == 0:
        return rng.choice([0, 1, 0x8000, 0xFFFF, 0x4000, 0x0E00])
    if m == 1:
        return 1 << rng.below(16)
    if m == 2:
        return (1 << rng.below(16)) | (1 << rng.below(16))
    if m == 3:
        return rng.bits(16) & rng.bits(16)
    return rng.bits(16)


def gen_state(rng):
    v = [bits(rng), bits(rng), bits(rng), bits(rng), bits(rng)]
    v += [rng.bits(16) for _ in range(16)]
    v += [rng.choice([0, 1, 2, 3, rng.bits(16)]) for _ in range(16)]
    v += [rng.choice([0, 0, 1, 0x8000, 2]) for _ in range(16)]
    return "icu set " + " ".join("%x" % x for x in v)


def gen_script(rng, n):
    s = [gen_state(rng)]
    for _ in range(n):
        m = rng.below(24)
        if m < 7:
            s.append("icu trig %x" % bits(rng))
        elif m < 11:
            s.append("icu single %x" % (rng.below(16) if not rng.chance(1, 8) else rng.choice([16, 17, 30, 31, 32, 0xFF])))
        elif m < 15:
            s.append("icu ack %x" % bits(rng))
        elif m < 18:
            s.append("icu en %x %x" % (rng.below(3) if not rng.chance(1, 20) else 3, bits(rng)))
        elif m < 20:
            s.append("icu ven %x" % bits(rng))
        elif m < 21:
            s.append("icu " + rng.choice(["req", "getack", "gettrig", "getven"]))
        elif m < 22:
            s.append("icu geten %x" % (rng.below(3) if not rng.chance(1, 10) else 3))
        elif m < 23:
            s.append("icu vec %x" % (rng.below(16) if not rng.chance(1, 10) else rng.choice([16, 0x100])))
        else:
            s.append(gen_state(rng))
    return s


def signature(script, impl):
    out = []
    for line, r in zip(script, impl):
        t = line.split()
        rt = r.split()
        if len(rt) < 3:
            out.append((t[1], r))
            continue
        ev = rt[1].split(",") if rt[1] != "-" else []
        kinds = tuple(sorted(set(e[0] + (e[1] if e[0] == "i" else e[-1]) for e in ev)))
        out.append((t[1], min(len(ev), 6), kinds))
    return out


def judge(pair, script, impl, model):
    # the model *is* the routing / latching specification proved in Proofs.C07Icu
    return True, "(ICU behaviour differs from the proved routing / request-latch specification)"


def explore(rng, tier, replay=None):
    n = 1500 if tier == "quick" else 40000
    scripts = [gen_script(rng, 6 + rng.below(30)) for _ in range(n)]
    return corr.explore(PROP, scripts, judge=judge, signature=signature,
                        rule="random ICU histories: complete state set (request, 3 enable words, vectored enable, the three "
                             "16-entry vector tables — uninitialised by the C++ constructor) then Trigger / TriggerSingle "
                             "(incl. 16..31 and out-of-contract >= 32) / Acknowledge / SetEnable / SetEnableVectored / getters, "
                             "words from boundary pool, single and double bits, sparse and uniform. distinct = (op, number of "
                             "callbacks, kinds of callbacks) signatures seen in the implementation's answers")


def replay(rep):
    return corr.replay(rep)
