"""C08 - calls, returns, stack push/pop and context switches restore state exactly.

Proof side: Proofs/C08.lean (context store/restore algebra, bank exchanges and ar/arp swaps as involutions) and
Proofs/C08Stack*.lean (push/pop of a word on ordinary stack memory; PushPC/PopPC for both word orders; every call form
followed by ret / rets / reti; interrupt entry followed by reti / retic incl. the context round trip; push/pop of plain
registers, accumulator parts, status/config/ar/arp words with their exact side conditions, the multi-word pairs, and the
negative witnesses where a literal reading of "restores" fails).

Tie: the `interp` unit (one Interpreter::Run(1) per step on a real Teakra, model = Teakra.cycle) - the instruction slice
over the call/return/stack/context/bank families, and sequences evaluated ON THE IMPLEMENTATION:
  call ; ret            -> pc = address after the call, sp restored (all call forms, both cpc orders)
  push X ; pop X ; push X  -> the word pushed the second time equals the first, sp restored (every pushable operand, with
                              saturation disabled and no hardware loop active)
  pusha/popa, push/pop p  -> under the stated hypotheses the register is restored
  cntx s ; cntx r / banke ; banke / bankr ; bankr -> every program-visible register as before
"""
import os
import sys

import corr
import vlib
from checks import alu_common

PROP = "C08"
MODULE = "Proofs.C08Stack"
T = "Teakra."
THEOREMS = [T + "Interp." + t for t in [
    # Proofs/C08.lean
    "swapAllArArp_involutive", "shadowSwap_involutive", "contextStore_run", "contextRestore_run", "cntx_r_cntx_s",
    "cntx_r_cntx_s_run", "banke_run", "banke_involutive"]] + [T + t for t in [
    # Proofs/C08Stack
    "busRead_busWrite_ordinary", "push_pop_word", "push_pop_word_frame", "pushPC_popPC", "pushPC_popPC_assert",
    "pushPC_popPC_both_orders", "call_ret_roundtrip", "call_ret_roundtrip_addr18", "call_rets_roundtrip", "call_reti_roundtrip",
    "call_body_ret", "call_cond_false", "callr_cond_false", "ret_cond_false", "reti_cond_false", "execPhase_call", "execPhase_ret",
    "entry_reti_roundtrip", "entry_retic_roundtrip", "entry_body_reti", "vectored_entry_reti_roundtrip",
    "vectored_entry_retic_roundtrip", "push_pop_register", "push_pop_r6", "push_pop_x0", "push_pop_x1", "push_pop_y1",
    "push_pop_repc", "push_pop_prpage", "push_pc_aborts", "push_pop_acc_part", "push_pop_acc_part_value",
    "push_pop_acc_part_restores", "push_pop_status_register", "push_pop_status_arArpSttMod", "push_pop_st0_partial",
    "push_pop_st1_partial", "pusha_popa", "pusha_popa_restores", "pusha_popa_sat_off", "push_px_pop_px",
    "push_px_pop_px_restores", "push_px_pop_px_partial", "push_abe_pop_abe", "push_abe_pop_abe_restores", "push_pop_p",
    "push_pop_p_partial",
    # negative witnesses
    "push_pop_acc_part_counterexample", "push_pop_st0_counterexample", "push_pop_st1_counterexample",
    "push_pop_stt2_counterexample", "push_pop_width_counterexample", "pusha_popa_ext_counterexample",
    "pusha_popa_sat_counterexample", "push_abe_pop_abe_sat_counterexample", "push_px_pop_px_counterexample",
    "push_pop_p_counterexample"]]
TRUSTED = ["hand-written model lean/TeakraModel/{Interp,Exec/Control,Exec/Stack}.lean of PushPC/PopPC, call/ret, push/pop, "
           "ContextStore/Restore, banke/bankr, tied by the `interp` correspondence slice below and by C01",
           "the pseudo-register layouts are those of C20 (regenerated from register.h); Proofs/C08Stack/Abs.lean transports the C20 "
           "theorems to the interpreter's register file"]
ASSUMPTIONS = ["the stack slots are ordinary memory (not inside the MMIO window, address conversion succeeds): `OrdinaryAt`",
               "'restores that value': the 16-bit word read from the operand is the same before and after; what else a pop changes "
               "is stated exactly by the theorems - moving a word into an accumulator part rewrites the whole accumulator "
               "(extension / other half) and the Z M E N flags, popping st0 sets fvl := flm|fvl, st1 carries only a 4-bit "
               "accumulator extension, popping stt2 with lp = 1 ends the hardware loop (the property's 'no hardware loop "
               "active'), saturation must be disabled for accumulator reads - each with a proved witness",
               "a stacked pc >= 0x40000 makes PopPC's SetPC assert (pushPC_popPC_assert)"]

REGISTER_OPERANDS = list(range(32))


def seq_scripts(rng, tier):
    n = 6 if tier == "quick" else 200
    scripts = []
    common = ["interp poke lp 0", "interp poke rep 0", "interp poke sat 1", "interp poke ie 0", "interp poke prpage 0"]

    def start(extra=()):
        sp = rng.choice([0x1000, 0x0100, 0x7FF0, 0x9000, 0xFFF0])
        return (["interp gen %x" % rng.bits(40)] + common +
                ["interp poke sp %x" % sp, "interp poke pc %x" % rng.choice([0x100, 0x1234, 0x20000, 0x3FF00])] + list(extra))

    for _ in range(n):
        # call ; ret   (all call forms x both word orders)
        for form in ("call", "callr", "callaxl", "callax"):
            for cpc in (0, 1):
                tgt = rng.choice([0x200, 0x2ABCD & 0x3FFFF, 0x3F000])
                ex = ["interp poke cpc %x" % cpc]
                if form == "call":
                    step = "interp stepv %x %x" % (0x41C0 | ((tgt >> 16) << 4), tgt & 0xFFFF)
                elif form == "callr":
                    step = "interp stepv %x 0" % (0x1000 | (rng.below(0x40) << 4))
                elif form == "callaxl":
                    ax = rng.below(2)
                    ex.append("interp poke a%d %x" % (ax, tgt & 0xFFFF))
                    step = "interp stepv %x 0" % (0xD480 | (ax << 8))
                else:
                    ax = rng.below(2)
                    ex.append("interp poke a%d %x" % (ax, tgt))
                    step = "interp stepv %x 0" % (0xD381 | (ax << 4))
                scripts.append(start(ex) + ["interp dump", step, "interp stepv 4580 0", "#callret"])
        # push X ; pop X ; push X
        for r in REGISTER_OPERANDS:
            if r == 11:
                # `p` as a 16-bit operand reads the product through the product shifter and writes its high half: products
                # round-trip only through their dedicated pair (theorems push_pop_p, push_px_pop_px and their witnesses)
                continue
            scripts.append(start() + ["interp dump", "interp stepv %x 0" % (0x5E40 | r), "interp stepv %x 0" % (0x5E60 | r),
                                      "interp stepv %x 0" % (0x5E40 | r), "#pushpop reg%d" % r])
        for a in range(16):
            scripts.append(start() + ["interp dump", "interp stepv %x 0" % (0xD3D0 | a), "interp stepv %x 0" % (0x80C7 | (a << 8)),
                                      "interp stepv %x 0" % (0xD3D0 | a), "#pushpop ArArpSttMod%d" % a])
        for (pu, po, name) in ((0xD4D7, 0x0024, "r6"), (0xD4D4, 0xD494, "x0"), (0xD4D5, 0xD495, "x1"), (0xD4D6, 0x0004, "y1"),
                               (0xD7F8, 0xD7F0, "repc"), (0xD7FC, 0xD7F4, "prpage")):
            scripts.append(start() + ["interp dump", "interp stepv %x 0" % pu, "interp stepv %x 0" % po, "interp stepv %x 0" % pu,
                                      "#pushpop %s" % name])
        # context and banks
        scripts.append(start() + ["interp dump", "interp stepv d380 0", "interp stepv d390 0", "#same cntx"])
        f = rng.below(64)
        scripts.append(start() + ["interp dump", "interp stepv %x 0" % (0x4B80 | f), "interp stepv %x 0" % (0x4B80 | f), "#same banke"])
        for w in (0x8CDF, 0x8CDC | rng.below(2), 0x8CD0 | (rng.below(2) << 2) | rng.below(4), 0x8CD8 | rng.below(4)):
            scripts.append(start() + ["interp dump", "interp stepv %x 0" % w, "interp stepv %x 0" % w, "#same bankr"])
    # the `#...` marker lines are comments for inspect; strip them from what is sent and remember them
    return scripts


MARK = {}


def strip(scripts):
    out = []
    for s in scripts:
        tag = s[-1]
        body = s[:-1]
        MARK[" | ".join(body)] = tag
        out.append(body)
    return out


def fields(line):
    import gen_flat
    names = [n for n, *_ in gen_flat.flat()]
    t = line.split()
    if t and t[0] == "ok":
        t = t[1:]
    return dict(zip(names, t[:len(names)]))


def writes(line):
    """[(byte address, value)] of the `w` entries of a stepv access log."""
    if "|" not in line:
        return []
    t = line.split("|", 1)[1].split()
    out = []
    for i in range(0, len(t) - 2, 3):
        if t[i] == "w":
            out.append((t[i + 1], t[i + 2]))
    return out


ONE_WAY = lambda n: n.startswith("sh_") or n in ("a1s", "b1s", "repcs")     # the hidden one-way save slots of a context store


def inspect(script, impl):
    tag = MARK.get(" | ".join(script))
    if not tag:
        # replayed / shrunk scripts: recognise the shape
        return []
    if any(r.split(" ")[0] in vlib.ABORTS for r in impl):
        return []
    k0 = script.index("interp dump")
    before = fields(impl[k0])
    after = fields(impl[-1])
    kind = tag.split()[0]
    if kind == "#callret":
        pc0 = int(before["pc"], 16)
        w = int(script[k0 + 1].split()[2], 16)
        length = 2 if (w & 0xFFC0) == 0x41C0 else 1
        if int(after["pc"], 16) != pc0 + length or after["sp"] != before["sp"]:
            return [("call followed by ret: resumed at pc %s (call at %x, %d word(s)), sp %s -> %s - not the instruction after the call "
                     "with the stack pointer restored  [%s ; cpc=%s]" % (after["pc"], pc0, length, before["sp"], after["sp"],
                                                                       script[k0 + 1], before["cpc"]), len(script) - 1)]
        return []
    if kind == "#pushpop":
        w1 = writes(impl[k0 + 1])
        w3 = writes(impl[k0 + 3])
        if not w1 or not w3:
            return []
        if w1[-1][1] != w3[-1][1] or after["sp"] != fields(impl[k0 + 1])["sp"]:
            return [("push/pop of %s: the word pushed after push;pop is %s, it was %s (sp %s vs %s) - the value is not restored "
                     "[saturation disabled, no hardware loop]" % (tag.split()[1], w3[-1][1], w1[-1][1], after["sp"],
                                                                  fields(impl[k0 + 1])["sp"]), len(script) - 1)]
        return []
    if kind == "#same":
        diff = [n for n in before if n != "pc" and before[n] != after.get(n) and not (tag.split()[1] == "cntx" and ONE_WAY(n))]
        if diff:
            return [("%s applied twice / store then restore leaves program-visible registers changed: %s"
                     % (tag.split()[1], ", ".join("%s %s->%s" % (n, before[n], after[n]) for n in diff[:5])), len(script) - 1)]
    return []


def judge(pair, script, impl, model):
    hits = inspect(script, impl)
    if hits:
        return True, "(the real code violates the property: %s)" % hits[0][0]
    return True, "(instruction result differs from the reference model the round-trip theorems are about)"


def signature(script, impl):
    tag = MARK.get(" | ".join(script), "?")
    return [(tag, tuple(r.split(" ")[0] for r in impl[-3:]))]


def explore(rng, tier, replay=None):
    scripts = strip(seq_scripts(rng, tier))
    ctx = corr.explore(PROP, scripts, judge=judge, signature=signature, inspect=inspect, model_first=True,
                       rule="sequences on a real Teakra (one Run(1) per step) from seeded register/memory states with the stack at five "
                            "places, saturation disabled, no loop: every call form (call addr18, callr, calla axl, calla ax) x both "
                            "pc word orders followed by ret - judged on the implementation: pc = address after the call, sp restored; "
                            "push X ; pop X ; push X for all 32 Register operands, all 16 ArArpSttMod operands, r6, x0, x1, y1, repc, "
                            "prpage - judged: the second pushed word equals the first and sp is restored; cntx s ; cntx r, banke f ; "
                            "banke f, bankr x ; bankr x - judged: every non-shadow register as before; all steps compared with the "
                            "model (all 243 fields and the access log)")
    # the instruction families themselves, from boundary and loop/interrupt state variants
    try:
        iv, istats = alu_common.instr_slice(rng, ["call", "calla", "callr", "ret", "reti", "retic", "rets", "push", "pusha", "pop", "popa",
                                                  "cntx", "banke", "bankr", "swap", "exchange"], 2 if tier == "quick" else 16)
        ctx["violations"] = ctx.get("violations", []) + iv
        ctx["instruction_slice"] = istats
        ctx["evaluations"] = ctx.get("evaluations", 0) + istats["instruction_cases"]
    except RuntimeError as ex:
        ctx["violations"] = ctx.get("violations", []) + [("instruction slice could not run: " + str(ex)[-300:],
                                                          {"kind": "error", "error": str(ex)[-2000:]}, False)]
    return ctx


def replay(rep):
    return corr.replay(rep)
