"""C12 — MMIO registers hold what was written and do not alias one another."""
import os
import sys

import corr
import vlib

PROP = "C12"
MODULE = "Proofs.C12"
GOLDEN_MODULE = "Proofs.C12BindGolden"
NS = "Teakra.Bus."
THEOREMS = [NS + t for t in [
    "cellTable_off", "cellAt_off", "cellAt_inj", "kind_table", "coupled_table", "emits_table",
    "rw_readback", "rw_readback_store", "frame", "frame_store",
    "dma_window_select", "dma_window_read", "dma_window_write", "dma_window_independent", "dma_window_eight_copies",
    "mirror_host", "mirror_host_write", "mirror_dsp", "mirror_dsp_write",
    "write_no_event_unless_trigger", "read_no_event", "read_pure_unless_fifo",
    "const_reads", "wo_read_unchanged", "accum_reads_or", "reset_clears_icu_and_store", "resetUpstream_keeps_icu_and_store"]] + [
    "Teakra.cell_frame", "Teakra.cell_readback", "Teakra.cell_events"]
# over the binding table translated from src/mmio.cpp of the tree under test on every run (Proofs/C12Bind.lean)
EXTRA_MODULES = [("Proofs.C12Bind", [
    "Teakra.bind_wellformed", "Teakra.bind_setters_distinct", "Teakra.setters_disjoint_of_ne", "Teakra.slotsOk_bounds",
    "Teakra.bind_offsets_eq_model", "Teakra.bind_const_eq_model", "Teakra.bind_mask_eq_model"])]
TRUSTED = ["tools/translate_mmio.py (constructor of MMIORegion -> lean/TeakraModel/Generated/MmioBind.lean: loops unrolled, "
           "offsets evaluated, accessor expressions identified by the first 32 bits of the SHA-256 of their canonical text)",
           "hand-written model lean/TeakraModel/{Periph,Mmio,MmioKinds,Bus}.lean of src/mmio.cpp, src/memory_interface.*, "
           "src/shared_memory.h, src/core_timing.h and the wiring / Reset / host API of src/teakra.cpp (the peripheral "
           "models Timer/Btdmp/Apbp/Icu/Ahbm/Dma are reused unchanged), tied by the `bus` correspondence slice on a real "
           "Teakra::Teakra",
           "harness/u_bus.cpp + generated harness/teakra_impl.gen.h (verbatim copy of `struct Teakra::Impl` / "
           "`struct Processor::Impl`, tools/gen_impl.py) + harness/access.hpp, tools/vlib.py (comparison), g++ 12",
           "the classification tables are read from the model binary (`bus kind <off>`: Cell.kind / Cell.coupledTo / "
           "Cell.emits, the very definitions the theorems are about) and evaluated on the implementation's answers"]
ASSUMPTIONS = ["host handlers (audio, recv x3, semaphore, six AHBM callbacks) are installed and are pure logging callbacks; "
               "the AHBM external memory is a pure function of the address overlaid by writes",
               "one call at a time: mutexes / cross-thread interleavings are not modelled (C19)",
               "the ICU vector arrays are uninitialised after construction: harness and model write all 32 vector cells "
               "after `new` (C17 owns that defect)",
               "Dma::ActivateChannel stores any u16 and the window accessors index channels[] with it: with a value >= 8 "
               "harness and model answer `oob` without touching the window (C18 owns that defect)",
               "DMA start on a channel with dword_mode != 0 and size0 = 0xFFFF does not return (finding D9 of C13): both "
               "sides answer `hang` without starting; transfers above 2^16 ticks are answered `toolong`",
               "a write whose ASSERT fails (timer CFG with CM >= 4 and RES; data access with z_page >= 2) leaves a "
               "half-updated object: answers are ignored until the next `new`",
               "model constants busTimerSkipFixed / busApbpMaskFixed = true select the repaired Timer::Skip / "
               "Apbp::MaskSemaphore of the tree under test"]

FIFO = (0xC2, 0xC6, 0xCA)


def regenerate():
    sys.path.insert(0, os.path.join(vlib.ROOT, "tools"))
    import gen_impl
    import translate_mmio
    st = gen_impl.generate()
    st.pop("include_dir", None)
    st.update(translate_mmio.generate())
    return st


def binding_rows(path):
    """{offset: text of the row} of a translated binding table."""
    import re
    rows = {}
    cur = None
    for line in open(path):
        m = re.match(r"^  \(0x([0-9A-F]{3}), ", line)
        if line.startswith("/--") or line.startswith("def mmioDups"):
            cur = None
        if m:
            cur = int(m.group(1), 16)
            rows[cur] = ""
        if cur is not None:
            rows[cur] += line
    return rows


def golden_check():
    """`bind_eq_golden`: the regenerated binding table against the committed translation of the pinned tree."""
    ok, log = vlib.lean_build([GOLDEN_MODULE])
    info = {"theorem": "Teakra.bind_eq_golden", "holds": ok}
    if ok:
        return info, None
    g = binding_rows(os.path.join(vlib.LEAN, "TeakraModel", "Golden", "MmioBind.lean"))
    n = binding_rows(os.path.join(vlib.LEAN, "TeakraModel", "Generated", "MmioBind.lean"))
    diff = sorted(o for o in set(g) | set(n) if g.get(o) != n.get(o))
    info["offsets_differing"] = ["%03x" % o for o in diff]
    desc = ("the cell bindings translated from src/mmio.cpp differ from the bindings the model of the register map was "
            "written against (theorem bind_eq_golden no longer checks) at offset(s) %s: %s"
            % (", ".join("0x%03X" % o for o in diff[:8]),
               " ".join((n.get(diff[0]) or "<no longer bound>").split())[:300] if diff else log[-300:]))
    return info, (desc, {"kind": "proof", "failed": ["Teakra.bind_eq_golden"], "offsets": info["offsets_differing"],
                         "generated": {("%03x" % o): n.get(o) for o in diff[:8]},
                         "golden": {("%03x" % o): g.get(o) for o in diff[:8]}}, False)


_KINDS = None


def kinds():
    """{off: (kind, arg, emits, [coupled offsets])} from the model's own tables."""
    global _KINDS
    if _KINDS is None:
        exe = vlib.model_driver()
        out, crashes = vlib.run_scripts(exe, [["bus kind %x" % o for o in range(0x800)]], shards=1)
        if crashes:
            raise RuntimeError("model driver crashed on `bus kind`")
        t = {}
        for o, line in enumerate(out[0]):
            k, arg, em, cp = line.split()
            t[o] = (k, None if arg == "-" else int(arg, 16), em == "1", [] if cp == "-" else [int(x, 16) for x in cp.split(",")])
        _KINDS = t
    return _KINDS


# ------------------------------------------------------------------ the property on the implementation's answers

def inspect(script, impl):
    """Every `wcheck` answer of the real code against the classification: read-back on the mask, no change of any
    other offset outside the documented couplings, handler calls only from trigger cells."""
    K = kinds()
    bad = []
    tainted = False
    if len(script) > 20 and script[-1] == "bus digest" and all(l.split()[1] in ("new", "mw", "mr", "digest") for l in script):
        bad += window_inspect(script, impl)
    for i, (line, r) in enumerate(zip(script, impl)):
        t = line.split()
        if t[1] == "new":
            tainted = False
        if tainted:
            continue
        if r.split(" ")[0] in vlib.ABORTS:
            tainted = True
            continue
        if t[1] == "mirrorcheck" and r.startswith("DIFF"):
            bad.append(("MMIO mirror views differ on the real code: `%s` -> %s" % (line, r), i))
            continue
        if t[1] != "wcheck" or not r.startswith("ok |"):
            continue
        off, v = int(t[3], 16), int(t[4], 16)
        f = [x.strip() for x in r.split("|")]
        events, rb, chg = f[1], f[2], f[3]
        kind, arg, emits, coupled = K[off]
        if events != "-" and not emits:
            bad.append(("write to non-trigger cell %x called a handler: %s" % (off, events), i))
        if chg != "-":
            for c in chg.split(","):
                o2 = int(c.split(":")[0], 16)
                if o2 not in coupled:
                    bad.append(("write of %x to %x changed the read-back of %x (%s), not a documented coupling" % (v, off, o2, c), i))
                    break
        if rb not in ("-", "oob"):
            x = int(rb, 16)
            # a write to MIU_MMIOBASE / MIU_ZPAGE through the DSP path can move the window away from the read-back
            if kind in ("rw", "rwt") and (x & arg) != (v & arg):
                bad.append(("register %x does not read back what was written: wrote %x, read %x, mask %x" % (off, v, x, arg), i))
            if kind == "const" and x != arg:
                bad.append(("constant cell %x reads %x" % (off, x), i))
    return bad


# ------------------------------------------------------------------ generators

def values(rng, tier):
    vs = [0, 0xFFFF]
    if tier == "quick":
        ones = [1 << rng.below(16) for _ in range(4)]
        zeros = [0xFFFF ^ (1 << rng.below(16)) for _ in range(2)]
        rnd = [rng.bits(16) for _ in range(2)]
    else:
        ones = [1 << k for k in range(16)]
        zeros = [0xFFFF ^ (1 << k) for k in range(16)]
        rnd = [rng.bits(16) for _ in range(6)]
    return vs + ones + zeros + rnd


def aborts(off, v):
    """Writes after which the object is half-updated (failed ASSERT) or gone off the stated domain."""
    if off in (0x20, 0x30) and (v >> 2) & 7 >= 4 and v & 0x400:
        return True
    return False


def exhaustive(rng, tier):
    """All 0x800 offsets x the value set, through both paths, every write between two full read-back sweeps."""
    scripts = []
    for path in (0, 1):
        for off in range(0x800):
            s = ["bus new %s" % rng.choice(["own", "user", "capi"])]
            vs = values(rng, tier)
            if off == 0x1BE:
                vs = [v & 7 for v in vs] + [8, 0xFFFF]
            for v in vs:
                s.append("bus wcheck %x %x %x" % (path, off, v))
                if aborts(off, v):
                    s.append("bus new own")
                if path == 1 and off in (0x112, 0x11E):
                    # put the window back (through the host path) so that the next write goes through the DSP path again
                    s.append("bus mw %x %x" % (off, 0 if off == 0x112 else 0x8000))
            s.append("bus mirrorcheck %x" % off if off not in FIFO else "bus digest")
            scripts.append(s)
    return scripts


# documented fields of the bit-field register 0x1DA (dma.md: SRC_SPACE 0-3, DST_SPACE 4-7, DWM 10); its other bits are
# not per-channel in the C++ (one backing word for all channels) and are not documented fields, so they are left out
WINDOW_FIELD_MASK = {0x1DA: 0x04FF}


def window_sweep(rng, tier):
    """The DMA channel window gives each of the eight channels its own copy of every window register: for every
    window offset and every single-bit value, write it on channel A only and read all eight channels before and after
    (`#win` lines are judged on the implementation by `inspect`: channels other than A read what they read before)."""
    scripts = []
    K = kinds()
    for off in range(0x1C0, 0x1DE, 2):
        mask = WINDOW_FIELD_MASK.get(off, K[off][1] if K[off][1] is not None else 0xFFFF)
        bits = range(16) if tier != "quick" else sorted({0, 15, 7, rng.below(16), rng.below(16), 3 + rng.below(5), 8 + rng.below(4)})
        for k in bits:
            a = rng.below(8)
            v = 1 << k
            if not v & mask:
                continue            # not a documented bit of this register (such bits share one backing word)
            s = ["bus new own"]
            # give the other channels distinct, non-zero contents first (so that a shared backing word shows)
            pre = rng.bits(16)
            for c in range(8):
                if c != a and rng.chance(1, 2):
                    s += ["bus mw 1be %x" % c, "bus mw %x %x" % (off, (pre ^ (c * 0x1111)) & ~v & mask)]
            for c in range(8):
                s += ["bus mw 1be %x" % c, "bus mr %x" % off]
            s += ["bus mw 1be %x" % a, "bus mw %x %x" % (off, v)]
            for c in range(8):
                s += ["bus mw 1be %x" % c, "bus mr %x" % off]
            s.append("bus digest")
            scripts.append(s)
    return scripts


def window_inspect(script, impl):
    """Direct evaluation for `window_sweep` scripts: two read sweeps over the eight channels around one write."""
    sel, reads, wrote = None, [], None
    phase = 0
    before, after = {}, {}
    for i, (line, r) in enumerate(zip(script, impl)):
        t = line.split()
        if r.split(" ")[0] in vlib.ABORTS:
            return []
        if t[1] == "mw" and t[2] == "1be":
            sel = int(t[3], 16)
        elif t[1] == "mr" and sel is not None:
            (before if phase == 0 and wrote is None else after)[sel] = r.split(" ")[0]
        elif t[1] == "mw" and len(before) == 8 and wrote is None:
            wrote = (sel, line, i)
    if wrote is None or len(before) != 8 or len(after) != 8:
        return []
    K = kinds()
    off = int(wrote[1].split()[2], 16)
    mask = WINDOW_FIELD_MASK.get(off, K[off][1] if K[off][1] is not None else 0xFFFF)
    for c in range(8):
        if c != wrote[0] and int(before[c], 16) & mask != int(after[c], 16) & mask:
            return [("DMA channel window: `%s` on channel %d changed what channel %d reads at the same offset (%s -> %s): "
                     "the channels do not have independent copies" % (wrote[1], wrote[0], c, before[c], after[c]), len(script) - 1)]
    return []


CFG_OFFS = [0x20, 0x30]
INTERESTING = ([0x1A, 0x20, 0x22, 0x24, 0x26, 0x28, 0x2A, 0x2C, 0x30, 0x32, 0x34, 0x36, 0x38, 0x3A] +
               list(range(0xC0, 0xDA, 2)) + list(range(0xE0, 0xF4, 2)) +
               [0x10E, 0x110, 0x114, 0x116, 0x11A, 0x184, 0x18C, 0x1BE] + list(range(0x1C0, 0x1E0, 2)) +
               [0x200, 0x202, 0x204, 0x206, 0x208, 0x20A, 0x20C] + list(range(0x212, 0x252, 2)) +
               [0x2A2, 0x2BE, 0x2C2, 0x2C6, 0x2CA, 0x322, 0x33E, 0x342, 0x346, 0x34A])


def pick_off(rng):
    m = rng.below(10)
    if m < 7:
        return rng.choice(INTERESTING)
    if m < 9:
        return rng.below(0x800)
    return rng.choice(INTERESTING) ^ 1


def pick_val(rng, off):
    if off in CFG_OFFS:
        v = rng.bits(16)
        if not rng.chance(1, 16):
            v &= ~0x10          # CM < 4
        return v
    if off == 0x1BE:
        return rng.below(8) if not rng.chance(1, 40) else rng.choice([8, 0xFFFF, 0x100])
    if off == 0x1DA:
        return rng.choice([0, 7]) | (rng.choice([0, 7, 8, 0xF]) << 4) | (rng.below(2) << 10) | (rng.bits(16) & 0xFB00 if rng.chance(1, 4) else 0)
    if off in (0x1C8, 0x1CA, 0x1CC):
        return rng.below(5) if not rng.chance(1, 20) else rng.choice([0xFFFF, 0x100])
    if off in (0x1C2, 0x1C6):
        return rng.below(2) if not rng.chance(1, 10) else rng.bits(16)
    if off == 0x1DE:
        return 0x40C0 if rng.chance(1, 2) else rng.bits(16)
    if off in (0x2BE, 0x33E):
        return rng.below(2)
    if off in (0x204, 0x202, 0x206, 0x208, 0x20A, 0x20C):
        return rng.choice([0, 1 << rng.below(16), 0xFFFF, 0x4E00 if True else 0, rng.bits(16)])
    return rng.biased(16)


def history(rng, n):
    s = ["bus new %s%s" % (rng.choice(["own", "user", "capi"]), "" if rng.chance(1, 2) else " %x" % rng.below(1 << 20))]
    base = 0x8000
    for _ in range(n):
        m = rng.below(100)
        if m < 30:
            off = pick_off(rng)
            v = pick_val(rng, off)
            mirror = rng.below(32) * 0x800
            s.append("bus mw %x %x" % ((off + mirror) & 0xFFFF, v))
            if aborts(off, v):
                break
        elif m < 40:
            off = pick_off(rng)
            if off in (0x112, 0x11E) or base + off > 0xFFFF:
                continue
            v = pick_val(rng, off)
            s.append("bus dw %x %x 0" % (base + off, v))
            if aborts(off, v):
                break
        elif m < 50:
            s.append("bus mr %x" % ((pick_off(rng) + rng.below(32) * 0x800) & 0xFFFF))
        elif m < 55:
            off = pick_off(rng)
            if base + off <= 0xFFFF:
                s.append("bus dr %x 0" % (base + off))
        elif m < 62:
            off = pick_off(rng)
            v = pick_val(rng, off)
            if off in (0x112,):
                continue
            s.append("bus wcheck %x %x %x" % (rng.below(2), off, v))
            if off == 0x11E:
                s.append("bus mw 11e %x" % base)
            if aborts(off, v):
                break
        elif m < 66:
            off = pick_off(rng)
            if off not in FIFO:
                s.append("bus mirrorcheck %x" % off)
        elif m < 70:
            s.append("bus digest")
        elif m < 73:
            base = rng.choice([0x8000, 0, 0xF800, 0xFC00, 0x1234, 0x8000, rng.bits(16)])
            s.append("bus mw 11e %x" % base)
        elif m < 76:
            s.append("bus send %x %x" % (rng.below(3), rng.bits(16)))
        elif m < 78:
            s.append("bus recv %x" % rng.below(3))
        elif m < 80:
            s.append("bus " + rng.choice(["peek", "ready", "empty"]) + " %x" % rng.below(3))
        elif m < 83:
            s.append("bus " + rng.choice(["semset", "semclr", "semmask"]) + " %x" % rng.biased(16))
        elif m < 84:
            s.append("bus semget")
        elif m < 86:
            s.append("bus " + rng.choice(["srchi", "dsthi"]))
        elif m < 88:
            s.append("bus latch")
        elif m < 91:
            s.append("bus rst")
            base = 0x8000
        elif m < 93:
            s.append("bus tstate")
        elif m < 96:
            s.append("bus " + rng.choice(["hw16", "hw32"]) + " %x %x" % (rng.biased(32), rng.bits(32)))
        elif m < 98:
            s.append("bus " + rng.choice(["hr16", "hr32"]) + " %x" % rng.biased(32))
        else:
            s.append("bus " + rng.choice(["ausz", "adir", "adma"]) + " %x" % rng.below(3))
    s.append("bus digest")
    return s


def timing(rng, n):
    """Timers / audio port configured through MMIO, then CoreTiming::Tick / Skip."""
    s = ["bus new own"]
    for i in range(2):
        cm = rng.below(4)
        cfg = cm << 2 | rng.below(2) << 8 | rng.below(2) << 9 | 0x400 | (rng.bits(16) & 0xF8C0 if rng.chance(1, 3) else 0)
        if rng.chance(1, 20):
            cfg |= rng.below(4)      # scale != 0: Tick asserts
        s.append("bus mw %x %x" % (0x24 + 0x10 * i, rng.choice([0, 1, 2, 3, 5, 9, 0x40, rng.bits(16)])))
        s.append("bus mw %x %x" % (0x26 + 0x10 * i, rng.choice([0, 0, 0, 1])))
        s.append("bus mw %x %x" % (0x20 + 0x10 * i, cfg))
    s.append("bus mw 206 %x" % rng.choice([0, 0x0600, 0xFFFF]))
    s.append("bus mw 208 %x" % rng.choice([0, 0x0A00, 0xFFFF]))
    s.append("bus mw 20c %x" % rng.choice([0, 0x0E00]))
    s.append("bus mw %x %x" % (0x212 + 4 * 0xB, rng.choice([0, 0x8001, 3])))
    s.append("bus mw %x %x" % (0x214 + 4 * 0xB, rng.bits(16)))
    for i in range(2):
        if rng.chance(2, 3):
            s.append("bus btperiod %x %x" % (i, rng.choice([1, 2, 3, 5, 16, 4096])))
            s.append("bus mw %x 1" % (0x2BE + 0x80 * i))
            for _ in range(rng.below(18)):
                s.append("bus mw %x %x" % (0x2C6 + 0x80 * i, rng.bits(16)))
    for _ in range(n):
        m = rng.below(20)
        if m < 6:
            s.append("bus tick")
        elif m < 10:
            s.append("bus ticks %x" % rng.choice([2, 3, 7, 16, 33, 100]))
        elif m < 14:
            s.append("bus skip %x" % rng.choice([0, 1, 5, 100, 2000, rng.below(50)]))
        elif m < 15:
            s.append("bus mw %x 1" % rng.choice([0x22, 0x32]))
        elif m < 16:
            s.append("bus mw %x %x" % (rng.choice([0x2C6, 0x346]), rng.bits(16)))
        elif m < 17:
            s.append("bus mw 202 ffff")
        elif m < 18:
            s.append("bus latch")
        elif m < 19:
            s.append("bus tstate")
        else:
            s.append("bus mr 200")
    s += ["bus tstate", "bus digest", "bus latch"]
    return s


def timing_slice(rng, n, prop):
    """Timers and audio ports programmed through their MMIO registers on a real Teakra::Teakra (restart together with a
    mode / mirror / pause change in ONE control-word write, clock and enable words, FIFO writes), then
    CoreTiming::Tick / Skip: compared with the model line by line.  Used by C15 and C16 so that the register
    bindings of their units (mmio.cpp) and the facade wiring are inside their own checks."""
    regenerate()
    scripts = [timing(rng, 5 + rng.below(30)) for _ in range(n)]
    pair = vlib.Pair("plain")
    bad, a, b, crashes = pair.diff(scripts)
    out = []
    for (i, k, ia, mb) in bad[:2]:
        small = pair.shrink(scripts[i][:k + 1])
        ra, rb, _, _ = pair.run([small], shards=1)
        out.append(("through the MMIO registers of a real Teakra the unit behaves differently from the model the theorems are "
                    "about: `%s` answers %r, the model says %r" % (small[-1], ra[0][-1][:100] if ra[0] else None, rb[0][-1][:100] if rb[0] else None),
                    {"kind": "correspondence", "script": small, "impl": ra[0], "model": rb[0], "correspondence": prop + "/bus"}, True))
    return out, {"facade_scripts": len(scripts), "facade_disagreements": len(bad)}


def signature(script, impl):
    out = []
    for line, r in zip(script, impl):
        t = line.split()
        op = t[1]
        if op == "wcheck" and r.startswith("ok |"):
            f = [x.strip() for x in r.split("|")]
            chg = tuple(sorted(c.split(":")[0] for c in f[3].split(","))) if f[3] != "-" else ()
            out.append(("wcheck", t[2], t[3], f[1] != "-", chg))
        elif op in ("mw", "mr", "dw", "dr"):
            out.append((op, "%x" % (int(t[2], 16) & 0x7FF), r.split("|")[1].strip()[:1] if "|" in r else r))
        else:
            out.append((op, r.split(" ")[0] if r.split(" ")[0] in vlib.ABORTS else "", "|" in r and r.split("|")[1].strip() != "-"))
    return out


def judge(pair, script, impl, model):
    hits = inspect(script, impl)
    if hits:
        return True, "(the real code violates the property: %s)" % hits[0][0]
    return False, "(model and implementation differ; no property violation exhibited on the real code)"


def explore(rng, tier, replay=None):
    kinds()
    scripts = exhaustive(rng, tier) + window_sweep(rng, tier)
    nh = 600 if tier == "quick" else 12000
    for _ in range(nh):
        scripts.append(history(rng, 10 + rng.below(60)))
    for _ in range(nh // 3):
        scripts.append(timing(rng, 5 + rng.below(30)))
    K = kinds()
    nrw = sum(1 for o in K if K[o][0] in ("rw", "rwt"))
    ginfo, gviol = golden_check()
    ctx = corr.explore(PROP, scripts, judge=judge, signature=signature, inspect=inspect,
                        rule="exhaustive: every offset 0..0x7FF x {0, 0xFFFF, walking ones, walking zeros, random words} through the "
                             "host path (MMIOWrite at one of the 32 mirrors) and through the DSP path (DataWrite at mmio_base + "
                             "offset), each write between two read-back sweeps of all 2045 side-effect-free cells on a real "
                             "Teakra::Teakra (`wcheck`), judged on the implementation's own answers against the model's "
                             "classification tables (read-back on the mask for %d read/write cells, changed cells within the "
                             "documented couplings, handler calls only from trigger cells) and compared with the model line by line; "
                             "`mirrorcheck` compares the 32 host mirrors and the DSP view of a cell on the real code; plus random "
                             "histories (MMIO both paths, window relocation, host API, Reset, AHBM, DMA start) and timing scripts "
                             "(timers / audio port programmed through MMIO, CoreTiming::Tick / Skip, interrupt latches of the "
                             "interpreter). quick tier: 10 values per cell instead of 40" % nrw,
                        extra={"exhaustive_part": "all 0x800 offsets, both paths" + ("" if tier != "quick" else " (reduced value set)"),
                               "golden_agreement": ginfo})
    if gviol:
        ctx["violations"].append(gviol)
    return ctx


def replay(rep):
    regenerate()
    return corr.replay(rep)
