"""C01 — instruction effects match the reference semantics (instruction-level correspondence)."""
import json
import os
import sys
import corr
import vlib
sys.path.insert(0, os.path.join(vlib.ROOT, "tools"))
import gen_dispatch
import decode_sigs

PROP = "C01"
MODULE = "Proofs.C01"
THEOREMS = ["Teakra.instrTable_agrees", "Teakra.instrTable_length", "Teakra.matchesWord_eq"]
TRUSTED = ["hand-written model lean/TeakraModel/{Interp,Run,Exec/*}.lean of src/interpreter.h, tied by the `interp` correspondence slice",
           "tools/gen_dispatch.py (decode table -> dispatcher), harness/u_interp.cpp"]
ASSUMPTIONS = []


def regenerate():
    r = gen_dispatch.main(vlib.REPO, vlib.LEAN)
    return {"patterns": r["patterns"], "handlers": r["handlers"], "modelled": r["modelled"],
            "unmodelled": r["missing"]}


def decode_table():
    pats = decode_sigs.parse(vlib.REPO)
    tab = []
    for p in pats:
        mask = 0xFFFF
        for o in p["operands"]:
            if o["kind"] in ("At", "AtNamed") and o["pos"] != 16:
                mask &= ~(((1 << gen_dispatch.BITS[o["ty"]]) - 1) << o["pos"])
            elif o["kind"] == "Unused":
                mask &= ~(1 << o["pos"])
        rej = [((((1 << gen_dispatch.BITS[t]) - 1) << pos), v << pos) for t, pos, v in p["rejectors"]]
        tab.append((gen_dispatch.key(p), p["expected"], mask & 0xFFFF, rej,
                    any(o.get("pos") == 16 for o in p["operands"])))
    return tab


def opcode_keys():
    tab = decode_table()
    out = [None] * 65536
    for w in range(65536):
        for k, e, m, rej, x in tab:
            if (w & m) == e and all((w & rm) != ru for rm, ru in rej):
                out[w] = (k, x)
                break
    return out


def variant(rng, j, expanded):
    """Interpreter states the seeded generator keeps fixed: an active single-instruction repeat, an
    active block repeat whose end is at / next to the instruction, enabled interrupts with pending bits.
    Variant 0 is the plain seeded state; others are chosen at random."""
    if j == 0 or rng.chance(1, 2):
        return []
    m = rng.below(4)
    if m == 0:      # inside a `rep`
        return ["interp poke rep 1", "interp poke repc %x" % rng.choice([0, 0, 1, 2, 0xFFFF])]
    if m == 1:      # inside 1..4 nested block repeats; frame end at the instruction, its second word, or elsewhere
        pc = rng.choice([0x100, 0x3FF0, 0x10000 + rng.below(0x1000), 0x2FFFE])
        k = 1 + rng.below(4)
        end = pc + rng.choice([0, 0, 1, 1, 2, 0x55])
        return ["interp poke pc %x" % pc, "interp poke lp 1", "interp poke bcn %x" % k,
                "interp poke bk_end%d %x" % (k - 1, end), "interp poke bk_lc%d %x" % (k - 1, rng.choice([0, 0, 1, 7])),
                "interp poke bk_start%d %x" % (k - 1, rng.choice([pc, 0x200, 0x3FFFF]))]
    if m == 2:      # interrupts enabled, some line pending and unmasked
        i = rng.below(3)
        return ["interp poke ie 1", "interp poke im%d 1" % i, "interp poke ip%d %x" % (i, rng.below(2)),
                "interp poke ipv %x" % rng.below(2), "interp poke imv %x" % rng.below(2)]
    # rep and interrupts together (interrupts are held off during a repeat)
    return ["interp poke rep 1", "interp poke repc %x" % rng.below(3), "interp poke ie 1", "interp poke im0 1",
            "interp poke ip0 1"]


def boundary_pokes(rng):
    from checks import alu_common
    vals = {f: alu_common.acc(rng) for f in ("a0", "a1", "b0", "b1")}
    if rng.chance(1, 3):
        # equal operands: comparisons, min/max and subtractions decide at a0 == a1 (2^-40 under independent draws)
        k = rng.below(4)
        if k == 0:
            vals["a1"] = vals["a0"]
        elif k == 1:
            vals["b0"] = vals["a0"]; vals["b1"] = vals["a1"]
        elif k == 2:
            vals["a1"] = vals["a0"]; vals["b0"] = vals["a0"]; vals["b1"] = vals["a0"]
        else:
            vals["a1"] = (vals["a0"] + rng.choice([1, -1])) & 0xFFFFFFFFFFFFFFFF
    pokes = ["interp poke %s %x" % (f, vals[f]) for f in ("a0", "a1", "b0", "b1")]
    if rng.chance(1, 2):
        # same-sign products of graded size, no product shift: base +/- p0 -/+ p1 overflows twice
        sign = rng.below(2)
        mags = sorted(rng.choice([1, 0x8000, 0x10000000, 0x20000000, 0x3FFFFFFF, 0x7FFFFFFF, rng.bits(31)]) for _ in range(2))
        for f, m in zip(("p0", "p1"), mags if rng.chance(3, 4) else mags[::-1]):
            pokes.append("interp poke %s %x" % (f, (-m if sign else m) & 0xFFFFFFFF))
        pokes += ["interp poke pe0 %x" % sign, "interp poke pe1 %x" % sign, "interp poke ps0 0", "interp poke ps1 0"]
    else:
        pokes += ["interp poke %s %x" % (f, rng.biased(32)) for f in ("p0", "p1") if rng.chance(1, 2)]
    pokes += ["interp poke %s %x" % (f, rng.biased(16)) for f in ("x0", "y0", "x1", "y1", "sv") if rng.chance(1, 2)]
    pokes += ["interp poke sata %x" % rng.below(2), "interp poke sat %x" % rng.below(2)]
    return pokes


def explore(rng, tier, replay=None):
    only = os.environ.get("VERIF_ONLY")
    nstates = int(os.environ.get("VERIF_STATES", "3" if tier == "quick" else "32"))
    info = gen_dispatch.main(vlib.REPO, vlib.LEAN)
    missing = set(info["missing"])
    keys = opcode_keys()
    scripts = []
    for w in range(65536):
        if keys[w] is None:
            continue
        k, x = keys[w]
        if k in missing:
            continue
        if only and not any(k.startswith(o) for o in only.split(",")):
            continue
        for j in range(nstates):
            seed = rng.bits(40)
            e = rng.biased(16)
            scripts.append(["interp gen %x" % seed] + variant(rng, j, x) + ["interp step %x %x" % (w, e)])
        # one more state per opcode with the accumulators, products and factors at arithmetic boundary values
        # (correlated: the products share a sign and the accumulators sit next to the 40-bit limits, so that
        # intermediate sums overflow in both directions)
        scripts.append(["interp gen %x" % rng.bits(40)] + boundary_pokes(rng) + ["interp step %x %x" % (w, rng.biased(16))])

    def signature(script, impl):
        if len(script) < 2 or len(script[-1].split()) < 3:
            return []
        w = int(script[-1].split()[2], 16)
        var = script[1].split()[2] if len(script) > 2 else "plain"
        return [(keys[w][0], var, impl[-1].split(" ")[0] if impl else "?")]

    def judge(pair, script, impl, model):
        # verbose re-run to name the differing fields
        if len(script) < 2:
            return True, "(disagreement on a state-setting line)"
        s2 = script[:-1] + [script[-1].replace("interp step", "interp stepv")]
        a, b, _, _ = pair.run([s2], shards=1)
        why = field_diff(a[0][-1], b[0][-1])
        return True, "(the implementation's result differs from the reference model: %s)" % why

    ctx = corr.explore(PROP, scripts, judge=judge, signature=signature, model_first=True,
                       rule="every first word whose handler is modelled x N seeded register/memory states x "
                            "boundary-biased second word; one Interpreter::Run(1) on the real Teakra facade vs "
                            "Teakra.cycle; distinct = (handler key, outcome class)",
                       extra={"unmodelled": sorted(missing), "modelled_handlers": info["modelled"],
                              "handlers": info["handlers"]})
    # generator clause: every record the project's own generator emits, executed as the verifier sets it up
    try:
        g = generator_clause(tier)
        ctx["generator_clause"] = g["stats"]
        ctx["evaluations"] = ctx.get("evaluations", 0) + g["stats"].get("records", 0)
        ctx["violations"] = ctx.get("violations", []) + g["violations"]
    except Exception as ex:
        ctx["violations"] = ctx.get("violations", []) + [("generator clause could not be evaluated: %s" % ex,
                                                          {"kind": "error", "error": str(ex)}, False)]
    return ctx


def generator_clause(tier):
    """Run Teakra::Test::GenerateTestCasesToFile (real generator, real RNG) and execute every record on the
    bare interpreter exactly as test_verifier does: no assertion abort, pc == length, data accesses only inside
    the two compared windows.  Evaluated on the implementation itself (harness unit `gentest`)."""
    import subprocess
    exe = vlib.harness_build("plain")
    os.makedirs(os.path.join(vlib.BUILD, "gen"), exist_ok=True)
    runs = 1 if tier == "quick" else 4
    tot = {}
    violations = []
    for k in range(runs):
        path = os.path.join(vlib.BUILD, "gen", "tests_%d_%d.bin" % (os.getpid(), k))
        p = subprocess.run([exe], input="gentest run %s ffffffff\n" % path, stdout=subprocess.PIPE,
                           stderr=subprocess.PIPE, text=True, timeout=3600)
        line = p.stdout.strip().split("\n")[-1] if p.stdout.strip() else ""
        t = line.split()
        if p.returncode != 0 or len(t) < 18 or t[0] != "records":
            violations.append(("generator run died or gave no result: rc=%d %s %s" % (p.returncode, line[:200], p.stderr[-300:]),
                               {"kind": "crash", "script": ["gentest run <path> ffffffff"], "stderr": p.stderr[-2000:]}, True))
            continue
        st = {t[i]: int(t[i + 1], 16) for i in range(0, 16, 2)}
        for kk, v in st.items():
            tot[kk] = tot.get(kk, 0) + v
        first = " ".join(t[17:])
        if st["assert"] or st["badpc"] or st["outside"] or st["oob"]:
            violations.append(("a test vector emitted by the project's own generator violates the generator clause "
                               "(assert=%d wrong-pc=%d outside-window=%d out-of-bounds=%d of %d records); first: %s"
                               % (st["assert"], st["badpc"], st["outside"], st["oob"], st["records"], first),
                               {"kind": "generator", "first": first, "stats": st,
                                "script": ["gentest run <path> ffffffff"]}, True))
    tot["generator_runs"] = runs
    tot["rng"] = "std::random_device inside test_generator.cpp (not controlled by VERIF_SEED)"
    return {"stats": tot, "violations": violations}


def fetch_slice(rng, tier):
    """Fetch-loop slice used by C02: every two-word opcode (and a sample of one-word ones) from a plain
    state, inside a `rep` (count 0 and > 0) and at / next to the end of a block repeat; harness and model
    are compared on all registers (pc!) and on the ordered list of program words fetched."""
    info = gen_dispatch.main(vlib.REPO, vlib.LEAN)
    missing = set(info["missing"])
    keys = opcode_keys()
    scripts = []
    for w in range(65536):
        if keys[w] is None:
            continue
        k, x = keys[w]
        if k in missing:
            continue
        if not x and rng.below(16 if tier == "quick" else 2):
            continue
        e = rng.biased(16)
        pc = rng.choice([0x100, 0x3FF0, 0x12345, 0x2FFFE])
        var = [[], ["interp poke rep 1", "interp poke repc 0"], ["interp poke rep 1", "interp poke repc 2"],
               ["interp poke pc %x" % pc, "interp poke lp 1", "interp poke bcn 1", "interp poke bk_end0 %x" % pc,
                "interp poke bk_lc0 1", "interp poke bk_start0 200"],
               ["interp poke pc %x" % pc, "interp poke lp 1", "interp poke bcn 1", "interp poke bk_end0 %x" % (pc + 1),
                "interp poke bk_lc0 0", "interp poke bk_start0 200"]]
        for v in (var if x else [rng.choice(var)]):
            scripts.append(["interp gen %x" % rng.bits(40)] + v + ["interp step %x %x" % (w, e)])
    pair = vlib.Pair("plain")
    bad, a, b, crashes = pair.diff(scripts, model_first=True)
    violations = []
    for (i, kk, ia, mb) in bad[:3]:
        s2 = scripts[i][:-1] + [scripts[i][-1].replace("interp step", "interp stepv")]
        ra, rb, _, _ = pair.run([s2], shards=1)
        why = field_diff(ra[0][-1], rb[0][-1])
        violations.append(("fetch loop: interpreter and reference model disagree after `%s` (%s): %s"
                           % (scripts[i][-1], " ; ".join(scripts[i][1:-1]) or "plain state", why),
                           {"kind": "correspondence", "script": scripts[i], "impl": a[i], "model": b[i],
                            "correspondence": "C02/fetch"}, True))
    return violations, {"fetch_cases": len(scripts), "fetch_disagreements": len(bad),
                        "fetch_skipped_by_model": getattr(pair, "skipped", 0)}


def field_diff(a, b):
    import gen_flat
    names = [n for n, *_ in gen_flat.flat()]
    ta, tb = a.split(), b.split()
    if not ta or not tb or ta[0] != "ok" or tb[0] != "ok":
        return "impl=%s model=%s" % (a[:60], b[:60])
    out = []
    for i, n in enumerate(names):
        if ta[1 + i] != tb[1 + i]:
            out.append("%s impl=%s model=%s" % (n, ta[1 + i], tb[1 + i]))
    la = a.split("|", 1)[1] if "|" in a else ""
    lb = b.split("|", 1)[1] if "|" in b else ""
    if la != lb:
        out.append("access log impl=[%s] model=[%s]" % (la.strip()[:120], lb.strip()[:120]))
    return "; ".join(out[:8])


def replay(rep):
    return corr.replay(rep)
