"""C01 — instruction effects match the reference semantics (instruction-level correspondence)."""
import json
import os
import sys
import corr
import vlib
sys.path.insert(0, os.path.join(vlib.ROOT, "tools"))
import gen_dispatch
import decode_sigs

PROP = "C01"
MODULE = "Proofs.C01"
THEOREMS = []
TRUSTED = ["hand-written model lean/TeakraModel/{Interp,Run,Exec/*}.lean of src/interpreter.h, tied by the `interp` correspondence slice",
           "tools/gen_dispatch.py (decode table -> dispatcher), harness/u_interp.cpp"]
ASSUMPTIONS = []


def regenerate():
    r = gen_dispatch.main(vlib.REPO, vlib.LEAN)
    return {"patterns": r["patterns"], "handlers": r["handlers"], "modelled": r["modelled"],
            "unmodelled": r["missing"]}


def decode_table():
    pats = decode_sigs.parse(vlib.REPO)
    tab = []
    for p in pats:
        mask = 0xFFFF
        for o in p["operands"]:
            if o["kind"] in ("At", "AtNamed") and o["pos"] != 16:
                mask &= ~(((1 << gen_dispatch.BITS[o["ty"]]) - 1) << o["pos"])
            elif o["kind"] == "Unused":
                mask &= ~(1 << o["pos"])
        rej = [((((1 << gen_dispatch.BITS[t]) - 1) << pos), v << pos) for t, pos, v in p["rejectors"]]
        tab.append((gen_dispatch.key(p), p["expected"], mask & 0xFFFF, rej,
                    any(o.get("pos") == 16 for o in p["operands"])))
    return tab


def opcode_keys():
    tab = decode_table()
    out = [None] * 65536
    for w in range(65536):
        for k, e, m, rej, x in tab:
            if (w & m) == e and all((w & rm) != ru for rm, ru in rej):
                out[w] = (k, x)
                break
    return out


def explore(rng, tier, replay=None):
    only = os.environ.get("VERIF_ONLY")
    nstates = int(os.environ.get("VERIF_STATES", "2" if tier == "quick" else "32"))
    info = gen_dispatch.main(vlib.REPO, vlib.LEAN)
    missing = set(info["missing"])
    keys = opcode_keys()
    scripts = []
    for w in range(65536):
        if keys[w] is None:
            continue
        k, x = keys[w]
        if k in missing:
            continue
        if only and not any(k.startswith(o) for o in only.split(",")):
            continue
        for _ in range(nstates):
            seed = rng.bits(40)
            e = rng.biased(16)
            scripts.append(["interp gen %x" % seed, "interp step %x %x" % (w, e)])

    def signature(script, impl):
        w = int(script[1].split()[2], 16)
        return [(keys[w][0], impl[1].split(" ")[0] if len(impl) > 1 else "?")]

    def judge(pair, script, impl, model):
        # verbose re-run to name the differing fields
        s2 = [script[0], script[1].replace("interp step", "interp stepv")]
        a, b, _, _ = pair.run([s2], shards=1)
        why = field_diff(a[0][-1], b[0][-1])
        return True, "(the implementation's result differs from the reference model: %s)" % why

    ctx = corr.explore(PROP, scripts, judge=judge, signature=signature, model_first=True,
                       rule="every first word whose handler is modelled x N seeded register/memory states x "
                            "boundary-biased second word; one Interpreter::Run(1) on the real Teakra facade vs "
                            "Teakra.cycle; distinct = (handler key, outcome class)",
                       extra={"unmodelled": sorted(missing), "modelled_handlers": info["modelled"],
                              "handlers": info["handlers"]})
    return ctx


def field_diff(a, b):
    import gen_flat
    names = [n for n, *_ in gen_flat.flat()]
    ta, tb = a.split(), b.split()
    if not ta or not tb or ta[0] != "ok" or tb[0] != "ok":
        return "impl=%s model=%s" % (a[:60], b[:60])
    out = []
    for i, n in enumerate(names):
        if ta[1 + i] != tb[1 + i]:
            out.append("%s impl=%s model=%s" % (n, ta[1 + i], tb[1 + i]))
    la = a.split("|", 1)[1] if "|" in a else ""
    lb = b.split("|", 1)[1] if "|" in b else ""
    if la != lb:
        out.append("access log impl=[%s] model=[%s]" % (la.strip()[:120], lb.strip()[:120]))
    return "; ".join(out[:8])


def replay(rep):
    return corr.replay(rep)
