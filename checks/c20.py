"""C20 — status/config words are faithful bit-field views of one register state.

Translator-based: `regenerate()` rewrites lean/TeakraModel/Generated/RegLayout.lean from the tree under
test (register.h layouts, shadow lists, RegisterState members; test_generator.cpp decoding
expressions); the theorems of Proofs/C20.lean are re-checked over that table and Proofs/C20Golden.lean
compares it with the committed snapshot.  The correspondence run drives the real
`RegisterState::Get/Set<word>` and `Teakra::Disassembler::GetTokenList` against the model running on
the *snapshot* table, exhaustively over the written value.
"""
import json
import os
import sys
import time

import corr
import vlib

sys.path.insert(0, os.path.join(vlib.ROOT, "tools"))
import translate_regs  # noqa: E402

PROP = "C20"
MODULE = "Proofs.C20Golden"          # imports Proofs.C20
NS = "Teakra.Regs."
MAIN_THEOREMS = [NS + t for t in [
    "layouts_ok_all", "layouts_names", "fieldTable_covers_state",
    "slots_disjoint", "get_set", "set_preserves_WF", "get_field", "set_field", "compat_same_field",
    "get_double", "set_double", "st0_limit", "st0_limit_stt0", "st0_limit_set",
    "set_frame", "set_frame_acc", "ro_unchanged", "ro_unchanged_literal_false",
    "lp_write_one_to_clear", "accE_roundtrip", "accE_write_back_changes_acc",
    "get_set_fails_without_WF",
    "ar_decoders_agree", "arp_decoders_agree", "ar_decoders_agree_read",
    "gen_matches_source", "gen_mod2_agrees"]]
GOLDEN_THEOREMS = [NS + t for t in ["layouts_eq_golden", "shadow_lists_eq_golden", "writable_golden"]]
THEOREMS = MAIN_THEOREMS + GOLDEN_THEOREMS
TRUSTED = [
    "tools/translate_regs.py (parser of register.h / test_generator.cpp; fails on unrecognised syntax; its output is "
    "compared with the committed snapshot by theorem layouts_eq_golden)",
    "hand-written semantics of the seven proxy templates and of PseudoRegister::Get/Set in lean/TeakraModel/RegFile.lean, "
    "and of DsmAr*/ConvertArStepAndOffset in lean/TeakraModel/ArDecode.lean, tied by the `regs` correspondence slice "
    "(exhaustive over the written value)",
    "member widths in `fieldTable` taken from the comments of register.h",
    "harness/u_regs.cpp, tools/vlib.py (comparison), g++ 12"]
ASSUMPTIONS = [
    "read-side theorems (get_set, compat_same_field, st0_limit, ro bits) assume WF: every member within its commented "
    "hardware width and accumulators sign-extended from bit 39 (PseudoRegister::Get does not mask members; "
    "theorem get_set_fails_without_WF); write-side theorems need only a register file of the right size",
    "ro_unchanged excludes bcn when the same write sets the LPRedirector bit (write-one-to-clear clears lp and bcn; "
    "theorem ro_unchanged_literal_false gives the concrete input)",
    "members not reachable from any proxy (pc, rep, bkrep_stack, b[], a1s, b1s, p[], shadow copies) are unchanged by "
    "construction of the proxies (pointer-to-u16-member); the dump covers all but the private shadow copies"]

WORDS = ["cfgi", "cfgj", "stt0", "stt1", "stt2", "mod0", "mod1", "mod2", "mod3", "st0", "st1", "st2", "icr",
         "ar0", "ar1", "arp0", "arp1", "arp2", "arp3"]
_state = {}


def regenerate():
    info = translate_regs.run(vlib.REPO)
    _state["translated"] = info
    return info


def table():
    p = os.path.join(vlib.ROOT, ".build", "gen", "reg_layout.json")
    return json.load(open(p)) if os.path.exists(p) else None


def masks(tab):
    """word -> (writable mask, set of member names `Set` may assign) from the regenerated table."""
    out = {}
    for name, slots in tab["layouts"]:
        wm, assigns = 0, set()
        for sl in slots:
            m = ((1 << sl["len"]) - 1) << sl["pos"]
            if sl["kind"] in ("rw", "double", "accE"):
                wm |= m
            if sl["kind"] == "rw":
                assigns.add("%s[%d]" % (sl["field"], sl["index"]))
            elif sl["kind"] == "double":
                assigns |= {sl["field"] + "[0]", sl["field2"] + "[0]"}
            elif sl["kind"] == "lp":
                assigns |= {"lp[0]", "bcn[0]"}
            elif sl["kind"] == "accE":
                assigns.add("a[%d]" % sl["index"])
        out[name] = (wm & 0xFFFF, assigns)
    return out


def biased16(rng):
    return rng.biased(16)


def gen_random_script(rng, msk):
    s = ["regs %s %x" % ("setraw" if rng.chance(1, 4) else "set", rng.bits(48))]
    for _ in range(4 + rng.below(20)):
        m = rng.below(12)
        w = rng.choice(WORDS)
        if m < 5:
            s.append("regs put %s %x" % (w, biased16(rng)))
        elif m < 8:
            s.append("regs get %s" % w)
        elif m < 9:
            s.append("regs dump")
        elif m < 10 and s[0].split()[1] == "set":
            s.append("regs check %s %x %x" % (w, biased16(rng), msk.get(w, (0xFFFF, set()))[0]))
        elif m < 11:
            s.append("regs dsmar %x %x %x %x" % (rng.below(4), rng.below(4), biased16(rng), biased16(rng)))
        else:
            s.append("regs dsmarp %x %x %x %x %x %x %x" % (rng.below(4), rng.below(4), rng.below(4), biased16(rng),
                                                          biased16(rng), biased16(rng), biased16(rng)))
    return s


def sweep_scripts(bases, chunk):
    out = []
    for setline in bases:
        for w in WORDS:
            for lo in range(0, 0x10000, chunk):
                out.append([setline, "regs sweep %s %x %x" % (w, lo, lo + chunk)])
    return out


def dsm_scripts(chunk):
    out = []
    for kind, n in (("ar", 2), ("arp", 4)):
        for idx in range(n):
            for lo in range(0, 0x10000, chunk):
                out.append(["regs set 0", "regs dsmsweep %s %x %x %x" % (kind, idx, lo, lo + chunk)])
                out.append(["regs set 0", "regs archeck %s %x %x %x" % (kind, idx, lo, lo + chunk)])
    return out


def _tok_differs(ra, rb, toks):
    """Do the two response lines differ on the given token positions (None = whole line)?"""
    if toks is None:
        return ra != rb
    ta, tb = ra.split(), rb.split()
    for t in toks:
        if (ta[t] if t < len(ta) else None) != (tb[t] if t < len(tb) else None):
            return True
    return False


def _last_differs(pair, script, toks=None):
    a, b, ca, cb = pair.run([script], shards=1)
    ra = a[0][-1] if len(a[0]) == len(script) else "<no-output>"
    rb = b[0][-1] if len(b[0]) == len(script) else "<no-output>"
    return _tok_differs(ra, rb, toks), a[0], b[0]


def bisect(pair, prefix, fmt, lo, hi, toks=None):
    """Narrow a digest disagreement over v in [lo, hi) to a single v (first disagreeing half each time)."""
    while hi - lo > 1:
        mid = (lo + hi) // 2
        bad, _, _ = _last_differs(pair, prefix + [fmt % (lo, mid)], toks)
        if bad:
            hi = mid
        else:
            lo = mid
    return lo


def shrink_keep_first(pair, script, toks=None):
    """Greedy removal of lines 1..n-2 while the last line still disagrees (on the given tokens)."""
    cur = list(script)
    changed = True
    while changed and len(cur) > 2:
        changed = False
        for i in range(len(cur) - 2, 0, -1):
            cand = cur[:i] + cur[i + 1:]
            if _last_differs(pair, cand, toks)[0]:
                cur = cand
                changed = True
    return cur


def names_of_dump(pair):
    a, _, _, _ = pair.run([["regs set 0", "regs cells"]], shards=1)
    cells, words = a[0][1].split(" | ")
    return cells.split() + ["a[0]", "a[1]", "pc", "rep"] + \
        ["bkrep_stack[%d].%s" % (i, f) for i in range(4) for f in ("start", "end", "lc")] + \
        ["b[0]", "b[1]", "a1s", "b1s", "p[0]", "p[1]"] + ["<" + w + ">" for w in words.split()]


def explain_put(pair, prefix, w, v, msk):
    """Run `put w v` after `prefix` on both sides; say which members / words differ, and evaluate the round-trip
    and frame clauses of the property on the implementation itself."""
    names = names_of_dump(pair)
    script = list(prefix) + ["regs dump", "regs put %s %x" % (w, v), "regs dump"]
    a, b, _, _ = pair.run([script], shards=1)
    ia, ib = a[0], b[0]
    before = ia[-3].split()
    after_i = ia[-1].split()
    after_m = ib[-1].split()
    diffs = ["%s impl=%s spec=%s" % (names[i] if i < len(names) else i, x, y)
             for i, (x, y) in enumerate(zip(after_i, after_m)) if x != y]
    notes = []
    wf_base = all(l.split()[1] != "setraw" for l in prefix)
    if w in msk and wf_base:
        wm, assigns = msk[w]
        probe = list(prefix) + ["regs check %s %x %x" % (w, v, wm)]
        pa, _, _, _ = pair.run([probe], shards=1)
        if pa[0] and pa[0][-1].startswith("DIFF"):
            notes.append("round-trip fails on the real code: " + pa[0][-1])
        changed = {names[i] for i, (x, y) in enumerate(zip(before, after_i))
                   if x != y and i < len(names) and not names[i].startswith("<")}
        stray = sorted(changed - assigns)
        if stray:
            notes.append("frame fails on the real code: Set<%s> changed %s" % (w, ", ".join(stray)))
    desc = ("Set<%s>(0x%04x) after `%s`: the real RegisterState differs from the specified layout: %s%s"
            % (w, v, "; ".join(prefix), "; ".join(diffs[:8]) or "(no member or word differs)",
               (" — " + "; ".join(notes)) if notes else ""))
    return script, ia, ib, desc


def diagnose(pair, allscripts, bad, a, b, msk, bases, max_report=6):
    """Turn raw disagreements into at most `max_report` violations, one per culprit word / decoder."""
    violations = []
    reported = set()
    words_only = []          # disagreements that show only in another word's read

    def add(key, desc, rep):
        if key in reported or len(violations) >= max_report:
            return
        reported.add(key)
        rep = dict(rep)
        rep.setdefault("kind", "correspondence")
        rep.setdefault("correspondence", PROP + "/regs")
        violations.append((desc, rep, True))

    # exhaustive sweeps first: they give a (word, value); then everything else
    order = {"sweep": 0, "dsmsweep": 0, "archeck": 0}
    bad = sorted(bad, key=lambda e: order.get(allscripts[e[0]][e[1]].split()[1], 1))
    for (i, k, ia, mb) in bad:
        if len(violations) >= max_report:
            break
        s = allscripts[i]
        t = s[k].split()
        op = t[1]
        if op == "sweep":
            w, lo, hi = t[2], int(t[3], 16), int(t[4], 16)
            if not _tok_differs(ia, mb, [0]):
                words_only.append(s[:k])
                continue
            if ("word", w) in reported:
                continue
            v = bisect(pair, s[:k], "regs sweep " + w + " %x %x", lo, hi, [0])
            script, ra, rb, desc = explain_put(pair, s[:k], w, v, msk)
            add(("word", w), desc, {"script": script, "impl": ra, "model": rb, "word": w, "value": v})
        elif op == "put":
            w = t[2]
            if not _tok_differs(ia, mb, [0, 1]):
                words_only.append(s[:k + 1])
                continue
            if ("word", w) in reported:
                continue
            small = shrink_keep_first(pair, s[:k + 1], [0, 1])
            if any(len(l.split()) > 2 and ("word", l.split()[2]) in reported for l in small[1:-1]):
                continue        # an earlier write to an already reported word is what differs
            script, ra, rb, desc = explain_put(pair, small[:-1], w, int(t[3], 16), msk)
            add(("word", w), desc, {"script": script, "impl": ra, "model": rb, "word": w, "value": int(t[3], 16)})
        elif op in ("get", "check"):
            w = t[2]
            if ("word", w) in reported:
                continue
            toks = None
            small = shrink_keep_first(pair, s[:k + 1], toks)
            _, ra, rb = _last_differs(pair, small)
            why = " (the round-trip clause evaluated on the real code fails)" if ra[-1].startswith("DIFF") else ""
            add(("word", w), "`%s` after `%s`: impl=%r spec=%r%s" % (small[-1], "; ".join(small[:-1]), ra[-1], rb[-1], why),
                {"script": small, "impl": ra, "model": rb, "word": w})
        elif op == "dump":
            words_only.append(s[:k])
        elif op == "dsmsweep":
            kind, idx, lo, hi = t[2], int(t[3], 16), int(t[4], 16), int(t[5], 16)
            if ("dsm", kind, idx) in reported:
                continue
            v = bisect(pair, s[:k], "regs dsmsweep %s %x" % (kind, idx) + " %x %x", lo, hi)
            nv = (~v) & 0xFFFF
            found = None
            for kk in range(4):
                if kind == "ar":
                    ws = [v if j == idx else nv for j in range(2)]
                    probe = "regs dsmar %x %x %x %x" % (kk, kk, ws[0], ws[1])
                else:
                    ws = [v if j == idx else nv for j in range(4)]
                    probe = "regs dsmarp %x %x %x %x %x %x %x" % (kk, kk, kk, ws[0], ws[1], ws[2], ws[3])
                d, ra, rb = _last_differs(pair, ["regs set 0", probe])
                if d:
                    found = (["regs set 0", probe], ra, rb)
                    break
            if not found:
                continue
            script, ra, rb = found
            add(("dsm", kind, idx),
                "the disassembler's reading of %s%d = 0x%04x differs from the interpreter's members (theorem "
                "ar_decoders_agree): `%s` impl=%r spec=%r" % (kind, idx, v, script[-1], ra[-1], rb[-1]),
                {"script": script, "impl": ra, "model": rb, "word": "%s%d" % (kind, idx), "value": v})
        elif op == "archeck":
            add(("archeck", t[2], t[3]),
                "on the real code, Set<%s%s>(v) and the disassembler disagree about register/step/offset: %s"
                % (t[2], t[3], ia), {"script": s[:k + 1], "impl": a[i], "model": b[i]})
        else:
            if op in ("dsmar", "dsmarp") and any(r[0] == "dsm" and r[1] == op[3:] for r in reported):
                continue
            small = shrink_keep_first(pair, s[:k + 1])
            _, ra, rb = _last_differs(pair, small)
            add(("line", " ".join(small[-1].split()[:2])),
                "implementation and specified layout disagree on `%s`: impl=%r spec=%r" % (small[-1], ra[-1], rb[-1]),
                {"script": small, "impl": ra, "model": rb})

    # disagreements visible only in some *other* word's read: find those words from plain dumps
    if words_only and len(violations) < max_report:
        names = names_of_dump(pair)
        for prefix in (words_only[:3] + [[bl] for bl in bases]):
            script = list(prefix) + ["regs dump"]
            d, ra, rb = _last_differs(pair, script)
            if not d:
                continue
            for n_i, (x, y) in enumerate(zip(ra[-1].split(), rb[-1].split())):
                nm = names[n_i] if n_i < len(names) else str(n_i)
                if x != y and nm.startswith("<"):
                    w = nm[1:-1]
                    g = list(prefix) + ["regs get " + w]
                    _, ga, gb = _last_differs(pair, g)
                    add(("word", w), "Get<%s> after `%s` reads impl=%s spec=%s" % (w, "; ".join(prefix), x, y),
                        {"script": g, "impl": ga, "model": gb, "word": w})
    if bad and not violations:
        i, k, ia, mb = bad[0]
        violations.append(("implementation and specified layout disagree on `%s`: impl=%r spec=%r"
                           % (allscripts[i][k], ia, mb),
                           {"kind": "correspondence", "script": allscripts[i][:k + 1], "impl": a[i], "model": b[i],
                            "correspondence": PROP + "/regs"}, True))
    return violations


def failing_theorems(relpath):
    """Elaborate one proof file and map every error to the enclosing declaration."""
    import re
    rc, out = vlib.sh(["lake", "env", "lean", relpath], cwd=vlib.LEAN, timeout=1800)
    src = open(os.path.join(vlib.LEAN, relpath)).read().split("\n")
    res, seen = [], set()
    for m in re.finditer(r"%s:(\d+):\d+: error[^:]*: ([^\n]*)" % re.escape(relpath), out):
        ln = int(m.group(1))
        name = "?"
        for k in range(min(ln, len(src)) - 1, -1, -1):
            mm = re.match(r"\s*(?:private\s+)?(?:theorem|def|example|instance)\s*(\S*)", src[k])
            if mm:
                name = mm.group(1) or "example@%d" % (k + 1)
                break
        if name not in seen:
            seen.add(name)
            res.append((name, m.group(2).strip()))
    if not res and rc != 0:
        res.append(("?", out[-300:]))
    return res


def explore(rng, tier, replay=None):
    t0 = time.time()
    pair = vlib.Pair("plain")
    tab = table()
    msk = masks(tab) if tab else {}
    info = _state.get("translated") or {}
    violations = []

    # 0. which theorems hold over the regenerated table (finer than "module does not build")
    ok_main, _ = vlib.lean_build(["Proofs.C20"])
    if not ok_main:
        failed = failing_theorems("Proofs/C20.lean")
        _state["main_on_new_table"] = {"module": "Proofs.C20", "failed": failed}
        violations.append(("theorems that no longer hold over the table regenerated from the tree under test: " +
                           "; ".join("%s (%s)" % (n, m[:160]) for n, m in failed[:6]),
                           {"kind": "proof", "failed": failed}, False))
    elif info and info.get("equals_golden") is False:
        ok_g, _ = vlib.lean_build(["Proofs.C20Golden"])
        _state["main_on_new_table"] = {"module": "Proofs.C20", "failed": [],
                                       "note": "all C20 theorems re-proved over the changed table"}
        if not ok_g:
            failed = failing_theorems("Proofs/C20Golden.lean")
            violations.append(("the layout table regenerated from the tree under test differs from the committed "
                               "snapshot (the C20 theorems were re-proved over the new table): " +
                               "; ".join(n for n, _ in failed[:6]), {"kind": "proof", "failed": failed}, False))

    quick = tier == "quick"
    chunk = 2048
    nwf, nraw = (2, 1) if quick else (12, 4)
    bases = ["regs set %x" % rng.bits(48) for _ in range(nwf)] + ["regs setraw %x" % rng.bits(48) for _ in range(nraw)]
    corpus = corr.load_corpus(PROP)
    sanity = [["regs set 0", "regs cells", "regs dump"]]
    randoms = [gen_random_script(rng, msk) for _ in range(400 if quick else 6000)]
    sweeps = sweep_scripts(bases, chunk)
    dsms = dsm_scripts(4096)
    allscripts = corpus + sanity + randoms + sweeps + dsms
    bad, a, b, crashes = pair.diff(allscripts)

    for (i, err) in crashes[:3]:
        violations.append(("harness died on a script (crash or sanitizer abort): " + err[-300:],
                           {"kind": "crash", "script": allscripts[i], "stderr": err}, True))
    violations += diagnose(pair, allscripts, bad, a, b, msk, bases)

    # coverage accounting
    dist = {}
    evaluations = 0
    distinct = set()
    direct = 0
    for s, r in zip(allscripts, a):
        for line, resp in zip(s, r):
            t = line.split()
            key = " ".join(t[:2])
            d = dist.setdefault(key, {"n": 0, "abort": 0, "values": 0})
            d["n"] += 1
            if t[1] in ("sweep",):
                n = int(t[4], 16) - int(t[3], 16)
                d["values"] += n
                evaluations += n
                distinct.add((t[1], t[2], t[3], t[4], n))
            elif t[1] in ("dsmsweep", "archeck"):
                n = int(t[5], 16) - int(t[4], 16)
                d["values"] += n
                evaluations += n
                distinct.add((t[1], t[2], t[3], t[4], t[5], n))
                if t[1] == "archeck":
                    direct += n
            else:
                evaluations += 1
                if t[1] == "check":
                    direct += 1
    nvals = sum(k[-1] for k in distinct)   # distinct (op, word, v) triples, whatever the base state
    samples = []
    for s, ra_, rb_ in list(zip(allscripts, a, b))[len(corpus):len(corpus) + 3]:
        samples.append({"script": s[:8], "impl": [x[:200] for x in ra_[:8]], "model": [x[:200] for x in rb_[:8]]})
    ctx = {
        "evaluations": evaluations,
        "distinct_nontrivial": nvals,
        "exhaustive": True,
        "rule": ("helper level, exhaustive over the written value: every v in [0,65536) is written with the real "
                 "RegisterState::Set<word> into each of the 19 words from %d base states (%d within hardware widths, %d "
                 "with over-wide members to exercise the unmasked Get), answering per v the word read back and a digest "
                 "of every u16 member, a[0..1], pc/rep/bkrep_stack/b/a1s/b1s/p and all 19 words, compared in chunks of "
                 "%d with the model on the snapshot layout (a disagreeing chunk is bisected to one v); every v in "
                 "[0,65536) as ar0/ar1/arp0..3 through Teakra::Disassembler::GetTokenList with ArArpSettings on opcodes "
                 "found by their setting-less token text `[arrnK+arsK]`, `[arprniK+arpsiK]`, `[arprnjK+arpsjK]` "
                 "(other words of the setting = ~v), and `archeck`: Set<ar/arp>(v) on a real RegisterState vs the "
                 "disassembler's text, evaluated on the implementation itself; plus random put/get/dump/check/dsm "
                 "histories. distinct = (word, v) pairs" % (len(bases), nwf, nraw, chunk)),
        "samples": samples,
        "traces_validated_against_impl": len(allscripts) - len(bad),
        "distribution": dist,
        "direct_property_cases": direct,
        "violations": violations,
        "corpus_scripts": len(corpus),
        "harness_build_s": pair.build_s,
        "unmodelled": ["private shadow copies inside ShadowRegister/ShadowSwap* (not reachable from a u16 member pointer)"],
    }
    if "main_on_new_table" in _state:
        ctx["rule"] += "; theorems of Proofs.C20 over the changed table: %r" % (_state["main_on_new_table"],)
    # the instructions that read and write these words (mov/push/pop/alb/tstb of status, config, ar/arp, icr),
    # also from states inside block repeats, where the loop-flag slots matter
    try:
        from checks import alu_common
        iv, istats = alu_common.instr_slice(rng, ["mov_icr", "mov_Abl_SttMod", "mov_SttMod", "mov_Imm16_SttMod",
                                                  "mov_ArRn1_ArStep1_SttMod", "mov_Abl_ArArp", "mov_ArArp", "mov_Imm16_ArArp",
                                                  "mov_ArRn1_ArStep1_ArArp", "mov_MemR7Imm16_ArArpSttMod",
                                                  "mov_ArArpSttMod_MemR7Imm16", "push_ArArpSttMod", "pop_ArArpSttMod",
                                                  "alb_Alb_Imm16_SttMod", "tstb_SttMod", "mov_Register_Register",
                                                  "mov_Imm16_Register", "push_Register", "pop_Register", "load_", "mov2",
                                                  "mova",
                                                  # every instruction that addresses through an ar/arp word (register, step and
                                                  # offset selected by the word): the interpreter must use the same fields the
                                                  # layout and the disassembler name
                                                  r"~_(ArRn[12]|ArpRn[12])(_|$)"], 1 if tier == "quick" else 6)
        ctx["violations"] = ctx.get("violations", []) + iv
        ctx["instruction_slice"] = istats
        ctx["evaluations"] = ctx.get("evaluations", 0) + istats["instruction_cases"]
    except RuntimeError as ex:
        ctx["violations"] = ctx.get("violations", []) + [("instruction slice could not run: " + str(ex)[-300:],
                                                          {"kind": "error", "error": str(ex)[-2000:]}, False)]
    ctx["explore_wall_s"] = round(time.time() - t0, 2)
    return ctx


def replay(rep):
    return corr.replay(rep)
