"""C19 - the host mailbox/semaphore API is race-free and loses nothing against a running DSP.

Translator-based: `regenerate()` rewrites lean/TeakraModel/Generated/LockTable.lean from the *current*
/repo/src/{apbp.cpp, icu.h, interpreter.h, processor.cpp, teakra.cpp, mmio.cpp}; the theorems of Proofs.C19
(`table_checks` and what is derived from it: race_free_partial, lock_order_acyclic, actions_justified, ...) are
re-proved over that table by the kernel; the theorems about the interleaving semantics (Proofs.C19Conc) and about
the pinned snapshot (Proofs.C19Pinned) do not depend on the regenerated table.

What this module adds to the proofs: it *runs* the same decision procedures (`findRaces`, `backEdges`, `closed`,
`actionsJustified`, ... of TeakraModel/LockModel.lean, by `#eval`) on the regenerated table and reports every group
of racing accesses / every lock-order back edge as a VIOLATION whose failing schedule is the pair of calls that may
run concurrently.  `race_free` is FALSE on the pinned tree: two groups are reported (disable_interrupt; the ICU
vector tables).  ThreadSanitizer (thorough tier and `--replay`) is used only to confirm a reported race on the real
code through harness/u_conc.cpp; it never decides.
"""
import json
import os
import re
import subprocess

import vlib
import translate_locks as tl

PROP = "C19"
MODULE = "Proofs.C19"
GOLDEN_MODULE = "Proofs.C19Golden"
L = "Teakra.Lock."
C = "Teakra.Conc."
THEOREMS = [L + t for t in [
    "conflict_iff", "findRaces_sound", "findRace_none_iff", "edgesForward_sound",
    "table_checks", "analysis_closed", "race_free_partial", "race_free_holds", "lock_order_acyclic", "entries_classified",
    "initOnly_never_written", "actions_justified",
    "race_witness_disable_interrupt", "race_witness_icu_vector_low", "race_witness_icu_vector_high",
    "race_witness_icu_vector_context_switch", "racy_fields_golden", "race_free_golden_false",
    "race_free_after_patch"]] + [C + t for t in [
    "step_view", "step_lview", "step_stack", "chanInv_reachable", "sigInv_reachable", "latchInv_reachable",
    "reads_are_writes", "send_order", "last_value_observed", "step_stacks", "send_calls_handler",
    "handler_triggers", "latchSet_sets", "send_signals", "send_signals_returned", "latch_kept",
    "latch_exchange_lossless", "exchange_idle", "exchange_once", "semSet_is_sequential", "semMask_is_sequential",
    "run_reachable", "signal_accounting", "ready_by_enabled_send_signalled", "enabled_window_sends_raise",
    "ready_window_polls_true", "wakeInv_reachable", "enable_then_poll_never_loses_wakeup",
    "poll_returned_outcome", "stepSplit_back_to_back", "split_send_loses_wakeup", "split_send_loses_wakeup_flag1",
    "wake_poll_false_irq_raised", "wake_poll_true_no_irq"]]
TRUSTED = [
    "tools/translate_locks.py (apbp.cpp, icu.h, interpreter.h, processor.cpp, teakra.cpp, mmio.cpp -> "
    "Generated/LockTable.lean: per method the members read/written, the std::lock_guards in scope, atomic or not, the "
    "callback call sites with the locks held, the host-API/MMIO entry points, the constructor's callback wiring, the "
    "members bound directly through Cell::RefCell/BitFieldSlot::RefSlot); it rejects every statement, identifier or "
    "wiring shape it does not recognise; names are carried as numbers (big-endian UTF-8), the same encoding as the "
    "`n%` macro of TeakraModel/LockTypes.lean",
    "hand-written thread model lean/TeakraModel/LockModel.lean (which entry runs on which thread; host callbacks may "
    "call every mailbox API method) and interleaving semantics lean/TeakraModel/Conc.lean",
    "the sequential effect of each atomic action is that of lean/TeakraModel/Apbp.lean and Icu.lean, tied to the C++ by "
    "the C14 (apbp/apbpsys histories) and ICU component correspondence runs; `actions_justified` ties the action "
    "boundaries and callback sites to the translated table",
    "ThreadSanitizer (g++ 12 -fsanitize=thread) + harness/u_conc.cpp: confirmation of reported races only"]
ASSUMPTIONS = [
    "initOnly: handler, semaphore_handler, on_interrupt, on_vectored_interrupt (and the AHBM / audio callbacks, which "
    "are outside the translated classes) are installed before Run and never changed while a DSP thread runs; "
    "Teakra::Reset, SetRecvDataHandler, SetSemaphoreHandler, GetRegisterState are not called concurrently with Run",
    "host thread = the mailbox/semaphore API (SendDataIsEmpty, SendData, RecvDataIsReady, RecvData, PeekRecvData, "
    "SetSemaphore, GetSemaphore, ClearSemaphore, MaskSemaphore); DSP thread = everything reachable from Teakra::Run "
    "(latch block of Interpreter::Run, MMIO cells 0x0C0-0x0D8 and 0x200-0x250, peripheral interrupt callbacks); the "
    "host's other entry points (MMIORead/MMIOWrite/DataRead/..., AHBM, DMA getters) are not part of the property and "
    "are not thread-safe against Run",
    "a host callback on apbp_from_dsp runs on the thread that triggers it and may call any mailbox API method; it "
    "returns (no blocking on anything but the modelled mutexes)",
    "the three DataChannels of one Apbp are folded into one abstract channel (exact for races, conservative for lock order)",
    "below 'access under a lock / std::atomic operation' the C++ memory model is not modelled; liveness (fairness of "
    "the scheduler, the DSP program actually polling) is not modelled: 'eventually observed' is proved in its safety form",
    "the model treats the unsynchronised MMIO writes to the ICU vector tables as atomic actions; on schedules that "
    "exercise that race the C++ has no defined behaviour and the model says nothing"]

GEN_JSON = os.path.join(vlib.BUILD, "gen", "lock_table.json")
GOLDEN_JSON = os.path.join(vlib.LEAN, "TeakraModel", "Golden", "lock_table.json")
ANALYSIS = r'''import TeakraModel.Generated.LockTable
import Proofs.C19Lock
open Teakra.Lock
def d := Name.decode
def pInst (i : Inst) : String := d i.1 ++ "|" ++ d i.2
def pLocks (l : List Inst) : String := ",".intercalate (l.map pInst)
def pAcc (a : IAccess) : String :=
  "\t".intercalate [d a.thread, d a.entry, pInst a.site, pInst a.field, toString a.write, pLocks a.locks, toString a.atomic]
def main : IO Unit := do
  IO.println s!"closed\t{closed table}"
  IO.println s!"fuel_ok\t{(explore table exploreFuel (roots table) []).2}"
  for v in (visits table).filter (·.unresolved) do
    IO.println s!"unresolved\t{d v.thread}\t{d v.entry}\t{d v.obj}\t{d v.method}"
  IO.println s!"visits\t{(visits table).length}"
  IO.println s!"accesses\t{(iaccesses table).length}\t{((iaccesses table).filter (·.thread == hostThread)).length}"
  for p in findRaces table [] do
    IO.println ("race\t" ++ pAcc p.1 ++ "\t" ++ pAcc p.2)
  IO.println s!"races_outside_known\t{(findRaces table knownRacy).length}"
  for e in lockEdges table do
    IO.println s!"edge\t{pInst e.1}\t{pInst e.2}"
  IO.println ("order\t" ++ "\t".intercalate ((lockOrder table).map pInst))
  IO.println s!"order_ok\t{edgesForward (lockOrder table) (lockEdges table)}"
  for e in lockEdges table do
    for q in (edgeWitnesses table e).take 1 do
      IO.println s!"edgew\t{pInst e.1}\t{pInst e.2}\t{d q.thread}\t{d q.entry}\t{pInst q.site}\t{pLocks q.held}"
  IO.println s!"entries_classified\t{entriesClassified table}"
  for e in table.entries.filter (fun e => e.origin == n% "teakra" && !(hasName hostApi e.name || hasName initApi e.name || e.name == dspRoot)) do
    IO.println s!"unclassified\t{d e.name}\t{d e.obj}\t{d e.method}"
  IO.println s!"initonly_unwritten\t{initOnlyUnwritten table}"
  for a in (iaccesses table).filter (fun a => a.write && hasName initOnly a.field.2) do
    IO.println ("initonly_write\t" ++ pAcc a)
  IO.println s!"actions_justified\t{actionsJustified table}"
  for c in table.calls.filter (fun c => c.kind == n% "callback") do
    IO.println s!"callback\t{d c.method}\t{d c.target}\t{",".intercalate (c.locks.map d)}\t{modelCallbacks.contains c}"
  for c in modelCallbacks.filter (fun c => !table.calls.contains c) do
    IO.println s!"callback_missing\t{d c.method}\t{d c.target}\t{",".intercalate (c.locks.map d)}"
  for w in table.wiring do
    IO.println s!"wire\t{d w.obj}\t{d w.field}\t{d w.targetObj}\t{d w.targetMethod}\t{modelWiring.contains w}"
  IO.println s!"one_critical_section\t{oneCriticalSection table}"
  for q in table.acquires.filter (fun q => (table.acquires.filter (fun q' => q'.method == q.method)).length != 1) do
    IO.println s!"split_section\t{d q.method}\ttakes more than one lock_guard ({d q.lock})"
  for c in table.calls.filter (fun c => c.kind == n% "method" && guarded table c.method && c.locks.isEmpty) do
    IO.println s!"split_section\t{d c.method}\tcalls {d c.target} outside its lock_guard (a second critical section)"
  for a in table.accesses.filter (fun a => guarded table a.method && a.locks.isEmpty && !a.atomic && !hasName initOnly a.field) do
    IO.println s!"split_section\t{d a.method}\t{if a.write then "writes" else "reads"} {d a.field} outside its lock_guard"
  for c in table.calls.filter (fun c => c.kind == n% "method" && !guarded table c.method && guarded table c.target &&
      (table.calls.filter (fun c' => c'.kind == n% "method" && c'.method == c.method)).length != 1) do
    IO.println s!"split_section\t{d c.method}\tforwards to more than one guarded method ({d c.target})"
  for q in table.acquires.filter (fun q => !q.held.isEmpty) do
    IO.println s!"nested_guard\t{d q.method}\t{d q.lock}\t{",".intercalate (q.held.map d)}"
  for a in table.accesses.filter (fun a => a.method == n% "Interpreter.Run" && !a.atomic) do
    IO.println s!"run_nonatomic\t{d a.field}\t{a.write}"
#eval main
'''


def regenerate():
    """Re-translate from vlib.REPO; files are rewritten only when their content changes."""
    try:
        data, changed = tl.translate(vlib.REPO, vlib.ROOT)
    except Exception:
        tl.restore_golden(vlib.ROOT)      # unreadable source: the proofs stay on the pinned table; the run reports it
        raise
    st = tl.stats(data)
    st["rewritten"] = [os.path.relpath(c, vlib.ROOT) for c in changed]
    st["equals_golden"] = data == json.load(open(GOLDEN_JSON))
    return st


# ----------------------------------------------------------------------------- executable decision procedures

def run_analysis():
    """`#eval` the decision procedures of TeakraModel/LockModel.lean on the regenerated table."""
    ok, log = vlib.lean_build(["TeakraModel.Generated.LockTable", "Proofs.C19Lock"])
    if not ok:
        raise RuntimeError("lock table / C19Lock do not build:\n" + log[-3000:])
    os.makedirs(os.path.join(vlib.BUILD, "audit"), exist_ok=True)
    path = os.path.join(vlib.BUILD, "audit", "c19_analysis.lean")
    with open(path, "w") as f:
        f.write(ANALYSIS)
    rc, out = vlib.sh(["lake", "env", "lean", path], cwd=vlib.LEAN, timeout=1800)
    if rc != 0:
        raise RuntimeError("analysis script failed:\n" + out[-3000:])
    res = {"races": [], "edges": [], "backedges": [], "unresolved": [], "unclassified": [], "initonly_writes": [],
           "edge_witness": {}, "callbacks": [], "callbacks_missing": [], "wires": [], "nested_guards": [], "run_nonatomic": [], "split_sections": [], "flags": {}}
    for line in out.split("\n"):
        t = line.split("\t")
        k = t[0]
        if k in ("closed", "fuel_ok", "entries_classified", "initonly_unwritten", "actions_justified", "order_ok", "one_critical_section"):
            res["flags"][k] = t[1] == "true"
        elif k in ("visits", "races_outside_known"):
            res[k] = int(t[1])
        elif k == "accesses":
            res["accesses"] = int(t[1])
            res["host_accesses"] = int(t[2])
        elif k == "race":
            res["races"].append((_acc(t[1:8]), _acc(t[8:15])))
        elif k == "edge":
            res["edges"].append((t[1], t[2]))
        elif k == "order":
            res["order"] = t[1:]
        elif k == "edgew":
            res["edge_witness"][(t[1], t[2])] = {"held": t[1], "acquired": t[2], "thread": t[3], "entry": t[4], "site": t[5], "locks": t[6]}
        elif k == "unresolved":
            res["unresolved"].append(t[1:])
        elif k == "unclassified":
            res["unclassified"].append(t[1:])
        elif k == "initonly_write":
            res["initonly_writes"].append(_acc(t[1:8]))
        elif k == "callback":
            res["callbacks"].append({"method": t[1], "target": t[2], "locks": t[3], "as_modelled": t[4] == "true"})
        elif k == "callback_missing":
            res["callbacks_missing"].append({"method": t[1], "target": t[2], "locks": t[3]})
        elif k == "wire":
            res["wires"].append({"obj": t[1], "field": t[2], "target": t[3] + "." + t[4], "as_modelled": t[5] == "true"})
        elif k == "split_section":
            if t[1:] not in res["split_sections"]:
                res["split_sections"].append(t[1:])
        elif k == "nested_guard":
            res["nested_guards"].append(t[1:])
        elif k == "run_nonatomic":
            res["run_nonatomic"].append(t[1:])
    res["backedges"] = cycle_edges(res["edges"], res["edge_witness"])
    return res


def cycle_edges(edges, witness):
    """The edges that lie on a cycle of the held->acquired graph (what makes `edgesForward` fail), one list per
    cycle found: every self-loop, and one cycle through each remaining edge whose target reaches its source."""
    succ = {}
    for a, b in edges:
        succ.setdefault(a, []).append(b)

    def path(src, dst):
        seen, stack = {src}, [(src, [src])]
        while stack:
            x, p = stack.pop()
            if x == dst:
                return p
            for y in succ.get(x, []):
                if y not in seen:
                    seen.add(y)
                    stack.append((y, p + [y]))
        return None
    out, covered = [], set()
    for a, b in edges:
        if a == b:
            out.append(dict(witness.get((a, b), {"held": a, "acquired": b, "thread": "?", "entry": "?", "site": "?", "locks": ""}),
                            cycle=[a, a]))
            covered.add(a)
    for a, b in edges:
        if a == b or (a in covered and b in covered):
            continue
        p = path(b, a)
        if p:
            out.append(dict(witness.get((a, b), {"held": a, "acquired": b, "thread": "?", "entry": "?", "site": "?", "locks": ""}),
                            cycle=[a] + p))
            covered.update(p)
    return out


def _acc(t):
    return {"thread": t[0], "entry": t[1], "site": t[2].replace("|", "."), "object": t[3].split("|")[0],
            "field": t[3].split("|")[1], "write": t[4] == "true", "locks": [x.replace("|", ".") for x in t[5].split(",") if x],
            "atomic": t[6] == "true"}


def _call(a):
    """One side of a failing schedule, as a call the thread makes."""
    rw = "writes" if a["write"] else "reads"
    lk = "holding {" + ", ".join(a["locks"]) + "}" if a["locks"] else "holding no lock"
    if a["thread"] == "host":
        who = "host thread: %s" % a["entry"]
    elif a["site"].startswith("mmio "):
        who = "DSP thread (inside Teakra::Run): store/load to MMIO %s (Cell::RefCell/RefSlot, direct reference)" % a["entry"]
    else:
        who = "DSP thread (inside Teakra::Run): %s" % a["entry"]
    via = "" if a["site"].startswith("mmio ") else " -> %s" % a["site"].replace(".", "::", 2).replace("::", ".", 1)
    return "%s%s %s %s.%s %s%s" % (who, via, rw, a["object"], a["field"], lk, " (atomic)" if a["atomic"] else "")


def group_races(races, fields_order):
    """One finding per racy member, except that the members the DSP reaches through direct MMIO references of one
    object form one finding (the ICU vector tables)."""
    groups = {}
    for a, b in races:
        direct = b["site"].startswith("mmio ")
        key = ("direct", a["object"]) if direct else ("field", a["object"], a["field"])
        groups.setdefault(key, []).append((a, b))
    out = []
    for key, pairs in groups.items():
        fields = sorted({a["field"] for a, _ in pairs}, key=lambda f: fields_order.index(f) if f in fields_order else 999)
        cls = fields[0].split(".")[0]
        members = [f.split(".", 1)[1] for f in fields]
        a, b = pairs[0]
        if key[0] == "direct":
            name = "%s %s" % (cls, ", ".join(members))
            what = ("data race on %s (object %s): written by the DSP thread through direct MMIO references (%s) with no "
                    "lock, read by the host thread in %s under {%s}"
                    % (name, a["object"], ", ".join(sorted({p[1]["entry"] for p in pairs})),
                       ", ".join(sorted({p[0]["site"] for p in pairs})), ", ".join(a["locks"])))
        else:
            name = members[0]
            what = "data race on %s (%s of %s)" % (name, fields[0], a["object"])
        desc = "%s: %s  ||  %s  [%d racing pair%s; race_free fails]" % (what, _call(a), _call(b), len(pairs), "" if len(pairs) == 1 else "s")
        out.append({"key": list(key), "fields": fields, "description": desc, "pairs": pairs})
    return out


TSAN_KIND = {"DataChannel.disable_interrupt": "disable", "ICU.vector_low": "vector", "ICU.vector_high": "vector",
             "ICU.vector_context_switch": "vector"}


def tsan_confirm(kind, iters=2000):
    """Run the two calls of a reported pair on two real threads under ThreadSanitizer.  Confirmation only."""
    exe = vlib.harness_build("tsan")
    p = subprocess.run([exe], input="conc race %s %x\n" % (kind, iters), stdout=subprocess.PIPE, stderr=subprocess.PIPE,
                       text=True, timeout=600)
    n = p.stderr.count("WARNING: ThreadSanitizer: data race")
    frames = sorted(set(re.findall(r"#\d+ (Teakra::[\w:~]+)", p.stderr)))
    return {"op": "conc race %s %x" % (kind, iters), "tsan_reports": n, "frames": frames[:20], "stdout": p.stdout.strip()[-80:]}


def lostwake_search(ms):
    """Search the real code (plain harness build, two threads) for a lost wake-up of the send path."""
    exe = vlib.harness_build("plain")
    op = "conc lostwake %x %x" % (50_000_000, ms)
    p = subprocess.run([exe], input=op + "\n", stdout=subprocess.PIPE, stderr=subprocess.PIPE, text=True, timeout=ms / 1000 + 120)
    t = p.stdout.strip().split()
    return {"op": op, "response": p.stdout.strip()[-120:], "lost": bool(t) and t[0] == "lost",
            "round": int(t[1], 16) if len(t) > 1 else None}


def explore(rng, tier, replay=None):
    violations = []
    data = json.load(open(GEN_JSON if os.path.exists(GEN_JSON) else GOLDEN_JSON))
    gold = json.load(open(GOLDEN_JSON))
    fields_order = [f["name"] for f in data["fields"]]
    an = run_analysis()
    ok_g, _ = vlib.lean_build([GOLDEN_MODULE])
    ginfo = {"equal": data == gold,
             "table_eq_golden_theorem": "checked" if ok_g else "does not hold (table regenerated from changed sources)"}
    if data != gold:
        ginfo["changed_rows"] = {k: [r for r in data[k] if r not in gold.get(k, [])][:8] for k in
                                 ("fields", "accesses", "calls", "acquires", "direct", "entries", "wiring") if data[k] != gold.get(k)}
    groups = group_races(an["races"], fields_order)
    for g in groups:
        a, b = g["pairs"][0]
        rep = {"kind": "schedule", "finding": "race", "fields": g["fields"],
               "schedule": [_call(a), _call(b)],
               "note": "the two calls may run concurrently; neither access holds a lock the other holds and they are not both atomic",
               "pair": {"host": a, "dsp": b}, "racing_pairs": len(g["pairs"])}
        kind = TSAN_KIND.get(g["fields"][0])
        if tier == "thorough" and kind:
            try:
                rep["tsan"] = tsan_confirm(kind)
            except Exception as ex:      # noqa: BLE001
                rep["tsan"] = {"error": str(ex)[-400:]}
        violations.append((g["description"], rep, True))
    seen = set()
    for be in an["backedges"]:
        k = (be["held"], be["acquired"])
        if k in seen:
            continue
        seen.add(k)
        self_cycle = be["held"] == be["acquired"]
        desc = ("lock-order cycle: %s is acquired in %s (%s thread, entry %s) while %s is held%s [lock_order_acyclic fails]"
                % (be["acquired"].replace("|", "."), be["site"].replace("|", "."), be["thread"], be["entry"],
                   be["held"].replace("|", "."),
                   " - a non-recursive std::mutex re-acquired by its holder: self-deadlock" if self_cycle else
                   "; the cycle is " + " -> ".join(x.replace("|", ".") for x in be["cycle"]) + ": two threads can deadlock"))
        violations.append((desc, {"kind": "schedule", "finding": "deadlock", "edge": be,
                                  "schedule": ["%s thread: %s ... reaches %s holding {%s} and blocks on %s"
                                               % (be["thread"], be["entry"], be["site"].replace("|", "."),
                                                  be["locks"].replace("|", "."), be["acquired"].replace("|", "."))],
                                  "lock_edges": an["edges"]}, True))
    fl = an["flags"]
    if not fl.get("order_ok", True) and not an["backedges"]:
        violations.append(("lock order check fails but no cycle was extracted", {"kind": "model", "edges": an["edges"]}, False))
    if not fl.get("closed", False):
        violations.append(("call-graph unfolding not closed: %s" % (
            "unresolved callbacks " + "; ".join("%s %s.%s" % (u[0], u[2], u[3]) for u in an["unresolved"]) if an["unresolved"]
            else "fuel exhausted"), {"kind": "model", "unresolved": an["unresolved"]}, False))
    if not fl.get("entries_classified", False):
        violations.append(("host API methods reaching the mailboxes/ICU/processor that the thread model does not classify: %s"
                           % "; ".join("%s -> %s.%s" % tuple(u) for u in an["unclassified"]),
                           {"kind": "model", "unclassified": an["unclassified"]}, False))
    if not fl.get("initonly_unwritten", False):
        for w in an["initonly_writes"][:3]:
            violations.append(("init-only member written while running: " + _call(w),
                               {"kind": "schedule", "schedule": [_call(w)], "access": w}, True))
    if not fl.get("actions_justified", False):
        bad = [c for c in an["callbacks"] if not c["as_modelled"]]
        badw = [w for w in an["wires"] if not w["as_modelled"]]
        desc = ("the atomic actions of the interleaving semantics are no longer those of the code (actions_justified fails): "
                + "; ".join(["callback %s called in %s under {%s}" % (c["target"], c["method"], c["locks"]) for c in bad] +
                            ["expected callback site missing: %s in %s under {%s}" % (c["target"], c["method"], c["locks"])
                             for c in an["callbacks_missing"]] +
                            ["wiring %s.%s = %s" % (w["obj"], w["field"], w["target"]) for w in badw] +
                            ["nested lock_guard in %s" % n[0] for n in an["nested_guards"]] +
                            ["non-atomic latch access in Interpreter::Run: %s" % n[0] for n in an["run_nonatomic"]]))
        found = False
        rep = {"kind": "model", "callbacks": an["callbacks"], "wires": an["wires"], "split_sections": an["split_sections"],
               "theorem": "Teakra.Lock.actions_justified"}
        if an["split_sections"]:
            desc = desc.rstrip("; ") + " " + "; ".join("%s %s" % tuple(x[:2]) for x in an["split_sections"])
        if any(x[0] in ("DataChannel.Send", "Apbp.SendData", "DataChannel.SetDisableInterrupt", "DataChannel.IsReady")
               for x in an["split_sections"]):
            try:
                lw = lostwake_search(20000 if tier == "quick" else 120000)
            except Exception as ex:      # noqa: BLE001
                lw = {"error": str(ex)[-300:], "lost": False}
            rep["lostwake_search"] = lw
            if lw.get("lost"):
                found = True
                rep.update({"kind": "schedule", "finding": "lostwake", "schedule": [
                    "quiescent: mailbox 0 empty, MMIO 0x0D4 = 0x100 (interrupt disabled), ICU requests acknowledged",
                    "host thread: Teakra::SendData(0, v)   ||   DSP side: MMIO write 0x0D4 := 0 (enable), then one read of 0x0D6 (ready bit)",
                    "afterwards: the word is in the mailbox, the interrupt is enabled, the poll made after enabling saw 'empty', "
                    "and ICU request 0xE was never raised (round %s of `%s`)" % (lw.get("round"), lw["op"])]})
                desc += " - LOST WAKE-UP exhibited on the implementation: a send completed with the interrupt enabled and no interrupt was delivered"
        violations.append((desc, rep, found))
    # the sequential effect of every atomic action is that of TeakraModel/Apbp.lean and Icu.lean: re-tie them here (the
    # same generators as C14 / C07), so that a change of what Send / Trigger DO - not only of how they lock - is seen
    seq_stats = {}
    try:
        from checks import c07icu, c14
        nseq = 250 if tier == "quick" else 5000
        seq = [c07icu.gen_script(rng, 6 + rng.below(24)) for _ in range(nseq)] + [c14.gen_apbp(rng, 6 + rng.below(24)) for _ in range(nseq)]
        pair = vlib.Pair("plain")
        bad, sa, sb, crashes = pair.diff(seq)
        seq_stats = {"scripts": len(seq), "disagreements": len(bad)}
        for (i, k, ia, mb) in bad[:2]:
            small = pair.shrink(seq[i][:k + 1])
            ra, rb, _, _ = pair.run([small], shards=1)
            unit = small[-1].split()[0]
            violations.append(("the sequential effect of an atomic action of the interleaving model differs from the code: `%s` answers %r, "
                               "the model (whose Trigger/Send/Recv/semaphore actions the theorems send_signals, reads_are_writes, ... are "
                               "about) says %r" % (small[-1], ra[0][-1][:80] if ra[0] else None, rb[0][-1][:80] if rb[0] else None),
                               {"kind": "correspondence", "script": small, "impl": ra[0], "model": rb[0], "correspondence": "C19/" + unit}, True))
    except Exception as ex:      # noqa: BLE001
        violations.append(("sequential-action slice could not run: %s" % str(ex)[-300:], {"kind": "error", "error": str(ex)[-2000:]}, False))
    pairs = an.get("host_accesses", 0) * an.get("accesses", 0)
    lw_clean = None
    if tier == "thorough" and fl.get("actions_justified", False):
        # supporting evidence only: the atomicity of Send is what `actions_justified` + the Conc theorems establish
        try:
            lw_clean = lostwake_search(15000)
            if lw_clean["lost"]:
                violations.append(("lost wake-up on the implementation although the table checks pass: " + lw_clean["response"],
                                   {"kind": "schedule", "finding": "lostwake", "lostwake_search": lw_clean,
                                    "schedule": ["host SendData(0,v) || DSP MMIO 0x0D4:=0; read 0x0D6", lw_clean["response"]]}, True))
        except Exception as ex:      # noqa: BLE001
            lw_clean = {"error": str(ex)[-300:]}
    ctx = {
        "evaluations": pairs,
        "distinct_nontrivial": len(an["races"]),
        "exhaustive": True,
        "rule": "translated lock table -> call-graph unfolding of both threads (%d activations, %d object-level accesses, %d by the "
                "host thread) -> every (host access, other access) pair tested for a data race by `findRaces`, every "
                "held->acquired pair tested against a topological order by `edgesForward`; the same definitions the kernel "
                "evaluates in `table_checks`. evaluations = access pairs examined"
                % (an.get("visits", 0), an.get("accesses", 0), an.get("host_accesses", 0)),
        "direct_property_cases": {
            "what": "executable findRaces / lock-order / closure / classification / actions_justified on the regenerated table",
            "races": len(an["races"]), "race_groups": [g["fields"] for g in groups],
            "races_outside_knownRacy": an.get("races_outside_known"),
            "lock_edges": ["%s -> %s" % e for e in an["edges"]], "lock_order": an.get("order"),
            "back_edges": len(an["backedges"]), "flags": fl, "golden_agreement": ginfo,
            "split_sections": an["split_sections"], "lostwake_stress": lw_clean, "sequential_action_slice": seq_stats},
        "samples": [v[1]["schedule"] for v in violations if "schedule" in v[1]][:3],
        "unmodelled": [],
        "violations": violations,
    }
    return ctx


def replay(rep):
    """Re-derive the finding on the current tree; for a race also run the pair under ThreadSanitizer."""
    try:
        regenerate()
    except Exception as ex:     # noqa: BLE001
        print("translator failed: %s" % ex)
        return 1
    an = run_analysis()
    rc = 0
    if rep.get("finding") == "race":
        fs = set(rep.get("fields", []))
        still = [(a, b) for a, b in an["races"] if a["field"] in fs]
        print("schedule:")
        for s in rep.get("schedule", []):
            print("  " + s)
        print("findRaces on the current tree: %d racing pair(s) on %s" % (len(still), ", ".join(sorted(fs))))
        rc = 1 if still else 0
        kind = TSAN_KIND.get(rep["fields"][0]) if rep.get("fields") else None
        if kind and os.environ.get("VERIF_NO_TSAN") != "1":
            try:
                r = tsan_confirm(kind)
                print("ThreadSanitizer (confirmation only): `%s` -> %d data race report(s); frames: %s"
                      % (r["op"], r["tsan_reports"], ", ".join(r["frames"][:8])))
            except Exception as ex:      # noqa: BLE001
                print("ThreadSanitizer run failed: %s" % str(ex)[-300:])
    elif rep.get("finding") == "lostwake":
        lw = lostwake_search(60000)
        print("schedule:")
        for x in rep.get("schedule", []):
            print("  " + x)
        print("`%s` on the current tree -> %s" % (lw["op"], lw["response"]))
        rc = 1 if lw["lost"] else 0
    elif rep.get("finding") == "deadlock":
        e = rep.get("edge", {})
        still = [b for b in an["backedges"] if b["held"] == e.get("held") and b["acquired"] == e.get("acquired")]
        print("lock-order back edge %s -> %s: %s" % (e.get("held"), e.get("acquired"), "still present" if still else "gone"))
        rc = 1 if still else 0
    else:
        bad = [k for k, v in an["flags"].items() if not v]
        print("failing table checks on the current tree: %s" % (", ".join(bad) or "none"))
        rc = 1 if bad else 0
    return rc
