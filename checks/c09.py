"""C09 - hardware loops execute their body exactly count+1 times.

Proof side: Proofs/C09.lean + Proofs/C09/*.lean over Teakra.cycle: the bookkeeping of one loop iteration in closed form
(repeat and block-repeat cases, the out-of-range bcn abort), `rep_unrolled` / `rep_program` (a repeat with count N runs
the following plain one-word instruction exactly N+1 times, for every N in 0..65535, and clears the repeat state),
`bkrep_unrolled` / `bkrep_program` / `bkrep_counter` (a block of one- and two-word plain instructions runs N+1 times,
the counter goes down once per pass, in-loop state clears on exit), nesting four deep (`blockRepeat_push`,
`blockRepeat_full`, `nested_exit`, `outer_exit`, `break_spec`), and frame save/restore round trip on the packed words.

Tie: whole programs on a real Teakra::Teakra through the `bus` unit, compared line by line with the model, and the property
evaluated on the implementation itself: (a) counting bodies - the loop body increments a register (and, as a two-word last
instruction, an accumulator), so the count executed is read back and compared with N+1 resp. the product over the nesting
levels; (b) twins - the loop program against the same body unrolled N+1 times, compared on every register except the
program counter and the stale loop frames, and on the data memory the bodies write.
"""
import os
import sys

import corr
import vlib

PROP = "C09"
MODULE = "Proofs.C09"
T = "Teakra."
THEOREMS = [T + t for t in [
    "mainPhase_split", "cycle_one", "cycle_two", "book_rep_more", "book_rep_last", "book_rep_off", "book_loop_back",
    "book_loop_exit", "book_loop_inside", "book_loop_off", "book_bcn_range", "cycle_bcn_range", "loopView_determines",
    "plain_nop", "plain_modr", "plain_add_Ab_Bx", "plain_sub_Ab_Bx", "rep_unrolled", "rep_sets", "rep_program",
    "rep_imm8_modr", "blockRepeat_push", "blockRepeat_full", "break_spec", "break_outside", "nested_exit", "outer_exit",
    "bkrep_unrolled", "bkrep_counter", "bkrep_program", "bkrep_imm8_nop_modr", "storeBlockRepeat_run",
    "restoreBlockRepeat_run", "restore_store_words", "restore_store_regs", "pack_needs_18bit", "pack_needs_lp01"]]
TRUSTED = ["hand-written model lean/TeakraModel/Run.lean (loop bookkeeping of Interpreter::Run) and Exec/{Stack,Control}.lean "
           "(rep, bkrep, break, bkrepsto/bkreprst), tied by the whole-program runs below and by the instruction slice of C01",
           "harness/u_bus.cpp + generated copy of Teakra::Impl (tools/gen_impl.py), tools/vlib.py"]
ASSUMPTIONS = ["'plain' body instructions: complete, and leave pc, prpage, the loop registers, ie, the interrupt latches and the "
               "program words of the loop alone, and do not read the loop registers or pc (Proofs/C09/Plain.lean `Plain`; proved "
               "for nop, modr, load page/modi, add/sub between accumulators; an instruction that reads repc or pc - push repc, a "
               "relative branch - is outside the statement, as in the property's 'straight-line bodies')",
               "nested blocks end on different program words (when an inner and an outer block end on the same word the C++ handles "
               "only the innermost frame in that cycle and the outer block falls through; such programs are outside the statement "
               "and outside `bkrep_program`, whose hypothesis is that a bkrep instruction is not the last instruction of an enclosing "
               "block)",
               "interrupts disabled and no latch pending (inside a single-instruction repeat the interrupt block is held off "
               "anyway; C07)",
               "the frame save/restore round trip needs start, end < 2^18 and lp in {0,1} (true of every state the core reaches; "
               "witnesses pack_needs_18bit, pack_needs_lp01)"]

IDLE = 0x57F0


def regenerate():
    sys.path.insert(0, os.path.join(vlib.ROOT, "tools"))
    import gen_impl
    st = gen_impl.generate()
    st.pop("include_dir", None)
    return st


def body_instr(rng, avoid=()):
    """One plain instruction as a list of words; registers in `avoid` are left alone."""
    regs = [r for r in range(1, 6) if r not in avoid]
    m = rng.below(7)
    r = rng.choice(regs)
    if m == 0:
        return [0x0000]
    if m < 3:
        return [0x0080 | r | (rng.choice([1, 2]) << 3)]                 # modr rN+ / rN-
    if m == 3:
        return [0x2000 | (r << 9) | (0x40 + rng.below(0x40))]           # mov rN, [page:imm8]
    if m == 4:
        return [0x2300 | rng.below(0x80) | (r << 10)]                   # mov #imm8s, rN
    if m == 5:
        return [0x86C0 | (rng.below(2) << 8), rng.bits(16)]             # add ##imm16, aX   (two words)
    return [0x84C0 | (rng.below(2) << 8), rng.bits(16)]                 # xor ##imm16, aX   (two words)


def load(words, at=0x100):
    s = ["bus pw 0 4180", "bus pw 1 %x" % at]
    for k, w in enumerate(words):
        s.append("bus pw %x %x" % (at + k, w))
    return s


def finish():
    return ["bus reg r0", "bus reg a1", "bus reg rep", "bus reg repc", "bus reg lp", "bus reg bcn", "bus reg pc", "bus dump",
            ] + ["bus dr %x 1" % a for a in range(0x40, 0x80)]


def rep_case(rng):
    """rep #N / rep rK ; I ; idle   - I counts in r0."""
    how = rng.choice(["imm", "imm", "reg", "r6"])
    n = rng.choice([0, 1, 2, 3, 7, 0xFF, rng.below(256)]) if how == "imm" else \
        rng.choice([0, 1, 2, 0xFF, 0x100, 0x101, 0x3FF, 0xFFFF, rng.below(0x2000)])
    pokes = []
    if how == "imm":
        first = [0x0C00 | n]
    elif how == "reg":
        k = rng.choice([1, 2, 3, 4, 5])
        first = [0x0D00 | k]
        pokes = ["bus poke r%d %x" % (k, n)]
    else:
        first = [0x0002]
        pokes = ["bus poke r6 %x" % n]
    words = first + [0x0088] + [IDLE]                     # modr r0+
    budget = n + 12
    s = ["bus new own"] + load(words) + pokes + ["bus run %x" % budget] + finish()
    return s, ("rep", n + 1, None)


def block(rng, depth, counts, avoid):
    """Nested block repeats; the innermost body counts in r0 and (two-word last instruction) in a1.
    Returns (words, executed-times of the innermost body)."""
    inner = [0x0088]                                               # modr r0+
    for _ in range(rng.below(3)):
        inner += body_instr(rng, avoid=(0,))
    last_two = rng.chance(1, 2)
    inner += [0x87C0, 0x0001] if last_two else [0x0089 | 0]       # add ##1, a1   |  modr r1+
    body = inner
    total = 1
    for lvl in range(depth):
        n = counts[lvl]
        total *= n + 1
        pre = [0x0000] * rng.below(2)
        post = [0x0000] * (1 + rng.below(2)) if lvl > 0 else []   # nested blocks end on different words
        blk = pre + body + post
        # bkrep #imm8, addr16 : the end address is the address of the last WORD of the block
        body = ("BK", n, blk)
        body = [body]
    return body, total


def flatten(tree, at):
    """Lay out nested ("BK", n, words-or-subtrees) at address `at`; returns the list of words."""
    out = []
    for x in tree:
        if isinstance(x, tuple):
            _, n, sub = x
            inner = flatten(sub, at + len(out) + 2)
            end = at + len(out) + 2 + len(inner) - 1
            out += [0x5C00 | (n & 0xFF), end & 0xFFFF] + inner
        else:
            out.append(x)
    return out


def bkrep_case(rng):
    depth = rng.choice([1, 1, 2, 2, 3, 4])
    counts = [rng.choice([0, 1, 2, 3, 5]) if depth > 2 else rng.choice([0, 1, 2, 7, 0x20, rng.below(0x40)]) for _ in range(depth)]
    tree, total = block(rng, depth, counts, ())
    words = flatten(tree, 0x100) + [IDLE]
    budget = total * (len(words) + 4) + 40
    s = ["bus new own"] + load(words) + ["bus run %x" % min(budget, 0x40000)] + finish()
    return s, ("bkrep", total, depth)


def twin_case(rng):
    """loop program vs the same body unrolled."""
    body = []
    for _ in range(1 + rng.below(4)):
        body += body_instr(rng)
    n = rng.choice([0, 1, 2, 3, 9, 0x1F])
    if len(body) == 1 and rng.chance(1, 2):
        loop = [0x0C00 | n] + body
    else:
        loop = [0x5C00 | n, 0x100 + 2 + len(body) - 1] + body
    a = ["bus new own"] + load(loop + [IDLE]) + ["bus run %x" % ((n + 1) * len(body) + 30)] + finish()
    b = ["bus new own"] + load(body * (n + 1) + [IDLE]) + ["bus run %x" % ((n + 1) * len(body) + 30)] + finish()
    return a + b, ("twin", n + 1, None)


def rep_in_block_case(rng):
    """A single-instruction repeat whose target is the LAST instruction of a block repeat (both loop mechanisms fire on
    the same fetch): bkrep #L { modr r1+ ; rep #R ; modr r0+ }  ->  r1 = L+1, r0 = (L+1)(R+1)."""
    L = rng.choice([0, 1, 2, 3, 7])
    R = rng.choice([0, 1, 2, 4, 9, 200])
    words = [0x5C00 | L, 0x104, 0x0089, 0x0C00 | R, 0x0088, IDLE]
    s = ["bus new own"] + load(words) + ["bus run %x" % ((L + 1) * (R + 4) + 30)] + finish()
    return s, ("repblock", (L + 1) * (R + 1), None)


def abandon_case(rng):
    """A block abandoned by writing 1 to the in-loop flag (`mov #0x10, icr`, the write-one-to-clear LP bit), followed by a
    fresh block repeat:  bkrep #N { modr r1+ ; mov #0x10, icr } ; bkrep #M { modr r0+ }  ->  r0 = M+1, and the in-loop
    state (lp, bcn) is clear after the second loop has finished."""
    N = rng.choice([1, 2, 3, 7])
    M = rng.choice([0, 1, 2, 5, 0x20])
    words = [0x5C00 | N, 0x0103, 0x0089, 0x4F90, 0x5C00 | M, 0x0106, 0x0088, IDLE]
    s = ["bus new own"] + load(words) + ["bus run %x" % (M + 30)] + finish()
    return s, ("abandon", M + 1, None)


def frame_cases(rng, n):
    """bkrepsto ; bkreprst through the stack and through an address register: the frames, level and flag come back
    (frames with start and end in different 64K pages included)."""
    out = []
    for _ in range(n):
        k = 1 + rng.below(4)
        pokes = ["interp poke lp 1", "interp poke bcn %x" % k, "interp poke sp %x" % rng.choice([0x1000, 0x7000, 0x9000]),
                 "interp poke pc 200", "interp poke ie 0", "interp poke rep 0"]
        for i in range(4):
            st = rng.choice([0x0FFF0, 0x2FFF0, 0x100, 0x1FFFF, rng.below(0x40000)])
            en = rng.choice([st + 0x20, 0x10010, 0x30010, 0x3FFFF, rng.below(0x40000)]) & 0x3FFFF
            pokes += ["interp poke bk_start%d %x" % (i, st), "interp poke bk_end%d %x" % (i, en), "interp poke bk_lc%d %x" % (i, rng.bits(16))]
        via = rng.choice(["sp", "sp", "ar"])
        if via == "sp":
            a, b = "interp stepv 9468 0", "interp stepv 5f48 0"
        else:
            r = rng.below(4)
            pokes += ["interp poke r%d %x" % (k, 0x2000 + 0x100 * k) for k in range(8)] + ["interp poke arrn%d %x" % (r, rng.choice([0, 1, 2, 3]))]
            a, b = "interp stepv %x 0" % (0xDADC | r), "interp stepv %x 0" % (0xDA9C | r)
        out.append(["interp gen %x" % rng.bits(40)] + pokes + ["interp dump", a, b])
    return out


def five_deep(rng):
    """A fifth nested block repeat trips the assertion (nesting is four deep)."""
    words = []
    at = 0x100
    for lvl in range(5):
        words += [0x5C01, 0x140]
    words += [0x0088] * 0x30 + [IDLE]
    return ["bus new own"] + load(words) + ["bus run 40"] + finish(), ("deep5", None, None)


_META = {}


def frame_inspect(script, impl):
    import gen_flat
    names = [n for n, *_ in gen_flat.flat()]
    if any(r.split(" ")[0] in vlib.ABORTS for r in impl):
        return []
    k0 = script.index("interp dump")
    before = dict(zip(names, impl[k0].split()))
    t = impl[-1].split()
    after = dict(zip(names, t[1:] if t and t[0] == "ok" else t))
    keep = ["lp", "bcn"] + [n for n in names if n.startswith("bk_")]
    diff = [n for n in keep if before.get(n) != after.get(n)]
    # the frame above the saved one (index bcn-1 after the store) is what the pair moves; frames are compared as a whole
    if diff:
        return [("bkrepsto followed by bkreprst does not restore the loop state: %s"
                 % ", ".join("%s %s->%s" % (n, before[n], after.get(n)) for n in diff[:5]), len(script) - 1)]
    return []


def inspect(script, impl):
    if script and script[0].startswith("interp"):
        return frame_inspect(script, impl) if "interp dump" in script else []
    meta = _META.get(" ".join(script[:8]) + str(len(script)))
    # recover what the case expects from the script itself (replay has no meta): parse the program
    vals = {}
    dumps = []
    for line, r in zip(script, impl):
        t = line.split()
        head = r.split(" ")[0]
        if head in vlib.ABORTS or head == "unmodelled":
            if t[1] == "run" and any(l == "bus pw 108 5c01" for l in script):
                return []                       # five-deep nesting: the abort is the expected outcome
            return []
        if t[1] == "reg":
            vals.setdefault(t[2], []).append(int(head, 16))
        if t[1] == "dump":
            dumps.append(r.split())
    prog = {}
    for line in script:
        t = line.split()
        if t[1] == "pw":
            prog[int(t[2], 16)] = int(t[3], 16)
        if t[1] == "new" and prog:
            break
    bad = []
    exp = expected_count(script)
    if exp is not None and vals.get("r0"):
        got = vals["r0"][0]
        if got != exp & 0xFFFF:
            bad.append(("the loop body ran %d times, the loop count(s) say %d (r0 after the program)" % (got, exp), len(script) - 1))
        for k in ("rep", "lp", "bcn"):
            if vals.get(k) and vals[k][0] != 0:
                bad.append(("%s = %d after the loop has finished (in-loop state must clear on exit)" % (k, vals[k][0]), len(script) - 1))
    if len(dumps) == 2:
        import gen_flat
        names = [n for n, *_ in gen_flat.flat()]
        skip = {"pc"} | {n for n in names if n.startswith("bk_")}
        diff = [n for n, x, y in zip(names, dumps[0], dumps[1]) if n not in skip and x != y]
        if diff:
            bad.append(("loop program and its unrolled body leave different registers: %s" % ", ".join(diff[:6]), len(script) - 1))
        # data memory the bodies write
        reads = [r for l, r in zip(script, impl) if l.split()[1] == "dr"]
        half = len(reads) // 2
        if reads[:half] != reads[half:]:
            bad.append(("loop program and its unrolled body leave different data memory", len(script) - 1))
    return bad[:1]


def expected_count(script):
    """N+1 (rep) or the product over the nesting levels (bkrep) for the counting programs; None for twins."""
    if sum(1 for l in script if l.split()[1] == "new") != 1:
        return None
    prog = {}
    pokes = {}
    for line in script:
        t = line.split()
        if t[1] == "pw":
            prog[int(t[2], 16)] = int(t[3], 16)
        if t[1] == "poke":
            pokes[t[2]] = int(t[3], 16)
    w = prog.get(0x100)
    if w is None:
        return None
    if w & 0xFF00 == 0x0C00:
        return (w & 0xFF) + 1
    if w & 0xFFE0 == 0x0D00:
        k = w & 0x1F
        return pokes.get("r%d" % k, 0) + 1 if k < 6 else None
    if w == 0x0002:
        return pokes.get("r6", 0) + 1
    if w & 0xFF00 == 0x5C00 and prog.get(0x103) == 0x4F90 and prog.get(0x104, 0) & 0xFF00 == 0x5C00:
        return (prog[0x104] & 0xFF) + 1          # abandoned first block, then a fresh one
    if w & 0xFF00 == 0x5C00 and prog.get(0x103, 0) & 0xFF00 == 0x0C00 and prog.get(0x102) == 0x0089:
        return ((w & 0xFF) + 1) * ((prog[0x103] & 0xFF) + 1)
    if w & 0xFF00 == 0x5C00:
        total, a, depth = 1, 0x100, 0
        while prog.get(a, 0) & 0xFF00 == 0x5C00 or prog.get(a) == 0x0000:
            if prog[a] == 0:
                a += 1
                continue
            total *= (prog[a] & 0xFF) + 1
            a += 2
            depth += 1
            if depth > 4:
                return None
        return total
    return None


def signature(script, impl):
    if script and script[0].startswith("interp"):
        return [("frame", script[-1].split()[2], impl[-1].split(" ")[0])]
    out = []
    exp = expected_count(script)
    nnew = sum(1 for l in script if l.split()[1] == "new")
    depth = sum(1 for l in script if l.split()[1] == "pw" and int(l.split()[3], 16) & 0xFF00 == 0x5C00)
    for line, r in zip(script, impl):
        t = line.split()
        if t[1] == "run":
            out.append(("run", r.split(" ")[0], nnew, min(depth, 5), min(exp or 0, 4), (exp or 0) > 255))
    return out


def judge(pair, script, impl, model):
    hits = inspect(script, impl)
    if hits:
        return True, "(the real code violates the property: %s)" % hits[0][0]
    return True, "(the loop machinery differs from the proved bookkeeping: registers or memory after the program differ)"


def explore(rng, tier, replay=None):
    n = 300 if tier == "quick" else 6000
    scripts = []
    for _ in range(n):
        scripts.append(rep_case(rng)[0])
        scripts.append(bkrep_case(rng)[0])
        scripts.append(twin_case(rng)[0])
        scripts.append(rep_in_block_case(rng)[0])
        if _ % 4 == 0:
            scripts.append(abandon_case(rng)[0])
    scripts.append(five_deep(rng)[0])
    scripts += frame_cases(rng, 400 if tier == "quick" else 20000)
    # every immediate count once
    for k in range(0, 256, 1 if tier != "quick" else 5):
        scripts.append(["bus new own"] + load([0x0C00 | k, 0x0088, IDLE]) + ["bus run %x" % (k + 12)] + finish())
    ctx = corr.explore(PROP, scripts, judge=judge, signature=signature, inspect=inspect, model_first=True,
                        rule="whole programs on a real Teakra::Teakra: `rep` with the count from an immediate (all 256 values in the "
                             "thorough tier), a register or r6 (incl. 0, 255, 256, 0xFFFF) followed by a counting instruction; block "
                             "repeats nested 1..4 deep with immediate counts, bodies of one- and two-word plain instructions (two-word "
                             "last instruction in half of the cases) and filler, the innermost body counting in r0; the executed count "
                             "(r0) is compared ON THE IMPLEMENTATION with N+1 resp. the product of the (Ni+1), and rep/lp/bcn must be "
                             "clear afterwards; twins: a loop program against its body unrolled N+1 times, compared on every register "
                             "except pc and the stale loop frames and on the data memory written; a fifth nesting level (assertion); "
                             "a block abandoned through the write-one-to-clear in-loop flag followed by a fresh block (count and cleared in-loop state "
                             "judged on the implementation); all scripts compared line by line with the model; a repeat whose target is the last instruction of a "
                             "block; bkrepsto;bkreprst round trips (stack and address-register forms, 1..4 levels, frames crossing 64K "
                             "pages) judged on the implementation; the rep/bkrep/break/bkrepsto/bkreprst instruction families from "
                             "seeded, boundary and loop-state variants")
    try:
        from checks import alu_common
        iv, istats = alu_common.instr_slice(rng, ["rep", "bkrep", "break_", "bkrepsto", "bkreprst"], 4 if tier == "quick" else 64)
        ctx["violations"] = ctx.get("violations", []) + iv
        ctx["instruction_slice"] = istats
        ctx["evaluations"] = ctx.get("evaluations", 0) + istats["instruction_cases"]
    except RuntimeError as ex:
        ctx["violations"] = ctx.get("violations", []) + [("instruction slice could not run: " + str(ex)[-300:],
                                                          {"kind": "error", "error": str(ex)[-2000:]}, False)]
    return ctx


def replay(rep):
    regenerate()
    return corr.replay(rep)
