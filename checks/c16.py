"""C16 — audio FIFO: every queued word is output once, in order, one frame per period."""
import corr

PROP = "C16"
MODULE = "Proofs.C16"
NS = "Teakra.Btdmp."
THEOREMS = [NS + t for t in [
    "send_spec", "full_drop", "flush_silent", "apply_flush",
    "inv_reset", "inv_send", "inv_flush", "inv_setEnable", "inv_setPeriod", "inv_setClockConfig",
    "inv_tick", "inv_skip", "inv_apply", "flags_exact", "flags_exact_from_reset",
    "tickFrame_spec", "tick_frame", "tick_cfg", "clk_tick", "slot_irq_iff", "empty_irq_iff",
    "ticks_closed", "ticks_disabled", "one_frame_per_period", "frame_count", "irq_count",
    "horizon_frames", "skip_eq_ticks", "skip_eq_ticks_finite", "skip_eq_ticks_empty_queue",
    "horizon_keeps_one", "horizon_tight",
    "Fifo.conservation", "fifo_no_loss",
    "run_fast_eq_slow", "runC_no_assert", "runC_sub_run",
    "skip_ne_ticks_timer_ge_period", "skip_wrap_counterexample", "skip_beyond_horizon_asserts"]]
TRUSTED = ["hand-written model lean/TeakraModel/Btdmp.lean of src/btdmp.cpp / src/btdmp.h, tied by the `btdmp` correspondence slice",
           "harness/u_btdmp.cpp, tools/vlib.py (comparison), g++ 12"]
ASSUMPTIONS = ["audio_callback and interrupt_handler are installed and are pure logging / counting callbacks",
               "fast-forward theorems assume 1 <= transmit_period and transmit_timer < transmit_period (invariant of every "
               "operation except a SetTransmitPeriod write of a value <= timer; the facade never writes the period, it is "
               "constant 4096); outside it Skip != Ticks (proved witness skip_ne_ticks_timer_ge_period, also run on the real code)",
               "Skip with transmit_enable != 0 and transmit_period == 0 divides by zero (UB): never executed, both sides answer `oob`",
               "a skip over an infinite horizon must not wrap transmit_timer + ticks past 2^64 (skip_wrap_counterexample; "
               "not executable on the real code)",
               "CoreTiming::Skip never asks the port to skip beyond the horizon it reported (checked for the real CoreTiming by C06)"]

SMALL = [1, 2, 3, 4, 5, 6, 7, 8]
BIG = [1000, 4096, 65535]
WORDPOOL = [0, 1, 0x7FFF, 0x8000, 0xFFFF, 0x1234]


def word(rng):
    return rng.choice(WORDPOOL) if rng.chance(1, 4) else rng.bits(16)


def gen_period(rng):
    m = rng.below(16)
    if m < 9:
        return rng.choice(SMALL)
    if m < 15:
        return rng.choice(BIG)
    return rng.choice([0, 0, 9, 0x8000, rng.bits(16)])      # excluded / other points


def gen_timer(rng, p):
    if p == 0:
        return rng.choice([0, 1, 0xFFFF, rng.bits(16)])
    if rng.chance(1, 16):                                   # excluded point: timer >= period
        return min(0xFFFF, p + rng.choice([0, 1, 2, rng.below(70000)]))
    if p <= 8:
        return rng.below(p)
    return rng.choice([0, 1, 2, p - 2, p - 1, rng.below(p), rng.below(p)])


def gen_state(rng):
    p = gen_period(rng)
    t = gen_timer(rng, p)
    en = rng.choice([1, 1, 1, 1, 0, 0x8000, 0xFFFF])
    n = rng.below(17) if not rng.chance(1, 24) else 17 + rng.below(4)
    if rng.chance(1, 6):
        n = rng.choice([0, 1, 2, 3, 15, 16])
    ws = [word(rng) for _ in range(n)]
    if rng.chance(1, 20):   # inconsistent flags (outside the invariant)
        return "btdmp new %x %x %x %x %x %x%s" % (rng.bits(16), p, t, en, rng.below(2), rng.below(2),
                                                  "".join(" %x" % w for w in ws))
    return "btdmp set %x %x %x %x%s" % (rng.bits(16), p, t, en, "".join(" %x" % w for w in ws))


def gen_r(rng):
    m = rng.below(6)
    if m == 0:
        return rng.below(20)
    if m == 1:
        return rng.below(300)
    if m == 2:
        return rng.below(40000)
    if m == 3:
        return rng.bits(20)
    if m == 4:
        return rng.bits(34)
    return rng.choice([4095, 4096, 4097, 8191, 8192, 65534, 65535, 65536, 0xFFFFFFFFFFFFFFFF])


def gen_script(rng, n):
    s = [gen_state(rng)]
    for _ in range(n):
        m = rng.below(40)
        if m < 8:
            s.append("btdmp send %x" % word(rng))
        elif m < 9:
            s += ["btdmp send %x" % word(rng) for _ in range(rng.below(18))]
        elif m < 11:
            s.append("btdmp flush %x" % rng.bits(16) if rng.chance(1, 2) else "btdmp flush")
        elif m < 13:
            s.append("btdmp enable %x" % rng.choice([0, 1, 1, 1, 0xFFFF, rng.bits(16)]))
        elif m < 14:
            s.append("btdmp period %x" % gen_period(rng))
        elif m < 15:
            s.append("btdmp clock %x" % rng.bits(16))
        elif m < 21:
            s.append("btdmp tick")
        elif m < 22:
            s += ["btdmp tick"] * rng.below(12)
        elif m < 24:
            s.append("btdmp maxskip")
        elif m < 25:
            s.append("btdmp get")
        elif m < 30:
            s.append("btdmp ff %x %x" % (rng.choice([0, 1, 2, 2, 3, 4, 4, 5]), gen_r(rng)))
        elif m < 38:
            s.append("btdmp ffcheck %x %x" % (rng.choice([0, 1, 2, 2, 3, 4, 4]), gen_r(rng)))
        elif m < 39:
            s.append("btdmp reset")
        else:
            s.append(gen_state(rng))
    return s


def exhaustive_scripts():
    """periods 1..8 x all phases x all fills 0..16, transmission on: every k in 0..horizon compared with k
    ticks on the real code, the full horizon, one step beyond it (must assert), and a tick-by-tick walk through
    every frame until the queue has drained (frames, interrupt on the emptying pop, flags)."""
    out = []
    for p in SMALL:
        for t in range(p):
            for n in range(17):
                ws = [((i + 1) * 0x1111) & 0xFFFF for i in range(n)]
                st = "btdmp set 0 %x %x 1%s" % (p, t, "".join(" %x" % w for w in ws))
                if n == 0:
                    s = [st, "btdmp maxskip"]
                    for k in range(3 * p + 2):
                        s += [st, "btdmp ffcheck 4 %x" % k]
                else:
                    h = (p - t - 1) + ((n + 1) // 2 - 1) * p
                    s = [st, "btdmp maxskip", "btdmp ffcheck 2 0"]
                    for k in range(h + 1):
                        s += [st, "btdmp ffcheck 4 %x" % k]
                    s += [st, "btdmp ff 5 0"]
                s += [st] + ["btdmp tick"] * (9 * p + 1)
                out.append(s)
    # the same at the big periods for the boundary phases and all fills (full horizon and horizon-1)
    for p in BIG:
        for t in (0, 1, p - 2, p - 1):
            for n in range(17):
                ws = [((i + 1) * 0x1111) & 0xFFFF for i in range(n)]
                st = "btdmp set 0 %x %x 1%s" % (p, t, "".join(" %x" % w for w in ws))
                s = [st, "btdmp maxskip", "btdmp ffcheck 2 %x" % (p + 1), st, "btdmp ffcheck 3 %x" % (2 * p),
                     st, "btdmp ffcheck 1 0", st, "btdmp ffcheck 0 0"]
                if n:
                    s += [st, "btdmp ff 5 0"]
                out.append(s)
    return out


# ---------------------------------------------------------------------------- reading answers

def parse_dump(rt):
    """tokens of a canonical dump starting at `ok` -> dict, or None"""
    try:
        if rt[0] != "ok" or len(rt) < 9:
            return None
        n = int(rt[8], 16)
        return {"irq": int(rt[1], 16), "period": int(rt[3], 16), "timer": int(rt[4], 16),
                "enable": int(rt[5], 16), "empty": rt[6] == "1", "full": rt[7] == "1", "n": n,
                "frames": int(rt[9 + n], 16)}
    except (ValueError, IndexError):
        return None


def state_of_set(t):
    try:
        v = [int(x, 16) for x in t[2:]]
    except ValueError:
        return None
    if t[1] == "set" and len(v) >= 4:
        n = len(v) - 4
        return {"period": v[1], "timer": v[2], "enable": v[3], "empty": n == 0, "full": n == 16, "n": n}
    if t[1] == "new" and len(v) >= 6:
        n = len(v) - 6
        return {"period": v[1], "timer": v[2], "enable": v[3], "empty": v[4] != 0, "full": v[5] != 0, "n": n}
    return None


def in_contract(st):
    return (st is not None and st["n"] <= 16 and st["empty"] == (st["n"] == 0) and st["full"] == (st["n"] == 16)
            and 1 <= st["period"] and st["timer"] < st["period"])


def pclass(p):
    return p if p <= 8 else ("big" if p in BIG else "other")


def walk(script, impl):
    """yield (line tokens, answer tokens, state before the op as seen by the implementation)"""
    st = None
    for line, r in zip(script, impl):
        t = line.split()
        rt = r.split()
        yield t, rt, st
        if t[1] in ("set", "new"):
            st = state_of_set(t)
        elif rt and rt[0] in ("assert", "oob", "unimpl"):
            st = None
        elif rt and rt[0] == "k" and len(rt) > 3:
            # ff: `k K ok …`; ffcheck: `k K same ok …` / `k K DIFF skip: ok … ticks: ok …` (state = after Skip)
            off = {"ok": 2, "same": 3, "DIFF": 4}.get(rt[2])
            st = parse_dump(rt[off:]) if off else None
        elif rt and rt[0] == "ok":
            st = parse_dump(rt)


def signature(script, impl):
    out = []
    for t, rt, st in walk(script, impl):
        if st is None or not rt:
            continue
        base = (t[1], pclass(st["period"]), st["n"], st["enable"] != 0, in_contract(st))
        phase = "first" if st["timer"] == 0 else ("last" if st["timer"] + 1 == st["period"] else
                                                  ("over" if st["timer"] >= st["period"] else "mid"))
        if t[1] in ("ff", "ffcheck") and rt[0] == "k":
            out.append(base + (phase, min(int(rt[1], 16), 3), rt[2]))
        elif t[1] in ("ff", "ffcheck"):
            out.append(base + (phase, rt[0]))
        elif t[1] == "tick" and rt[0] == "ok":
            d = parse_dump(rt)
            if d:
                out.append(base + (phase, d["frames"], d["irq"]))
        elif t[1] == "send":
            out.append(base)
    return out


def contract_diffs(scripts, answers):
    """Direct evaluation of the property on the implementation's own answers: a `DIFF` (Skip(k) != k Ticks) or an
    `assert` on an `ffcheck` from a state inside the contract is a failing input.  Returns
    (failing [(script index, line index)], number of in-contract evaluations, DIFFs at excluded points)."""
    bad, n_in, n_excl = [], 0, 0
    for si, (s, a) in enumerate(zip(scripts, answers)):
        for li, (t, rt, st) in enumerate(walk(s, a)):
            if t[1] != "ffcheck" or not rt or st is None:
                continue
            if in_contract(st):
                n_in += 1
                if rt[0] == "assert" or (rt[0] == "k" and rt[2] == "DIFF"):
                    bad.append((si, li))
            elif rt[0] == "k" and rt[2] == "DIFF":
                n_excl += 1
    return bad, n_in, n_excl


def judge(pair, script, impl, model):
    """A disagreement on `ffcheck` where the implementation itself reports DIFF is a failing input of the
    property (Skip(k) != k ticks on the real code).  For every other operation the model is the proved
    specification (frame contents, flags, interrupt count, horizon), so a disagreement is a failing input too."""
    last = impl[-1] if impl else ""
    if " DIFF " in last:
        return True, "(the real Btdmp::Skip differs from the same number of real Btdmp::Tick calls)"
    probe = script[:-1] + ["btdmp ffcheck 0 0", "btdmp ffcheck 1 1", "btdmp ffcheck 2 0", "btdmp ffcheck 4 7"]
    a, _, _, _ = pair.run([probe], shards=1)
    if any(" DIFF " in r for r in a[0][len(script) - 1:]):
        return True, "(a skip within the horizon on the real code differs from single ticks near this state)"
    op = script[-1].split()[1]
    if op in ("tick", "send", "flush", "reset", "enable", "period", "clock", "get", "maxskip"):
        return True, "(per-operation behaviour differs from the proved specification)"
    return False, ""


RULE = ("exhaustive part: periods 1..8 x every phase x every fill 0..16 (distinct words), transmission on: Skip(k) vs k "
        "Ticks on the real code for every k in 0..horizon, horizon+1 (must assert), and a tick-by-tick walk through all "
        "frames until the queue has drained; periods 1000/4096/65535 at the boundary phases x every fill for k in "
        "{0,1,h-1,h}.  random part: btdmp histories (state from periods 1..8 / {1000,4096,65535} / rare excluded points "
        "(period 0, timer >= period, inconsistent flags, >16 words), every fill and phase; then sends incl. bursts past 16, "
        "flushes, enable / period / clock writes, ticks, horizon queries, skips chosen relative to the reported horizon: "
        "0, 1, h-1, h, random<=h, h+1); `ffcheck` evaluates the property on the implementation itself.  distinct = (op, "
        "period class, fill, enabled, in-contract, phase class, k class / frames / irq, outcome) signatures seen in the "
        "implementation's answers")


def explore(rng, tier, replay=None):
    n = 2500 if tier == "quick" else 60000
    ex = exhaustive_scripts()
    scripts = ex + [gen_script(rng, 6 + rng.below(24)) for _ in range(n)]
    holder = {}

    def sig(s, r):
        holder.setdefault("seen", []).append((s, r))
        return signature(s, r)
    ctx = corr.explore(PROP, scripts, judge=judge, signature=sig, rule=RULE)
    seen = holder.get("seen", [])
    bad, n_in, n_excl = contract_diffs([s for s, _ in seen], [r for _, r in seen])
    ctx["direct_property_cases"] = n_in
    ctx["exhaustive_part"] = ("%d scripts: periods 1..8 x all phases x fills 0..16, every k <= horizon" % len(ex))
    ctx["unmodelled"] = ("excluded points exercised on the real code: %d ffcheck answers `DIFF` outside the contract "
                         "(timer >= period or inconsistent flags), none inside; Skip with period 0 while enabled is never "
                         "executed (division by zero)" % n_excl)
    for si, li in bad[:3]:
        s = seen[si][0][:li + 1]
        # cut to the last resync before the failing line
        k = max(i for i, l in enumerate(s) if l.split()[1] in ("set", "new", "reset"))
        ctx["violations"].append((
            "the real Btdmp::Skip(k) within the reported horizon differs from k real Btdmp::Tick calls (or asserts): %r -> %r"
            % (s[-1], seen[si][1][li]),
            {"kind": "correspondence", "script": s[k:], "impl": seen[si][1][k:li + 1], "model": [],
             "correspondence": PROP + "/btdmp"}, True))

    try:
        from checks import c12
        fv, fstats = c12.timing_slice(rng, 150 if tier == "quick" else 4000, PROP)
        ctx["violations"] = ctx.get("violations", []) + fv
        ctx["facade_slice"] = fstats
        ctx["evaluations"] = ctx.get("evaluations", 0) + fstats["facade_scripts"]
    except RuntimeError as ex:
        ctx["violations"] = ctx.get("violations", []) + [("facade slice could not run: " + str(ex)[-300:], {"kind": "error", "error": str(ex)[-2000:]}, False)]
    return ctx

def replay(rep):
    return corr.replay(rep)
