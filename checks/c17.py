"""C17 - behaviour depends only on the call history; Reset equals a fresh machine.

Proof side: Proofs/C17.lean over TeakraModel/Sys.lean + Bus.lean: `Sys.reset` (Teakra::Reset) produces a state that does
not depend on the state before it except for what belongs to the host (external memory, callbacks), hence any history
after a Reset observes what it observes on a fresh-and-reset machine; the model's fresh machine has no free parameter
(nothing is left to the allocator), so two instances with the same history are the same function of that history.

Tie: (1) the member table - tools/scan_members.py lists every data member of the classes that make up a Teakra instance
from the current headers/sources with "has an initialiser" and "is assigned in the Reset call tree", and compares it with
the committed table checks/golden/c17_members.json that records how each member is covered (initialised, reset, modelled
as); a new member, a removed initialiser or a member dropped from Reset changes the table.  (2) twin executions on the real
code through the `bus` unit, inside one process: the same history on instances constructed on heaps pre-filled with
different bytes (`fill`), and a dirty-history-then-Reset instance against a fresh-then-Reset instance, compared on
registers, every MMIO register, all memory, interrupt latches, mailbox FIFOs and the events of the common suffix.
(3) model and implementation compared line by line on the same scripts.
"""
import json
import os
import sys

import corr
import vlib

PROP = "C17"
MODULE = "Proofs.C17"
S = "Teakra.Sys."
THEOREMS = [S + t for t in ["reset_independent", "reset_eq_fresh", "history_after_reset", "fresh_deterministic",
                            "reset_idempotent", "upstream_reset_keeps_icu"]]
TRUSTED = ["hand-written model of Teakra::Impl::Reset / Processor::Reset and of the constructors (lean/TeakraModel/Sys.lean, "
           "Bus.lean), tied by the twin executions and by the member table",
           "tools/scan_members.py (regex scan of the class bodies; fails loudly on a declaration it cannot classify)",
           "harness/u_bus.cpp, harness/drive.cpp (replaced global operator new with a selectable fill byte)"]
ASSUMPTIONS = ["host-owned state is outside the statement: the external memory behind the AHBM callbacks, the callbacks "
               "themselves, a user-supplied DSP memory buffer before the first Reset",
               "the interpreter's private idle flag is re-initialised by every Run and is not observable",
               "members of standard-library type (std::function, std::mutex, std::queue, std::bitset, std::unique_ptr) are "
               "initialised by their own default constructors"]

GOLDEN = os.path.join(vlib.ROOT, "checks", "golden", "c17_members.json")
_state = {}


def regenerate():
    sys.path.insert(0, os.path.join(vlib.ROOT, "tools"))
    import gen_impl
    import scan_members
    st = gen_impl.generate()
    st.pop("include_dir", None)
    try:
        tab = scan_members.scan(vlib.REPO)
        gold = json.load(open(GOLDEN))
        _state["members"] = scan_members.compare(tab, gold)
        _state["members_benign"] = scan_members.benign(tab, gold)
        st["members"] = len(tab)
        st["member_table_equal"] = not _state["members"]
    except Exception as ex:      # noqa: BLE001
        _state["members_error"] = str(ex)
        st["member_table_error"] = str(ex)[-300:]
    return st


# ---------------------------------------------------------------------------------------------------- histories

OFFS = [0x20, 0x24, 0x26, 0x30, 0x34, 0x36, 0x0C0, 0x0C4, 0x0C8, 0x0CC, 0x0CE, 0x0D0, 0x0D4, 0x10E, 0x110, 0x114, 0x11A,
        0x1E, 0x184, 0x186, 0x188, 0x1BE, 0x1C0, 0x1C2, 0x1C4, 0x1C6, 0x1C8, 0x1CA, 0x1CC, 0x1CE, 0x1D0, 0x1D2, 0x1D4,
        0x1D6, 0x1D8, 0x1DA, 0x1DC, 0x0E2, 0x0E4, 0x0E6, 0x200, 0x202, 0x204, 0x206, 0x208, 0x20A, 0x20C, 0x20E, 0x210,
        0x2A2, 0x2BE, 0x2C6, 0x2CA, 0x322, 0x33E, 0x346, 0x2C, 0x2E, 0x100, 0x7FE, 0x4, 0x1A]


def op(rng):
    m = rng.below(26)
    if m < 9:
        off = rng.choice(OFFS) if rng.chance(4, 5) else rng.below(0x800)
        if off == 0x11E or off == 0x112:
            off = 0x2C
        v = rng.choice([0, 1, 0xFFFF, 0x8000, 0x100, rng.bits(16), rng.bits(16) & rng.bits(16)])
        if off == 0x1BE:
            v &= 7                        # the DMA channel index is unchecked in the C++ (C18); stay inside it here
        if off in (0x20, 0x30):
            v &= ~0x3                     # time scale 0 only: other scales are unimplemented (abort)
            v = (v & ~0x1C) | (rng.below(4) << 2)
        return "bus mw %x %x" % (off, v)
    if m < 11:
        q = rng.below(16)
        return "bus mw %x %x" % (rng.choice([0x212, 0x214]) + 4 * q, rng.bits(16))
    if m < 13:
        return "bus send %x %x" % (rng.below(3), rng.bits(16))
    if m < 14:
        return "bus recv %x" % rng.below(3)
    if m < 15:
        return "bus semset %x" % rng.bits(16)
    if m < 16:
        return "bus semmask %x" % rng.bits(16)
    if m < 17:
        return "bus semclr %x" % rng.bits(16)
    if m < 19:
        return "bus pw %x %x" % (rng.choice([0, 1, 6, 7, 0x100, 0x101, rng.below(0x40000)]), rng.choice([0x57F0, 0x0088, 0x45C0, 0, 0x4380, rng.bits(16)]))
    if m < 21:
        return "bus dw %x %x 1" % (rng.bits(16), rng.bits(16))
    if m < 22:
        return "bus mw 204 %x" % (1 << rng.below(16))
    if m < 23:
        return "bus ticks %x" % rng.choice([1, 3, 17, 100])
    if m < 24:
        return "bus mw 0d4 %x" % rng.choice([0, 0x100, 0x1000, 0x2000, 0x3100])   # mailbox interrupt-disable bits
    if m < 25:
        return "bus hw16 %x %x" % (rng.bits(20), rng.bits(16))
    return "bus poke %s %x" % (rng.choice(["ie", "im0", "imv", "sp", "r0", "a0"]), rng.bits(16))


def observe(rng):
    s = ["bus state"]
    for i in range(3):
        s.append("bus ready %x" % i)
        s.append("bus peek %x" % i)
    s += ["bus mr 0d4", "bus mr 0d6", "bus mr 200", "bus mw 204 ffff", "bus latches", "bus semget"]
    for _ in range(2):
        q = rng.below(16)
        s += ["bus mr %x" % (0x212 + 4 * q), "bus mr %x" % (0x214 + 4 * q)]
    s += ["bus send 0 1234", "bus mw 0d4 0", "bus send 1 4321", "bus ticks 5", "bus state"]
    # the core after the history: a few cycles of whatever is in program memory (after a Reset: zeros = nop)
    s += ["bus run 8", "bus reg pc", "bus reg r0", "bus steps 3", "bus state"]
    return s


def history(rng, n):
    h = [op(rng) for _ in range(n)]
    if rng.chance(1, 2):
        # the core runs: a short program that parks in the idle self-branch (or a busy loop), so that the interpreter's
        # private state (idle flag, latches) is dirty too
        prog = rng.choice([["bus pw 0 57f0"], ["bus pw 0 88", "bus pw 1 57f0"], ["bus pw 0 88", "bus pw 1 57e0"],
                           ["bus pw 0 4380", "bus pw 1 57f0", "bus mw 206 400", "bus mw 24 3", "bus mw 20 604"]])
        k = rng.below(len(h) + 1)
        h[k:k] = prog + ["bus run %x" % rng.choice([3, 6, 20])]
    return h


def case(rng):
    kind = rng.choice(["fill", "fill", "reset", "reset", "reset", "both"])
    h1 = history(rng, 3 + rng.below(40))
    h2 = history(rng, rng.below(12))
    obs = observe(rng)
    fa, fb = rng.choice([(0, 0xAA), (0xFF, 0), (0x55, 0xAA), (1, 0x80)])
    mem = rng.choice(["own", "own", "user", "capi"])
    if kind == "fill":
        return (["bus fill %x" % fa, "bus newraw " + mem] + h2 + obs +
                ["bus fill %x" % fb, "bus newraw " + mem] + h2 + obs + ["bus fill 0"])
    if kind == "reset":
        return (["bus fill 0", "bus newraw " + mem] + h1 + ["bus rst"] + h2 + obs +
                ["bus fill 0", "bus newraw " + mem, "bus rst"] + h2 + obs)
    return (["bus fill %x" % fa, "bus newraw " + mem] + h1 + ["bus rst"] + h2 + obs +
            ["bus fill %x" % fb, "bus newraw " + mem, "bus rst"] + h2 + obs + ["bus fill 0"])


def corpus_like():
    """The two witnesses of the defects found on the pinned tree, always run."""
    obs = ["bus mr 24e", "bus mr 250", "bus mr 212", "bus latches", "bus state"]
    a = ["bus fill 0", "bus newraw own"] + obs + ["bus fill aa", "bus newraw own"] + obs + ["bus fill 0"]
    obs2 = ["bus mr 206", "bus mr 200", "bus mr 0d4", "bus mr 2c", "bus latches", "bus mw 204 400", "bus state"]
    b = (["bus fill 0", "bus newraw own", "bus mw 206 400", "bus mw 204 400", "bus mw 0d4 100", "bus mw 2c 1234", "bus rst"] + obs2 +
         ["bus fill 0", "bus newraw own", "bus rst"] + obs2)
    return [a, b]


# ---------------------------------------------------------------------------------------------------- judging

def split_twins(script, impl):
    """-> [(list of (line, answer) after the last `rst` (or after `newraw` if there is none))]"""
    runs = []
    cur = None
    for line, r in zip(script, impl):
        t = line.split()
        if t[1] == "newraw":
            cur = {"suffix": [], "abort": False}
            runs.append(cur)
            continue
        if cur is None or t[1] == "fill":
            continue
        if t[1] == "rst":
            cur["suffix"] = []
            continue
        head = r.split(" ")[0]
        if head in vlib.ABORTS or head in ("unmodelled", "bad-op"):
            cur["abort"] = True
        cur["suffix"].append((line, r))
    return runs


def inspect(script, impl):
    runs = split_twins(script, impl)
    if len(runs) != 2 or runs[0]["abort"] or runs[1]["abort"]:
        return []
    a, b = runs[0]["suffix"], runs[1]["suffix"]
    if [l for l, _ in a] != [l for l, _ in b]:
        return []
    for k, ((la, ra), (_, rb)) in enumerate(zip(a, b)):
        if ra != rb:
            what = "after Reset" if any(l.split()[1] == "rst" for l in script) else "straight after construction"
            fills = [l.split()[2] for l in script if l.split()[1] == "fill"][:2]
            detail = ""
            if la.split()[1] == "state":
                names = ["registers", "MMIO read-back of all peripherals", "memory", "|", "int0 latch", "int1 latch", "int2 latch",
                         "vectored latch", "vectored ctx", "vectored address"]
                fa, fb = ra.split(), rb.split()
                detail = " (differs in: %s)" % ", ".join(names[i] for i in range(min(len(fa), len(fb), len(names))) if fa[i] != fb[i])
            return [("two instances with the same call history %s observe different things ON THE IMPLEMENTATION: `%s` answers "
                     "%r on one and %r on the other%s [heap fill bytes %s; %s]"
                     % (what, la, ra[:60], rb[:60], detail, "/".join(fills),
                        "dirty history before Reset vs none" if what == "after Reset" else "same history"), len(script) - 1)]
    return []


def signature(script, impl):
    out = []
    for line, r in zip(script, impl):
        t = line.split()
        head = r.split(" ")[0]
        if t[1] in ("mw", "mr"):
            out.append((t[1], int(t[2], 16) >> 4, head in vlib.ABORTS))
        else:
            out.append((t[1], head if head in vlib.ABORTS else ""))
    return out


def judge(pair, script, impl, model):
    hits = inspect(script, impl)
    if hits:
        return True, "(the real code violates the property: %s)" % hits[0][0]
    return False, "(model and implementation differ; no property violation exhibited on the real code)"


def explore(rng, tier, replay=None):
    scripts = corpus_like()
    n = 500 if tier == "quick" else 15000
    scripts += [case(rng) for _ in range(n)]
    ctx = corr.explore(PROP, scripts, judge=judge, signature=signature, inspect=inspect, model_first=True,
                       rule="twin executions inside one process on real Teakra::Teakra instances (internally owned and user-supplied "
                            "memory): (a) the same history on two instances constructed on heaps pre-filled with different bytes "
                            "(replaced operator new), observed from straight after construction; (b) a dirty history (MMIO writes over "
                            "all peripherals incl. ICU routing/vectors, mailbox traffic and interrupt-disable bits, semaphores, DMA/AHBM "
                            "registers, program/data writes, software triggers, ticks, register pokes) then Reset, against a fresh "
                            "instance then Reset, followed by the same suffix; (c) both.  Observed: digest of all 243 register-file "
                            "fields, read-back of every MMIO offset, all 0x80000 bytes, the interrupt latches, mailbox ready/peek, "
                            "ICU pending and routing (a software trigger of all 16 requests and the signals it produces), vector "
                            "cells, a mailbox send with interrupts enabled, a few ticks.  Compared on the implementation (twin vs "
                            "twin) and line by line with the model")
    v = ctx.get("violations", [])
    if _state.get("members_error"):
        v.append(("member scan failed: " + _state["members_error"][-400:], {"kind": "error", "error": _state["members_error"]}, False))
    for d in _state.get("members", [])[:6]:
        v.append(("member table of the classes that make up a Teakra instance changed: %s - the Reset / construction model "
                  "(theorem Teakra.Sys.reset_independent) is no longer known to cover every member" % d,
                  {"kind": "model", "difference": d, "theorem": "Teakra.Sys.reset_independent",
                   "table": "checks/golden/c17_members.json"}, False))
    ctx["violations"] = v
    ctx["direct_property_cases"] = {"twin_cases": len(scripts), "member_table_differences": len(_state.get("members", [])),
                                    "member_table_benign_differences": _state.get("members_benign", [])[:20]}
    return ctx


def replay(rep):
    regenerate()
    return corr.replay(rep)
