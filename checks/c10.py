"""C10 — address registers step linearly, modulo or bit-reversed exactly as configured."""
import corr
from checks import alu_common

PROP = "C10"
MODULE = "Proofs.C10"
NS = "Teakra.Interp."
THEOREMS = [NS + t for t in [
    # log2p1 / mask
    "log2p1_spec", "lowMask_toNat",
    # zero step, linear stepping (modulo not in effect)
    "step_zero", "step_zero_amount", "step_linear", "step_linear_increase", "step_linear_decrease",
    "step_linear_increase2", "step_linear_decrease2", "step_linear_plusStep", "stepAmount_plusStep",
    "signExtend16_toInt",
    # one modulo step, Teak and TeakLite branch
    "legacyMask_one", "legacyMask_neg_one", "modStepNew_inc", "modStepNew_dec", "modStepLegacy_inc",
    "modStepLegacy_dec", "modStepNew_high", "modStepLegacy_high", "modStepNew_stays", "modStepLegacy_stays",
    "modStepNew_cyclic", "modStepLegacy_cyclic",
    # the cyclic successor / predecessor themselves
    "wrapInc_stays", "wrapDec_stays", "wrapDec_wrapInc", "wrapInc_wrapDec", "wrapInc_cyclic", "wrapDec_cyclic",
    # lifted to stepAddressPure
    "mod_inc", "mod_dec", "step_high_bits", "mod_high_bits", "mod_high_bits_unit", "highBitsAlways_partial",
    "not_highBitsAlways", "modStepLegacy_step2_mod1", "mod_stays_in_buffer", "mod_cyclic", "mod_cyclic_dec",
    "mod_inc_dec_inverse",
    # bit reversal, RnAddress, RnAndModify
    "bitReverse_involutive", "bitReverse_getElem", "rnAddress_brv", "rnAndModify_run", "rnNext_normal",
    "rnNext_endPointer", "setRn_frame", "setRn_same", "setRn_other", "zero_step_unchanged",
    "zero_step_endPointer", "rnAddressAndModify_brv", "rnAddressAndModify_plain"]]
TRUSTED = ["hand-written model of StepAddress / RnAndModify / RnAddress (lean/TeakraModel/Interp.lean: stepAmount, "
           "modStepLegacy, modStepNew, stepAddressPure), tied by the `alu step` helper sweep and the instruction slice",
           "Mathlib.Tactic.IntervalCases / SplitIfs (proof automation only; kernel-checked)"]
ASSUMPTIONS = []
PREFIXES = ["modr", "bitrev", "load_mod", "load_step", "movd", "movp", "mov_Rn", "mov_Register_Rn", "mov2", "mova",
            "exchange", "alm_Alm_Rn", "alb_Alb_Imm16_Rn", "tstb_Rn", "movs_Rn", "movr_Rn", "exp_Rn", "mul_", "max2", "min2",
            # every handler that takes an address-register operand, whatever its family: the property is about the
            # address every such instruction uses, not only about the helpers
            r"~_(Rn|RnOld|ArRn[12]|ArpRn[12]|R0123|R45|MemR7Imm16|MemR7Imm7s)(_|$)"]


def step_line(unit, addr, step, dmod, cmd, stp16, m, br, mod, stepx, stepx0, epi, epj):
    return "alu step %x %x %x %x %x %x %x %x %x %x %x %x %x" % (unit, addr, step, dmod, cmd, stp16, m, br, mod, stepx,
                                                                 stepx0, epi, epj)


def helper_scripts(rng, tier):
    out = []
    # exhaustive in the small dimensions: every mod 0..511 (both units' registers behave alike: 2 units sampled),
    # both cmd modes, the 8 step kinds, start addresses in the neighbourhood of the buffer and its boundaries
    mods = range(0, 512) if tier == "thorough" else list(range(0, 20)) + [31, 32, 33, 63, 64, 100, 127, 128, 255, 256, 300, 511]
    for mod in mods:
        top = 1 << max(1, mod.bit_length())
        addrs = sorted(set([0, 1, 2, mod - 1 if mod else 0, mod, mod + 1, top - 1, top, top + 1, 0x8000 + mod,
                            0xFE00 + (mod & 0x1FF), 0xFFFF, 0xFFFE] +
                           ([a for a in range(0, top + 2)] if (tier == "thorough" or mod < 20) else
                            [rng.below(top + 2) for _ in range(6)])))
        for cmd in (0, 1):
            for step in range(8):
                for addr in addrs:
                    unit = rng.choice([0, 3, 5, 7])
                    out.append([step_line(unit, addr & 0xFFFF, step, 0, cmd, 0, 1, 0, mod, rng.bits(7), rng.bits(16), 0, 0)])
    # plusStep with configured 7/16-bit steps, stp16, dmod, br, end-pointer modes, random everything
    n = 20000 if tier == "quick" else 1000000
    for _ in range(n):
        out.append([step_line(rng.below(8), rng.biased(16), rng.below(8), rng.below(2), rng.below(2), rng.below(2),
                              rng.below(2), rng.below(2), rng.biased(9) if rng.chance(7, 8) else rng.biased(16),
                              rng.biased(7), rng.biased(16), rng.below(2), rng.below(2))])
    for _ in range(2000):
        out.append(["alu bitrev %x" % rng.biased(16)])
    return out


def explore(rng, tier, replay=None):
    return alu_common.explore(PROP, rng, tier, helper_scripts(rng, tier), PREFIXES,
                              "helper level: RnAndModify+RnAddress called directly: every modulo value (quick: a boundary "
                              "subset of 0..511; thorough: all 512) x both compatibility modes x the 8 step kinds x start "
                              "addresses across the buffer and its power-of-two boundaries, plus random configurations with "
                              "7/16-bit configured steps, stp16, dmod, bit reversal and end-pointer modes; instruction level: "
                              "every opcode of the addressing families")


def replay(rep):
    return corr.replay(rep)
