"""C11 — DSP-side and host-side views of program and data memory are the same bytes."""
import os
import sys

import corr
import vlib

PROP = "C11"
MODULE = "Proofs.C11"
NS = "Teakra.Bus."
THEOREMS = [NS + t for t in [
    "Mem.read_write", "byte_view", "byte_setByte_same", "byte_write_other", "mem_bounds",
    "programRead_cell", "programWrite_cell", "program_oob", "program_bytes", "program_word_index", "program_alias_top_bit",
    "convert_asserts", "dataRead_cell", "dataWrite_cell", "data_cell", "data_cell_paged", "a32_mask", "a32_cell",
    "views_agree", "views_agree_bytes", "views_agree_setByte", "read_write_other", "reads_do_not_write",
    "mmio_window_write", "mmio_window_read", "mmio_write_keeps_memory", "mmio_window_bypass", "mmio_window_assert",
    "window_no_wrap", "reset_clears_memory"]]
TRUSTED = ["hand-written model lean/TeakraModel/Bus.lean (MemoryInterface, MemoryInterfaceUnit, SharedMemory) + "
           "lean/TeakraModel/Machine.lean (`Mem`, `Miu`), tied by the `bus` correspondence slice on a real Teakra::Teakra "
           "with user-supplied and internally owned memory",
           "harness/u_bus.cpp + generated harness/teakra_impl.gen.h + harness/access.hpp, tools/vlib.py (comparison), g++ 12",
           "TEAKRA_VERIF memory-observer hook of src/shared_memory.h (reports every word access; the harness turns an access "
           "with byte_address + 1 >= 0x80000 into `oob` instead of performing it)"]
ASSUMPTIONS = ["word accesses outside the 0x80000-byte array are undefined in the C++ (no bound in SharedMemory): harness and "
               "model answer `oob`; note that `word_address * 2` is computed in u32, so the top bit of a 32-bit program address "
               "is dropped and such an address aliases a cell inside the array",
               "instruction fetches and loads/stores of the core go through MemoryInterface::ProgramRead / DataRead / DataWrite "
               "(covered here); that the interpreter calls them with the addresses the instruction semantics say is C01's",
               "the same ICU-vector initialisation after `new` as for C12"]


def regenerate():
    sys.path.insert(0, os.path.join(vlib.ROOT, "tools"))
    import gen_impl
    return gen_impl.generate()


WORDS = [0, 1, 2, 0xFF, 0x100, 0xFFFF, 0x10000, 0x1FFFE, 0x1FFFF, 0x20000, 0x20001, 0x27FFF, 0x28000, 0x287FF, 0x28800,
         0x2FFFF, 0x30000, 0x30001, 0x38000, 0x3FFFE, 0x3FFFF]
BASES = [0x8000, 0, 0x800, 0x7800, 0xF000, 0xF800, 0xF801, 0xFC00, 0xFFFF, 0x1234]


def word(rng):
    m = rng.below(4)
    if m == 0:
        return rng.choice(WORDS)
    if m == 1:
        return 0x20000 + rng.below(0x20000)
    return rng.below(0x40000)


def paddr(rng):
    """32-bit program address: mostly inside, sometimes the first words outside, sometimes with the lost top bit."""
    m = rng.below(12)
    if m == 0:
        return rng.choice([0x40000, 0x40001, 0x7FFFFFFF, 0xFFFFFFFF, 0x12345678])
    if m == 1:
        return 0x80000000 | word(rng)
    return word(rng)


def daddr(rng, base):
    m = rng.below(8)
    if m == 0:
        return rng.choice([0, 1, 0x7FFF, 0x8000, 0xFFFF, 0xFFFE])
    if m == 1:
        return (base + rng.choice([-2, -1, 0, 1, 0x7FE, 0x7FF, 0x800, 0x801])) & 0xFFFF
    if m == 2:
        return (base + rng.below(0x800)) & 0xFFFF
    return rng.bits(16)


def gen(rng, n):
    kind = rng.choice(["own", "user", "capi"])   # capi: the same calls through the C binding
    seed = "" if rng.chance(1, 4) else " %x" % rng.below(1 << 20)
    s = ["bus new %s%s" % (kind, seed)]
    base = 0x8000
    for _ in range(n):
        m = rng.below(100)
        if m < 10:
            s.append("bus pw %x %x" % (paddr(rng), rng.bits(16)))
        elif m < 20:
            s.append("bus pr %x" % paddr(rng))
        elif m < 28:
            s.append("bus aw %x %x" % (rng.bits(32) if rng.chance(1, 3) else rng.below(0x20000), rng.bits(16)))
        elif m < 36:
            s.append("bus ar %x" % (rng.bits(32) if rng.chance(1, 3) else rng.below(0x20000)))
        elif m < 46:
            a = daddr(rng, base)
            byp = rng.below(2)
            inwin = base <= a < base + 0x800
            if inwin and not byp:
                # a store into the window is a register write: keep it to harmless cells here (C12 owns the registers)
                a = base + rng.choice([0x2C, 0x2E, 0x100, 0x7FE, 0x7FF, 0x24])
                if a > 0xFFFF:
                    continue
            s.append("bus dw %x %x %x" % (a, rng.bits(16), byp))
        elif m < 56:
            a = daddr(rng, base)
            byp = rng.below(2)
            if base <= a < base + 0x800 and not byp and (a - base) & 0x7FF in (0xC2, 0xC6, 0xCA):
                continue
            s.append("bus dr %x %x" % (a, byp))
        elif m < 62:
            s.append("bus raw %x" % (word(rng) * 2 + rng.below(2)))
        elif m < 66:
            s.append("bus rawset %x %x" % (word(rng) * 2 + rng.below(2), rng.bits(8)))
        elif m < 78:
            s.append("bus viewcheck %s %x %x" % (rng.choice(["pw", "aw", "raw", "dw", "dw", "dwb"]), word(rng), rng.bits(16)))
        elif m < 84:
            off = rng.choice([0x2C, 0x2E, 0x24, 0x26, 0x100, 0x1C0, 0x7FF, 0x0D4, 0x1A, 0x200, rng.below(0x800)])
            if off in (0x112, 0x11E, 0x20, 0x30) or base + off > 0xFFFF:
                continue
            s.append("bus wincheck %x %x" % (base + off, rng.bits(16)))
        elif m < 88:
            base = rng.choice(BASES)
            s.append("bus mw 11e %x" % base)
        elif m < 90:
            # banks and paging: z_page 0/1 (2: ASSERT), page mode with x/y pages
            s.append("bus mw 112 %x" % rng.choice([0, 1, 0, 1, 2, 0xFFFF]))
        elif m < 92:
            s.append("bus mw 11a %x" % rng.choice([0, 0x40, 0xFFBF, 0xFFFF]))
        elif m < 94:
            s.append("bus mw %x %x" % (rng.choice([0x10E, 0x110]), rng.choice([0, 1, 0, 1, 2])))
        elif m < 96:
            s.append("bus mw 114 %x" % rng.choice([0x1E20, 0, 0x3F3F, 0x0001, 0x0010, rng.bits(16)]))
        elif m < 97:
            s.append("bus rst")
            base = 0x8000
        elif m < 99:
            s.append("bus memdigest")
        else:
            s.append("bus digest")
    s.append("bus memdigest")
    return s


def sweep(rng, tier):
    """Deterministic sweeps: a stride through program / data space in both banks and every path, one script per
    mmio_base with the window edges, bypass on and off."""
    scripts = []
    step = 0x1555 if tier == "quick" else 0x155
    for kind in ("own", "user 7"):
        s = ["bus new " + kind]
        for w in list(range(0, 0x40000, step)) + WORDS:
            v = (w * 0x9E37 + 0x1234) & 0xFFFF
            s.append("bus viewcheck %s %x %x" % (["pw", "aw", "raw", "dw", "dwb"][w % 5], w, v))
            s.append("bus pr %x" % w)
            if w >= 0x20000:
                s.append("bus ar %x" % (w - 0x20000))
        for z in (0, 1):
            s.append("bus mw 112 %x" % z)
            for a in range(0, 0x10000, step):
                s.append("bus viewcheck dwb %x %x" % (0x20000 + 0x10000 * z + a, a ^ 0x5A5A))
                s.append("bus dr %x 1" % a)
        s.append("bus mw 112 0")
        s.append("bus memdigest")
        scripts.append(s)
    for base in BASES + ([] if tier == "quick" else list(range(0, 0x10000, 0x0800))):
        s = ["bus new own 3", "bus mw 11e %x" % base]
        for d in (-1, 0, 1, 0x2C, 0x7FE, 0x7FF, 0x800):
            a = base + d
            if a < 0 or a > 0xFFFF:
                continue
            inwin = 0 <= d < 0x800
            s.append("bus dr %x 0" % a)
            s.append("bus dr %x 1" % a)
            if inwin:
                s.append("bus wincheck %x %x" % (a, 0xA5A5 ^ d))
            else:
                s.append("bus dw %x %x 0" % (a, 0x1111 + d & 0xFFFF))
                s.append("bus dr %x 0" % a)
        s.append("bus memdigest")
        scripts.append(s)
    return scripts


def inspect(script, impl):
    bad = []
    tainted = False
    for i, (line, r) in enumerate(zip(script, impl)):
        t = line.split()
        if t[1] == "new":
            tainted = False
        if tainted:
            continue
        if r.split(" ")[0] in vlib.ABORTS:
            tainted = True
            continue
        if t[1] in ("viewcheck", "wincheck", "mirrorcheck") and r.startswith("DIFF"):
            bad.append(("memory views disagree on the real code: `%s` -> %s" % (line, r.split(" ")[0]), i))
    return bad


def signature(script, impl):
    out = []
    for line, r in zip(script, impl):
        t = line.split()
        op = t[1]
        head = r.split(" ")[0]
        if op in ("pr", "pw", "ar", "aw"):
            a = int(t[2], 16)
            out.append((op, min(a >> 16, 8), head in vlib.ABORTS))
        elif op in ("dr", "dw"):
            a = int(t[2], 16)
            out.append((op, a >> 12, t[-1], head in vlib.ABORTS, r.count("|") == 2 and r.split("|")[2].strip() == "-"))
        elif op == "viewcheck":
            out.append((op, t[2], int(t[3], 16) >> 14, head))
        elif op == "wincheck":
            out.append((op, int(t[2], 16) >> 11, head))
        else:
            out.append((op, head if head in vlib.ABORTS else ""))
    return out


def judge(pair, script, impl, model):
    hits = inspect(script, impl)
    if hits:
        return True, "(the real code violates the property: %s)" % hits[0][0]
    return False, "(model and implementation differ; no property violation exhibited on the real code)"


def instruction_slice(rng, tier):
    """'every addressing form of load/store instructions': the instructions that move words between the spaces (data
    <-> program memory with every program page half pcmhi, loads/stores through every operand form) executed on the real
    interpreter against the reference model - registers AND the ordered list of memory accesses (byte address, value)."""
    from checks import alu_common
    fam, keys, unmod = alu_common.family_scripts(rng, ["movp", "movd", "movpd", "mov_", "mov2", "mova", "movs", "movr", "push", "pop",
                                                       r"~_(MemImm8|MemImm16|MemR7Imm16|MemR7Imm7s)(_|$)"], 1 if tier == "quick" else 6)
    scripts = []
    cap = 12000 if tier == "quick" else 400000
    if len(fam) > cap:                       # keep every handler represented: stride through the family list
        step = len(fam) / float(cap)
        fam = [fam[int(i * step)] for i in range(cap)]
    for s in fam:
        scripts.append(s)
        if rng.chance(1, 2):
            # program page half, data page and the stack pointer at the places where the spaces meet
            scripts.append([s[0], "interp poke pcmhi %x" % rng.below(4), "interp poke page %x" % rng.choice([0, 0x80, 0x87, 0xFF]),
                            "interp poke sp %x" % rng.choice([0, 0x7FFF, 0x8000, 0x87FF, 0x8800, 0xFFFF])] + s[1:])
    pair = vlib.Pair("plain")
    bad, a, b, crashes = pair.diff(scripts, model_first=True)
    out = []
    from checks import c01
    for (i, kk, ia, mb) in bad[:3]:
        s2 = scripts[i][:-1] + [scripts[i][-1].replace("interp step", "interp stepv")]
        ra, rb, _, _ = pair.run([s2], shards=1)
        why = c01.field_diff(ra[0][-1], rb[0][-1])
        w = int(scripts[i][-1].split()[2], 16)
        out.append(("instruction `%s` (%s; state: %s) reaches memory differently from the reference model: %s"
                    % (scripts[i][-1], keys[w][0] if keys[w] else "?", " ; ".join(scripts[i][1:-1]) or "plain", why),
                    {"kind": "correspondence", "script": scripts[i], "impl": a[i], "model": b[i], "correspondence": "interp/step"}, True))
    return out, {"instruction_cases": len(scripts), "instruction_disagreements": len(bad)}


def explore(rng, tier, replay=None):
    scripts = sweep(rng, tier)
    n = 1200 if tier == "quick" else 30000
    for _ in range(n):
        scripts.append(gen(rng, 8 + rng.below(50)))
    ctx = _explore(scripts)
    try:
        iv, istats = instruction_slice(rng, tier)
        ctx["violations"] = ctx.get("violations", []) + iv
        ctx["instruction_slice"] = istats
        ctx["evaluations"] = ctx.get("evaluations", 0) + istats["instruction_cases"]
    except RuntimeError as ex:
        ctx["violations"] = ctx.get("violations", []) + [("instruction slice could not run: " + str(ex)[-300:],
                                                          {"kind": "error", "error": str(ex)[-2000:]}, False)]
    return ctx


def _explore(scripts):
    return corr.explore(PROP, scripts, judge=judge, signature=signature, inspect=inspect,
                        rule="sweeps: a stride over all 0x40000 word cells written through each of {ProgramWrite, DataWriteA32, raw "
                             "pointer, DataWrite, DataWrite with bypass} and read back through every view on the real code "
                             "(`viewcheck`: ProgramRead, DataReadA32 incl. a masked alias, DataRead with and without bypass, raw bytes, "
                             "the user's own buffer, and a byte-for-byte comparison of all other cells), both data banks through "
                             "z_page, user-supplied and internally owned memory; one script per mmio_base in a list of boundary "
                             "bases with loads/stores at the window edges, bypass on/off and `wincheck` (a store into the window "
                             "leaves the 0x80000 bytes alone; with bypass it reaches only the word underneath and not the register); "
                             "random scripts mixing 32-bit program addresses (incl. out-of-array and top-bit aliases), A32 addresses, "
                             "data addresses around the window, window relocation, z_page 0/1/2, page mode with x/y pages, raw byte "
                             "pokes, Reset, memory digests")


def replay(rep):
    regenerate()
    return corr.replay(rep)
