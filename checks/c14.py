"""C14 — APBP mailboxes and semaphores follow the documented handshake in both directions."""
import corr

PROP = "C14"
MODULE = "Proofs.C14"
NS = "Teakra.Apbp."
THEOREMS = [NS + t for t in [
    "step_refines", "run_refines",
    "send_sets_ready", "send_irq_iff_enabled", "recv_returns_last", "recv_clears", "peek_pure",
    "sem_accumulates", "clear_clears",
    "signal_eq", "signal_eq_upstream_counterexample", "signal_eq_upstream_false",
    "upstream_unmask_counterexample", "signal_eq_partial", "step_fixed_irrelevant",
    "irq_on_rise", "no_irq_while_zero", "irq_on_rise_upstream_counterexample", "history_semaphore",
    "runPair_proj", "runPair_signalOk", "status_bits_agree"]]
TRUSTED = ["hand-written model lean/TeakraModel/Apbp.lean of src/apbp.cpp and of the APBP cells of src/mmio.cpp / host API "
           "of src/teakra.cpp, tied by the `apbp` (stand-alone Apbp object) and `apbpsys` (real Teakra::Teakra: host API + "
           "MMIORead/MMIOWrite) correspondence slices",
           "harness/u_apbp.cpp, tools/vlib.py (comparison), g++ 12",
           "lean/Drive/Apbp.lean routing of MMIO addresses to Apbp methods (exercised by `apbpsys`, not covered by a theorem)"]
ASSUMPTIONS = ["handlers are installed on every slot and are pure logging callbacks (an empty std::function is skipped by the C++)",
               "one call at a time: the mutexes and cross-thread interleavings inside a method are not modelled",
               "channel index < 3 (the C++ indexes std::array<DataChannel,3> unchecked; larger indices are answered `oob` by "
               "harness and model without calling the code)",
               "model driver constant Drive.apbpMaskFixed selects upstream / repaired MaskSemaphore; the `…check` ops answer "
               "with the proved verdict `same` on the model side"]

SEM_POOL = [0, 1, 2, 3, 0x8000, 0xFFFF, 0x4000, 0x00F0]


def sem(rng):
    m = rng.below(4)
    if m == 0:
        return rng.choice(SEM_POOL)
    if m == 1:
        return 1 << rng.below(16)
    if m == 2:
        return rng.bits(16) & rng.bits(16)
    return rng.bits(16)


def chan(rng):
    return rng.below(3) if not rng.chance(1, 40) else rng.choice([3, 4, 0xFF, 0xFFFFFFFF])


def dis(rng):
    return rng.choice([0, 0, 1, 1, 2, 0x100, 0xFFFF])


def gen_apbp(rng, n):
    s = ["apbp new"]
    for _ in range(n):
        m = rng.below(40)
        if m < 6:
            s.append("apbp send %x %x" % (chan(rng), rng.bits(16)))
        elif m < 10:
            s.append("apbp recv %x" % chan(rng))
        elif m < 12:
            s.append("apbp peek %x" % chan(rng))
        elif m < 13:
            s.append("apbp ready %x" % chan(rng))
        elif m < 14:
            s.append("apbp getdis %x" % chan(rng))
        elif m < 17:
            s.append("apbp setdis %x %x" % (chan(rng), dis(rng)))
        elif m < 24:
            s.append("apbp semset%s %x" % (rng.choice(["", "check"]), sem(rng)))
        elif m < 29:
            s.append("apbp semclear%s %x" % (rng.choice(["", "check"]), sem(rng)))
        elif m < 35:
            s.append("apbp semmask%s %x" % (rng.choice(["", "check"]), sem(rng)))
        elif m < 36:
            s.append("apbp " + rng.choice(["semget", "maskget", "signaled"]))
        elif m < 38:
            s.append("apbp sigcheck")
        elif m < 39:
            s.append("apbp reset")
        else:
            s.append("apbp new")
    return s


READ_ADDRS = [0xC0, 0xC2, 0xC4, 0xC6, 0xC8, 0xCA, 0xCC, 0xCE, 0xD0, 0xD2, 0xD4, 0xD6, 0xD8, 0x200, 0x202]
WRITE_ADDRS = [0xC0, 0xC4, 0xC8, 0xC0, 0xC4, 0xC8, 0xC2, 0xCC, 0xCC, 0xCE, 0xCE, 0xCE, 0xD0, 0xD0, 0xD2, 0xD4, 0xD4,
               0xD6, 0xD8, 0x202]


def gen_sys(rng, n):
    s = ["apbpsys new"]
    for _ in range(n):
        m = rng.below(40)
        if m < 5:
            s.append("apbpsys hsend %x %x" % (chan(rng), rng.bits(16)))
        elif m < 7:
            s.append("apbpsys hempty %x" % chan(rng))
        elif m < 9:
            s.append("apbpsys hready %x" % chan(rng))
        elif m < 12:
            s.append("apbpsys hrecv %x" % chan(rng))
        elif m < 13:
            s.append("apbpsys hpeek %x" % chan(rng))
        elif m < 16:
            s.append("apbpsys hsemset %x" % sem(rng))
        elif m < 18:
            s.append("apbpsys hsemclear %x" % sem(rng))
        elif m < 20:
            s.append("apbpsys hsemmask %x" % sem(rng))
        elif m < 21:
            s.append("apbpsys hsemget")
        elif m < 27:
            a = rng.choice(READ_ADDRS) if not rng.chance(1, 30) else rng.choice([0xC1, 0xDA, 0x204, 0x7FE])
            s.append("apbpsys mr %x" % a)
        elif m < 37:
            a = rng.choice(WRITE_ADDRS) if not rng.chance(1, 30) else rng.choice([0xC1, 0xDA, 0x200, 0x204])
            if a in (0xCC, 0xCE, 0xD0):
                v = sem(rng)
            elif a == 0xD4:
                v = rng.choice([0, 0x100, 0x1000, 0x2000, 0x3100, 0x3104, 0xFFFF, rng.bits(16)])
            elif a == 0x202:
                v = rng.choice([0x4000, 0x4000, 0xFFFF, 0, 0xBFFF])
            else:
                v = rng.bits(16)
            s.append("apbpsys mw %x %x" % (a, v))
        elif m < 39:
            s.append("apbpsys statcheck")
        else:
            s.append("apbpsys new")
    return s


def signature(script, impl):
    out = []
    for line, r in zip(script, impl):
        t = line.split()
        rt = r.split()
        if len(rt) < 4:
            out.append((t[0], t[1], r))
            continue
        k = 1 if rt[0] in ("same",) or rt[0].startswith("DIFF") else 0
        verdict = rt[0] if k else ""
        ev = rt[k + 1]
        if t[0] == "apbp":
            d = rt[-12:]
            ch = t[2] if len(t) > 2 and t[1] in ("send", "recv", "peek", "setdis") else ""
            # (op, channel, verdict, events, ready flags, disable!=0 flags, sem&~mask!=0, flag)
            sig = (int(d[9], 16) & ~int(d[10], 16)) != 0
            out.append((t[1], ch, verdict, ev, d[0], d[3], d[6], d[2] != "0", d[5] != "0", d[8] != "0", sig, d[11]))
        else:
            d = rt[-13:]
            a = t[2] if t[1] in ("mr", "mw") else ""
            # (op, address, verdict, events, empty/ready flags, icu bit 14, d6 bit 9)
            out.append((t[1], a, verdict, ev, tuple(d[0:6]), (int(d[12], 16) >> 14) & 1, (int(d[7], 16) >> 9) & 1))
    return out


def judge(pair, script, impl, model):
    """A `DIFF` verdict from the implementation is the property evaluated on the real code and found false.
    For a plain disagreement, probe the same state with the check ops."""
    last = impl[-1] if impl else ""
    if last.startswith("DIFF"):
        return True, "(the real code violates the property: %s)" % last.split()[0]
    unit = script[-1].split()[0]
    probes = [script + [unit + (" sigcheck" if unit == "apbp" else " statcheck")]]
    t = script[-1].split()
    if unit == "apbp" and t[1] in ("semset", "semclear", "semmask"):
        probes.append(script[:-1] + ["apbp %scheck %s" % (t[1], t[2])])
    a, _, _, _ = pair.run(probes, shards=1)
    for r in a:
        if r and r[-1].startswith("DIFF"):
            return True, "(probing the same state on the real code: %s)" % r[-1].split()[0]
    return False, "(model and implementation differ; no property violation exhibited on the real code)"


def explore(rng, tier, replay=None):
    n = 1500 if tier == "quick" else 40000
    scripts = []
    for _ in range(n):
        scripts.append(gen_apbp(rng, 6 + rng.below(30)))
    for _ in range(n // 2):
        scripts.append(gen_sys(rng, 6 + rng.below(30)))
    return corr.explore(PROP, scripts, judge=judge, signature=signature,
                        rule="random histories over one stand-alone Apbp object (`apbp`: send/recv/peek/ready on 3 channels, "
                             "interrupt-disable writes, semaphore set/acknowledge/mask with 16-bit words from a boundary pool, "
                             "single bits, sparse and uniform words, reset, re-construction) and over a real Teakra::Teakra "
                             "(`apbpsys`: host API calls interleaved with DSP-side MMIO reads/writes of 0x0C0-0x0D8 and ICU "
                             "0x200/0x202). `sigcheck`, `sem*check`, `statcheck` evaluate the property on the implementation "
                             "itself (flag == (sem & ~mask) != 0; handler on rise / not while zero; status bits == host API). "
                             "distinct = (op, channel/address, verdict, events, ready/disable flags, signal, flag) signatures "
                             "seen in the implementation's answers")


def replay(rep):
    return corr.replay(rep)
