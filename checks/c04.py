"""C04 — multiplier products and barrel-shifter results follow exact arithmetic."""
import corr
from checks import alu_common

PROP = "C04"
MODULE = "Proofs.C04All"
NS = "Teakra.Alu."
THEOREMS = [NS + t for t in ["mul_exact", "signExtend_toInt", "signExtend_toNat", "productToBus40_spec", "shl_value",
                             "shl_carry", "shl_overflow", "shr_overflow", "shr_arith_value", "shr_arith_carry",
                             "shr_logic_value", "shr_logic_carry",
                             # Proofs/C04b.lean: Exp
                             "expLoop_count", "redundantSignCount_unique", "redundantSignCount_bounds", "exp_spec",
                             "exp_eq_of_count", "exp_eq_of_bounds", "shl_arith_value", "exp_normalises"]] + \
           ["Teakra.Interp." + t for t in [
               # Proofs/C04b.lean: ShiftBus40 end to end
               "shiftBus40_run", "shiftCore_mask", "shiftCore_fv", "shifted_eq", "shifted_wf", "withShiftFlags_spec",
               "shiftRegs_eq", "shiftRegs_spec", "shiftBus40_sat_original_sign", "shiftBus40_logic_no_saturation",
               "shiftRegs_arith_exact",
               # multiply-accumulate order, ProductSum
               "run_productToBus40", "run_doMultiplication", "mac_order", "satSetRegs_mulframe", "accOf_mulRegs",
               "mulRegs_product", "I40_of_toInt", "I40_align16", "productToBus40_range", "I40_alignP",
               "mac_order_spec", "productSum_run", "addSub_result_U40", "productSum_spec", "sumBaseValue_spec"]]
TRUSTED = ["hand-written model lean/TeakraModel/Alu.lean (value parts of DoMultiplication/ProductToBus40/ShiftBus40/Exp) and "
           "the handler transcriptions, tied by the `alu` helper slice and the `interp` instruction slice",
           "Mathlib.Tactic.Linarith / IntervalCases (proof automation only; kernel-checked)"]
ASSUMPTIONS = ["pe is a 1-bit value and ps a 2-bit value in productToBus40_spec (hardware widths)",
               "ps is a 2-bit value in mac_order_spec / productSum_spec / I40_alignP (hardware width; the mod registers "
               "only ever store 2 bits there)"]
PREFIXES = ["mul_", "mpyi", "msu_", "msusu", "mac", "mma", "sqr_", "shfc", "shfi", "movs", "exp_", "norm", "app_",
            "mov_sv_app", "clrp", "mov_p", "mov2", "addhp", "divs"]


def helper_scripts(rng, n):
    out = []
    for i in range(n):
        m = rng.below(10)
        if m < 3:
            out.append(["alu mul %x %x %x %x %x %x" % (rng.biased(16), rng.biased(16), rng.below(4), rng.below(2),
                                                       rng.below(2), rng.below(2))])
        elif m < 4:
            out.append(["alu p2b %x %x %x" % (rng.biased(32), rng.below(2), rng.below(4))])
        elif m < 9:
            sv = rng.choice([rng.below(48), (0x10000 - rng.below(48)) & 0xFFFF, rng.bits(16), rng.biased(16)])
            out.append(["alu shift %x %x %x %x %x %x %x" % (alu_common.acc(rng), sv, rng.below(2), rng.below(2),
                                                          rng.below(2), rng.below(2), rng.below(2))])
        else:
            out.append(["alu exp %x" % alu_common.acc(rng)])
    return out


def sweep_scripts(rng):
    """all 65536 shift amounts on a few values, both modes"""
    out = []
    for v in (0x1, 0xFFFFFFFFFFFFFFFF, 0x7FFFFFFFFF, 0xFFFFFF8000000000, 0x12345678, 0xFFFFFFFFEDCBA988):
        for s in (0, 1):
            for sv in range(0, 65536, 1 if v in (0x12345678, 0xFFFFFFFFEDCBA988) else 257):
                out.append(["alu shift %x %x %x 0 0 0 0" % (v, sv, s)])
    return out


def explore(rng, tier, replay=None):
    n = 40000 if tier == "quick" else 2000000
    hs = helper_scripts(rng, n) + sweep_scripts(rng)
    return alu_common.explore(PROP, rng, tier, hs, PREFIXES,
                              "helper level: DoMultiplication / ProductToBus40 / ShiftBus40 / Exp on boundary-biased operands, "
                              "all 65536 shift amounts on fixed values in both shift modes; instruction level: every opcode "
                              "of the multiply, product-sum, shift, exponent families from seeded states")


def replay(rep):
    return corr.replay(rep)
