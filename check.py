#!/usr/bin/env python3
"""Single entry point of the teakra verification checks.

  check.py <Cxx> [--tier quick|thorough] [--replay FILE]
  check.py --setup            build the Lean library, proofs, model driver and the harness
  check.py --baseline-off     configure+build /repo with the hook guard OFF and run its test suite

Exit 0: every proof obligation is discharged and implementation and model agree on everything
explored.  Exit 1: at least one line `VIOLATION property=<id> replay=<path>[ no-failing-input-found]`.
"""
import argparse
import importlib
import json
import os
import sys
import time
import traceback

ROOT = os.path.dirname(os.path.abspath(__file__))
sys.path.insert(0, os.path.join(ROOT, "tools"))
sys.path.insert(0, ROOT)
import vlib  # noqa: E402

ALL = ["C%02d" % i for i in range(1, 21)]


def load(prop):
    return importlib.import_module("checks." + prop.lower())


def finding_matches(f, prop, desc):
    return f.get("property") == prop and f.get("match") and f["match"] in desc


def run_check(prop, tier, seed, replay=None):
    # a harness process that never answers (deadlock / endless loop in the code under test) is killed and reported
    os.environ.setdefault("VERIF_HANG_TIMEOUT", "600" if tier == "quick" else "3000")
    t0 = time.time()
    mod = load(prop)
    known = vlib.load_known()
    violations = []      # (description, replay object, failing_input_found)
    known_seen = []
    cov = {}
    assumptions = list(getattr(mod, "ASSUMPTIONS", []))

    # 0. translators (regenerate model tables from /repo)
    if hasattr(mod, "regenerate"):
        try:
            cov["translated"] = mod.regenerate()
        except Exception as e:  # translator could not read the source: obligation unchecked
            violations.append(("translator failed: %s" % e,
                               {"kind": "translator", "error": traceback.format_exc()}, False))

    import facade
    if prop in facade.OWNERS:
        try:
            tr = cov.get("translated")
            tr = tr if isinstance(tr, dict) else ({"tables": tr} if tr else {})
            tr.update(facade.regenerate())
            cov["translated"] = tr
        except Exception as e:
            violations.append(("translator failed: %s" % e, {"kind": "translator", "error": traceback.format_exc()}, False))

    # 1. theorems
    pr = vlib.prove(mod.MODULE, mod.THEOREMS)
    cov["obligations"] = pr["obligations"]
    cov["discharged"] = pr["discharged"]
    cov["checker_cmd"] = pr["checker_cmd"]
    cov["theorems"] = mod.THEOREMS
    cov["trusted_base"] = (["Lean 4.33.0 kernel", "axioms: " + ", ".join(pr.get("axioms_used", []) or ["none"])] +
                           list(getattr(mod, "TRUSTED", [])))
    cov["proof_wall_s"] = pr["wall_s"]
    if tier == "thorough" and pr["build_ok"]:
        ok, out = vlib.leanchecker(mod.MODULE)
        cov["leanchecker"] = "ok" if ok else out
        if not ok:
            pr["failed"].append("leanchecker rejected " + mod.MODULE)
    broken = list(pr["failed"])
    # further proof modules of the property, built and audited on their own (a table-dependent module that no longer
    # builds must not hide the theorems of the others)
    for (xmod, xthms) in list(getattr(mod, "EXTRA_MODULES", [])) + facade.extra_modules(prop):
        xp = vlib.prove(xmod, xthms)
        cov["obligations"] += xp["obligations"]
        cov["discharged"] += xp["discharged"]
        cov["theorems"] = cov["theorems"] + xthms
        cov["checker_cmd"] += " ; " + xp["checker_cmd"]
        cov["proof_wall_s"] += xp["wall_s"]
        broken += xp["failed"]
        if not xp["build_ok"]:
            pr["build_log_tail"] = (pr.get("build_log_tail", "") + "\n" + xp.get("build_log_tail", ""))[-3000:]
        if tier == "thorough" and xp["build_ok"]:
            ok, out = vlib.leanchecker(xmod)
            cov["leanchecker"] = cov.get("leanchecker", "ok") if ok else out
            if not ok:
                broken.append("leanchecker rejected " + xmod)

    # 2. correspondence + direct property search on the implementation
    rng = vlib.Rng(seed)
    ctx = None
    try:
        ctx = mod.explore(rng, tier, replay)
    except Exception:
        violations.append(("check machinery error", {"kind": "error", "error": traceback.format_exc()}, False))
    if ctx:
        for k in ("evaluations", "distinct_nontrivial", "rule", "samples", "traces_validated_against_impl",
                  "distribution", "exhaustive", "exhaustive_part", "unmodelled", "direct_property_cases", "modelled_handlers", "handlers", "corpus_scripts", "harness_build_s", "skipped_by_model", "fetch_slice", "instruction_slice", "generator_clause", "golden_agreement", "helper_cases", "family_instruction_cases", "facade_slice", "sanitizer"):
            if k in ctx:
                cov[k] = ctx[k]
        for v in ctx.get("violations", []):
            violations.append(v)
        assumptions += ctx.get("assumptions", [])

    if prop in facade.OWNERS:
        finfo, fviol = facade.golden(prop)
        cov["facade_agreement"] = finfo
        if fviol:
            violations.append(fviol)

    # 3. a broken proof obligation is a violation even if the search found nothing
    if broken:
        found = any(v[2] for v in violations)
        if not found:
            violations.append(("proof obligations no longer check: " + "; ".join(broken[:6]),
                               {"kind": "proof", "failed": broken, "log": pr.get("build_log_tail", "")}, False))

    # 4. known findings
    out_v = []
    for desc, rep, found in violations:
        kf = [f for f in known.get("findings", []) if finding_matches(f, prop, desc)]
        if kf:
            known_seen.append(kf[0]["id"])
            print("KNOWN-FINDING: property=%s %s" % (prop, kf[0]["what"]))
        else:
            out_v.append((desc, rep, found))
    cov["known_findings_seen"] = sorted(set(known_seen))

    out_v.sort(key=lambda v: not v[2])      # violations with a failing input on the real code first
    n = 0
    for desc, rep, found in out_v[:10]:
        n += 1
        rep = dict(rep)
        rep["property"] = prop
        rep["description"] = desc
        rep["seed"] = seed
        rep["tier"] = tier
        path = vlib.write_replay(prop, "%d" % n, rep)
        print("VIOLATION property=%s replay=%s%s" % (prop, path, "" if found else " no-failing-input-found"))
        print("  " + desc[:400])
    if "evaluations" not in cov:
        cov["evaluations"] = 0
    vlib.write_evidence(prop, tier, seed, cov, assumptions, time.time() - t0, len(out_v))
    return 1 if out_v else 0


def setup():
    ok, out = vlib.lean_build([])
    print(out[-3000:])
    if not ok:
        return 1
    vlib.harness_build("plain")
    return 0


def baseline_off():
    """Guard OFF: configure, build and run the repository's own suite in .build/baseline_off."""
    import subprocess
    b = os.path.join(vlib.BUILD, "baseline_off")
    os.makedirs(b, exist_ok=True)
    cmds = [["cmake", "-G", "Ninja", "-S", vlib.REPO, "-B", b, "-DCMAKE_BUILD_TYPE=Release"],
            ["cmake", "--build", b, "-j", str(vlib.NPROC)],
            ["ctest", "--test-dir", b, "-j8", "--timeout", "900", "--output-junit", os.path.join(b, "junit.xml")]]
    for c in cmds:
        rc = subprocess.call(c)
        if rc != 0:
            return rc
    return 0


def main():
    ap = argparse.ArgumentParser()
    ap.add_argument("prop", nargs="?")
    ap.add_argument("--tier", default=os.environ.get("VERIF_TIER", "quick"))
    ap.add_argument("--replay")
    ap.add_argument("--setup", action="store_true")
    ap.add_argument("--baseline-off", action="store_true")
    a = ap.parse_args()
    if a.setup:
        sys.exit(setup())
    if a.baseline_off:
        sys.exit(baseline_off())
    seed = int(os.environ.get("VERIF_SEED", "1"))
    tier = a.tier if a.tier in ("quick", "thorough") else "quick"
    if a.replay:
        rep = json.load(open(a.replay))
        mod = load(a.prop)
        sys.exit(mod.replay(rep))
    sys.exit(run_check(a.prop, tier, seed))


if __name__ == "__main__":
    main()
