import Proofs.C15
