import Proofs.C15
import Proofs.C16
import Proofs.C03
import Proofs.C01
