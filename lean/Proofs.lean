import Proofs.C15
import Proofs.C16
import Proofs.C03
import Proofs.C01
import Proofs.C14
import Proofs.C07Icu
import Proofs.C02
import Proofs.C02Golden
