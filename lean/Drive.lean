import Drive.Util
import Drive.Timer
