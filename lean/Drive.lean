import Drive.Util
import Drive.Timer
import Drive.Interp
import Drive.Btdmp
import Drive.Apbp
import Drive.Icu
import Drive.Decode
