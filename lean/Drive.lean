import Drive.Util
import Drive.Timer
import Drive.Interp
import Drive.Btdmp
