import TeakraModel.Basic
import TeakraModel.Timer
