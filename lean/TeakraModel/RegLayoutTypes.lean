/-!
# Vocabulary of the pseudo-register layout tables

Shared by the generated table `TeakraModel/Generated/RegLayout.lean` (rewritten from
`/repo/include/teakra/impl/register.h` by `tools/translate_regs.py` on every check run) and the
committed snapshot `TeakraModel/Golden/RegLayout.lean`.
-/
namespace Teakra.Regs

/-- The proxy of a `ProxySlot<Proxy, pos, len>`.
`Redirector`/`ArrayRedirector` = `rw`; `RORedirector`/`ArrayRORedirector` = `ro`;
`DoubleRedirector` = `double`; `AccEProxy` = `accE`; `LPRedirector` = `lp`. -/
inductive ProxyKind where
  | rw | ro | double | accE | lp
  deriving DecidableEq, Repr, Inhabited

/-- One `ProxySlot`.  `field`/`index`: the `RegisterState` member (array element `index`, 0 for a
scalar); for `accE` the field is `"a"` and `index` the accumulator; for `lp` the field is `"lp"`
and `field2` is `"bcn"` (both are cleared by a write of one); for `double`, `field2` is the second
target; otherwise `field2 = ""`. -/
structure Slot where
  kind : ProxyKind
  field : String
  index : Nat
  field2 : String
  pos : Nat
  len : Nat
  deriving DecidableEq, Repr, Inhabited

end Teakra.Regs
