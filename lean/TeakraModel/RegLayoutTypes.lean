/-! Data format of the pseudo-register layout table emitted by `tools/translate_regs.py`. -/
namespace Teakra.Regs

/-- Redirector/ArrayRedirector = `rw`; RORedirector/ArrayRORedirector = `ro`; DoubleRedirector =
`double`; AccEProxy = `accE`; LPRedirector = `lp`. -/
inductive ProxyKind where
  | rw | ro | double | accE | lp
  deriving DecidableEq, Repr, Inhabited

structure Slot where
  kind : ProxyKind
  field : String
  index : Nat
  field2 : String
  pos : Nat
  len : Nat
  deriving DecidableEq, Repr, Inhabited

end Teakra.Regs
