import TeakraModel.Basic
/-!
# Model of `src/timer.cpp` / `src/timer.h`

Field for field and branch for branch; `interrupt_handler()` calls become the `Bool`
component of the result (`true` = the handler was invoked once by this call).
Each C++ method with `ASSERT`s is split into a decidable guard (`…Ok`), a total core (`…Core`)
and the guarded function returning `R` (= `Except Abort`).
`ticks` of `Skip(u64 ticks)` is a `Nat`; `(u32)ticks` is `BitVec.ofNat 32`.
-/
namespace Teakra

structure Timer where
  updateMmio  : U16 := 0
  pause       : U16 := 0
  countMode   : U16 := 0     -- 0 Single, 1 AutoRestart, 2 FreeRunning, 3 EventCount
  scale       : U16 := 0
  startHigh   : U16 := 0
  startLow    : U16 := 0
  counter     : U32 := 0
  counterHigh : U16 := 0
  counterLow  : U16 := 0
  deriving DecidableEq, Repr, Inhabited

namespace Timer

def reset (_ : Timer) : Timer := {}

/-- `((u32)start_high << 16) | start_low` -/
def startValue (t : Timer) : U32 := t.startHigh ++ t.startLow

/-- `Timer::UpdateMMIO` -/
def updateMMIO (t : Timer) : Timer :=
  if t.updateMmio = 0 then t
  else { t with counterHigh := t.counter.extractLsb' 16 16, counterLow := t.counter.extractLsb' 0 16 }

/-- `Timer::Restart` after its `ASSERT(count_mode < 4)`. -/
def restartCore (t : Timer) : Timer :=
  if t.countMode ≠ 2 then updateMMIO { t with counter := t.startValue } else t

def restart (t : Timer) : R Timer :=
  if t.countMode < 4 then .ok (restartCore t) else .error .assert

/-- The two `ASSERT`s of `Timer::Tick`. -/
def tickOk (t : Timer) : Bool := t.countMode < 4 && t.scale == 0

/-- `Timer::Tick` after its assertions; the `Bool` is "interrupt handler called". -/
def tickCore (t : Timer) : Timer × Bool :=
  if t.pause ≠ 0 then (t, false)
  else if t.countMode = 3 then (t, false)
  else if t.counter = 0 then
    if t.countMode = 1 then (restartCore t, false)
    else if t.countMode = 2 then (updateMMIO { t with counter := 0xFFFFFFFF }, false)
    else (t, false)
  else
    let t' := updateMMIO { t with counter := t.counter - 1 }
    (t', t'.counter = 0)

def tick (t : Timer) : R (Timer × Bool) :=
  if tickOk t then .ok (tickCore t) else .error .assert

/-- `Timer::TickEvent` -/
def tickEvent (t : Timer) : Timer × Bool :=
  if t.pause ≠ 0 then (t, false)
  else if t.countMode ≠ 3 then (t, false)
  else if t.counter = 0 then (t, false)
  else
    let t' := updateMMIO { t with counter := t.counter - 1 }
    (t', t'.counter = 0)

/-- `Timer::GetMaxSkip` (as a `Nat`; `infinity = 2^64-1`). -/
def maxSkip (t : Timer) : Nat :=
  if t.pause ≠ 0 ∨ t.countMode = 3 then infinity
  else if t.counter = 0 then
    if t.countMode = 1 then t.startValue.toNat
    else if t.countMode = 2 then 0xFFFFFFFF
    else infinity
  else t.counter.toNat - 1

/-- The value `Timer::Skip` reloads from when the counter is at zero. -/
def reloadValue (t : Timer) : U32 := if t.countMode = 1 then t.startValue else 0xFFFFFFFF

/-- The `ASSERT`s of `Timer::Skip` (`reset >= ticks`, `counter > ticks`) on the paths that reach them.
`fixed` selects the repaired code (`ticks == 0` returns first) or the pinned upstream code. -/
def skipOkGen (fixed : Bool) (t : Timer) (ticks : Nat) : Bool :=
  if t.pause ≠ 0 ∨ t.countMode = 3 then true
  else if fixed ∧ ticks = 0 then true
  else if t.counter = 0 then
    if t.countMode = 1 ∨ t.countMode = 2 then decide (ticks ≤ (reloadValue t).toNat) else true
  else decide (ticks < t.counter.toNat)

/-- `Timer::Skip` after its assertions. -/
def skipCoreGen (fixed : Bool) (t : Timer) (ticks : Nat) : Timer :=
  if t.pause ≠ 0 ∨ t.countMode = 3 then t
  else if fixed ∧ ticks = 0 then t
  else if t.counter = 0 then
    if t.countMode = 1 ∨ t.countMode = 2 then
      updateMMIO { t with counter := reloadValue t - (BitVec.ofNat 32 ticks - 1) }
    else t
  else updateMMIO { t with counter := t.counter - BitVec.ofNat 32 ticks }

def skipGen (fixed : Bool) (t : Timer) (ticks : Nat) : R Timer :=
  if skipOkGen fixed t ticks then .ok (skipCoreGen fixed t ticks) else .error .assert

end Timer
end Teakra
