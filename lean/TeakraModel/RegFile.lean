import TeakraModel.Basic
import TeakraModel.RegLayoutTypes
/-!
# A generic register file and `PseudoRegister::Get` / `PseudoRegister::Set`

Model of the part of `include/teakra/impl/register.h` that turns a list of
`ProxySlot<Proxy, pos, len>` into a 16-bit word (`RegisterState::Get<T>()`) and back
(`RegisterState::Set<T>(value)`), for *any* slot list — the lists themselves are generated from the
header (`TeakraModel/Generated/RegLayout.lean`).

* `fieldTable` lists every `u16` member of `struct RegisterState` (array members element by
  element) with the hardware width written in the header's comments; a *cell* is an index into the
  flattened table.  `RegFile` holds one `BitVec 16` per cell plus the two accumulators `a[0]`,
  `a[1]` that `AccEProxy` touches.
* `proxyGet` / `proxySet` are the `Get` / `Set` of the seven proxy templates.
* `getWordR` / `setWordR` are `PseudoRegister::Get` / `Set` on slots whose field names have been
  resolved to cells (`resolve`); `getWord` / `setWord` take the generated `Slot`s.
* `WF` is "every field within its hardware width, accumulators sign-extended from bit 39".
-/
namespace Teakra.Regs

/-- One `u16` member of `RegisterState`: name, array size (0 = scalar), hardware width in bits. -/
structure FieldDecl where
  name : String
  count : Nat
  bits : Nat
  deriving DecidableEq, Repr, Inhabited

/-- The `u16` members of `struct RegisterState` in declaration order with the widths stated in the
header's comments (`// 3-bit`, `1-bit flags`, `2 bits each` …).  `Proofs/C20.lean` checks the
names and array sizes against the generated `stateFields`. -/
def fieldTable : List FieldDecl := [
  ⟨"prpage", 0, 4⟩, ⟨"cpc", 0, 1⟩, ⟨"repc", 0, 16⟩, ⟨"repcs", 0, 16⟩, ⟨"crep", 0, 1⟩,
  ⟨"bcn", 0, 3⟩, ⟨"lp", 0, 1⟩, ⟨"ccnta", 0, 1⟩,
  ⟨"sat", 0, 1⟩, ⟨"sata", 0, 1⟩, ⟨"s", 0, 1⟩, ⟨"sv", 0, 16⟩,
  ⟨"fz", 0, 1⟩, ⟨"fm", 0, 1⟩, ⟨"fn", 0, 1⟩, ⟨"fv", 0, 1⟩, ⟨"fe", 0, 1⟩, ⟨"fc0", 0, 1⟩,
  ⟨"fc1", 0, 1⟩, ⟨"flm", 0, 1⟩, ⟨"fvl", 0, 1⟩, ⟨"fr", 0, 1⟩,
  ⟨"vtr0", 0, 16⟩, ⟨"vtr1", 0, 16⟩,
  ⟨"x", 2, 16⟩, ⟨"y", 2, 16⟩, ⟨"hwm", 0, 2⟩, ⟨"pe", 2, 1⟩, ⟨"ps", 2, 2⟩, ⟨"p0h_cbs", 0, 16⟩,
  ⟨"r", 8, 16⟩, ⟨"mixp", 0, 16⟩, ⟨"sp", 0, 16⟩, ⟨"page", 0, 8⟩, ⟨"pcmhi", 0, 2⟩,
  ⟨"r0b", 0, 16⟩, ⟨"r1b", 0, 16⟩, ⟨"r4b", 0, 16⟩, ⟨"r7b", 0, 16⟩,
  ⟨"stepi", 0, 7⟩, ⟨"stepj", 0, 7⟩, ⟨"modi", 0, 9⟩, ⟨"modj", 0, 9⟩,
  ⟨"stepi0", 0, 16⟩, ⟨"stepj0", 0, 16⟩,
  ⟨"stepib", 0, 7⟩, ⟨"stepjb", 0, 7⟩, ⟨"modib", 0, 9⟩, ⟨"modjb", 0, 9⟩,
  ⟨"stepi0b", 0, 16⟩, ⟨"stepj0b", 0, 16⟩,
  ⟨"m", 8, 1⟩, ⟨"br", 8, 1⟩, ⟨"stp16", 0, 1⟩, ⟨"cmd", 0, 1⟩, ⟨"epi", 0, 1⟩, ⟨"epj", 0, 1⟩,
  ⟨"arstep", 4, 3⟩, ⟨"arpstepi", 4, 3⟩, ⟨"arpstepj", 4, 3⟩,
  ⟨"aroffset", 4, 2⟩, ⟨"arpoffseti", 4, 2⟩, ⟨"arpoffsetj", 4, 2⟩,
  ⟨"arrn", 4, 3⟩, ⟨"arprni", 4, 2⟩, ⟨"arprnj", 4, 2⟩,
  ⟨"ip", 3, 1⟩, ⟨"ipv", 0, 1⟩, ⟨"im", 3, 1⟩, ⟨"imv", 0, 1⟩, ⟨"ic", 3, 1⟩, ⟨"nimc", 0, 1⟩,
  ⟨"ie", 0, 1⟩, ⟨"ou", 5, 1⟩, ⟨"iu", 2, 1⟩, ⟨"ext", 4, 16⟩, ⟨"mod0_unk_const", 0, 3⟩]

/-- The cells of one member: `(name, 0)` for a scalar, `(name, 0) … (name, count-1)` for an array. -/
def FieldDecl.keys (d : FieldDecl) : List (String × Nat) :=
  if d.count = 0 then [(d.name, 0)] else (List.range d.count).map (fun i => (d.name, i))

/-- All cells, in dump order. -/
def cellKeys : List (String × Nat) := fieldTable.flatMap FieldDecl.keys

/-- Hardware width of each cell. -/
def cellWidths : List Nat := fieldTable.flatMap (fun d => d.keys.map (fun _ => d.bits))

def nCells : Nat := cellKeys.length

/-- The cell of `name[idx]` (`name` for a scalar, `idx = 0`); `nCells` (out of range) if there is no
such member. -/
def cellOf (name : String) (idx : Nat) : Nat := cellKeys.idxOf (name, idx)

def cellBits (c : Nat) : Nat := cellWidths.getD c 16

/-- The register state seen by the pseudo-registers: every `u16` member by cell, and `a[0]`, `a[1]`. -/
structure RegFile where
  regs : Array U16
  a0 : U64
  a1 : U64
  deriving DecidableEq, Repr, Inhabited

namespace RegFile

/-- The state of `RegisterState()` restricted to zeros (used as a base for examples; the real
reset values are irrelevant to the bit-field view). -/
def zero : RegFile := ⟨Array.replicate nCells 0, 0, 0⟩

def getC (s : RegFile) (c : Nat) : U16 := s.regs.getD c 0

def setC (s : RegFile) (c : Nat) (v : U16) : RegFile := { s with regs := s.regs.setIfInBounds c v }

/-- Read member `name[idx]`. -/
def getF (s : RegFile) (name : String) (idx : Nat := 0) : U16 := s.getC (cellOf name idx)

/-- Write member `name[idx]`. -/
def setF (s : RegFile) (name : String) (idx : Nat) (v : U16) : RegFile := s.setC (cellOf name idx) v

/-- `a[i]` (only `i < 2` exists). -/
def getA (s : RegFile) (i : Nat) : U64 := if i = 0 then s.a0 else s.a1

def setA (s : RegFile) (i : Nat) (v : U64) : RegFile :=
  if i = 0 then { s with a0 := v } else if i = 1 then { s with a1 := v } else s

end RegFile

open RegFile

/-- A slot with its member names resolved to cells.
`c1`: the target cell (`rw`, `ro`, first target of `double`, `lp` for `lp`), or the accumulator index
for `accE`; `c2`: second target of `double`, `bcn` for `lp`. -/
structure RSlot where
  kind : ProxyKind
  c1 : Nat
  c2 : Nat
  pos : Nat
  len : Nat
  deriving DecidableEq, Repr, Inhabited

/-- Resolve the member names of a generated slot.  `LPRedirector` names no member in its template
arguments; its body uses `lp` and `bcn`. -/
def resolve (sl : Slot) : RSlot :=
  match sl.kind with
  | .accE => ⟨.accE, sl.index, 0, sl.pos, sl.len⟩
  | .double => ⟨.double, cellOf sl.field 0, cellOf sl.field2 0, sl.pos, sl.len⟩
  | .lp => ⟨.lp, cellOf "lp" 0, cellOf "bcn" 0, sl.pos, sl.len⟩
  | k => ⟨k, cellOf sl.field sl.index, 0, sl.pos, sl.len⟩

/-- `SignExtend<4>(u32)` of common_types.h: `mask = (1 << 4) - 1`; sign bit set ⇒ `value | ~mask`,
else `value & mask`. -/
def signExtend4 (x : U32) : U32 :=
  if (x >>> 3) &&& 1#32 ≠ 0#32 then x ||| ~~~15#32 else x &&& 15#32

/-- `Proxy::Get(self)`.
`Redirector`, `ArrayRedirector`, `RORedirector`, `ArrayRORedirector`, `LPRedirector`: the member;
`DoubleRedirector`: `target0 | target1`; `AccEProxy`: `(u16)((a[i] >> 32) & 0xF)`. -/
def proxyGet (r : RSlot) (s : RegFile) : U16 :=
  match r.kind with
  | .rw | .ro | .lp => s.getC r.c1
  | .double => s.getC r.c1 ||| s.getC r.c2
  | .accE => (((s.getA r.c1) >>> 32) &&& 0xF#64).setWidth 16

/-- `Proxy::Set(self, value)`.
`Redirector`/`ArrayRedirector`: assign; `RO…`: nothing; `DoubleRedirector`:
`target0 = target1 = value`; `LPRedirector`: `if (value != 0) { lp = 0; bcn = 0; }`;
`AccEProxy`: `u32 value32 = SignExtend<4>((u32)value); a[i] &= 0xFFFFFFFF; a[i] |= (u64)value32 << 32;`. -/
def proxySet (r : RSlot) (x : U16) (s : RegFile) : RegFile :=
  match r.kind with
  | .rw => s.setC r.c1 x
  | .ro => s
  | .double => (s.setC r.c2 x).setC r.c1 x
  | .lp => if x ≠ 0#16 then (s.setC r.c1 0#16).setC r.c2 0#16 else s
  | .accE =>
    let value32 : U32 := signExtend4 (x.setWidth 32)
    s.setA r.c1 ((s.getA r.c1 &&& 0xFFFFFFFF#64) ||| (value32.setWidth 64 <<< 32))

/-- `(1 << len) - 1` -/
def lowMask (len : Nat) : U16 := (1#16 <<< len) - 1

/-- The value `PseudoRegister::Set` passes to a slot's proxy: `(value >> pos) & ((1 << len) - 1)`. -/
def fieldVal (v : U16) (pos len : Nat) : U16 := (v >>> pos) &&& lowMask len

/-- `ProxySlot::mask = ((1 << length) - 1) << position`. -/
def slotMask (pos len : Nat) : U16 := lowMask len <<< pos

/-- `PseudoRegister::Get`: `((Proxy::Get(self) << pos) | ...)`.  Each `u16` is promoted to `int`
before the shift; the `int` result is truncated by the `u16` return type.  Nothing masks the member
to `len` bits. -/
def getWordR (rs : List RSlot) (s : RegFile) : U16 :=
  (rs.foldl (fun (acc : U32) r => acc ||| ((proxyGet r s).setWidth 32 <<< r.pos)) 0).setWidth 16

/-- `PseudoRegister::Set`: every proxy's `Set` with the slot's bits, in slot order. -/
def setWordR (rs : List RSlot) (v : U16) (s : RegFile) : RegFile :=
  rs.foldl (fun s r => proxySet r (fieldVal v r.pos r.len) s) s

/-- `RegisterState::Get<T>()` for the word with slot list `slots`. -/
def getWord (slots : List Slot) (s : RegFile) : U16 := getWordR (slots.map resolve) s

/-- `RegisterState::Set<T>(v)` for the word with slot list `slots`. -/
def setWord (slots : List Slot) (v : U16) (s : RegFile) : RegFile := setWordR (slots.map resolve) v s

/-- An accumulator is the sign extension of its low 40 bits ("the upper 24 bits are always sign
extension"). -/
def SignExt40 (a : U64) : Prop := a = (a.setWidth 40).signExtend 64
instance : DecidablePred SignExt40 := fun _ => inferInstanceAs (Decidable (_ = _))

/-- The register file has one entry per cell (writes land where reads look). -/
def Sized (s : RegFile) : Prop := s.regs.size = nCells
instance : DecidablePred Sized := fun _ => inferInstanceAs (Decidable (_ = _))

/-- Well-formed register state: one entry per cell, every member within its hardware width, both
accumulators sign-extended from bit 39. -/
structure WF (s : RegFile) : Prop where
  sized : Sized s
  bits : ∀ c, c < nCells → (s.getC c).toNat < 2 ^ cellBits c
  a0 : SignExt40 s.a0
  a1 : SignExt40 s.a1

instance : DecidablePred WF := fun s =>
  if h : Sized s ∧ (∀ c, c < nCells → (s.getC c).toNat < 2 ^ cellBits c) ∧ SignExt40 s.a0 ∧ SignExt40 s.a1
  then isTrue ⟨h.1, h.2.1, h.2.2.1, h.2.2.2⟩
  else isFalse (fun w => h ⟨w.sized, w.bits, w.a0, w.a1⟩)

end Teakra.Regs
