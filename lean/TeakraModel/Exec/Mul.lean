import TeakraModel.Interp
import TeakraModel.Exec.Alm
/-!
# Handlers: shfc / shfi, tst4b / tstb, and_, dint / eint and the multiplication family
(`src/interpreter.h` lines 1364–1557)
-/
namespace Teakra.Exec
open Teakra Interp RegName

def shfc_Ab_Ab_Cond (a b cond : Nat) : Exec Unit := do
  if ← conditionPass (Cond.name cond) then
    let value ← getAcc (Ab.name a)
    let sv := (← getRegs).sv
    shiftBus40 value sv (Ab.name b)

def shfi_Ab_Ab_Imm6s (a b s : Nat) : Exec Unit := do
  let value ← getAcc (Ab.name a)
  let sv := imms16 6 s
  shiftBus40 value sv (Ab.name b)

def tst4b_ArRn2_ArStep2 (b bs : Nat) : Exec Unit := do
  let address ← rnAddressAndModify (← getArRnUnit b) (← getArStep bs)
  let value ← dataRead address
  let bit := (← getAcc a0) &&& 0xF
  let t : U16 := (value >>> bit.toNat) &&& 1
  modifyRegs fun r => { r with fc0 := t, fz := t }

def tst4b_ArRn2_ArStep2_Ax (b bs c : Nat) : Exec Unit := do
  let a ← getAcc a0
  let bit := a &&& 0xF
  let r0 ← getRegs
  let sv := r0.sv
  shiftBus40 a sv (Ax.name c)
  -- `fc1 = fc0` (the shifter's carry), then `fv fvl fm fn fe` are put back
  modifyRegs fun r => { r with fc1 := r.fc0, fv := r0.fv, fvl := r0.fvl, fm := r0.fm, fn := r0.fn, fe := r0.fe }
  let address ← rnAddressAndModify (← getArRnUnit b) (← getArStep bs)
  let value ← dataRead address
  let t : U16 := (value >>> bit.toNat) &&& 1
  modifyRegs fun r => { r with fc0 := t, fz := t }

def tstb_MemImm8_Imm4 (a b : Nat) : Exec Unit := do
  let value ← loadMemImm8 a
  modifyRegs fun r => { r with fz := (value >>> (imm16 b).toNat) &&& 1 }

def tstb_Rn_StepZIDS_Imm4 (a as_ b : Nat) : Exec Unit := do
  let address ← rnAddressAndModify a (StepZIDS.name as_)
  let value ← dataRead address
  modifyRegs fun r => { r with fz := (value >>> (imm16 b).toNat) &&& 1 }

def tstb_Register_Imm4 (a b : Nat) : Exec Unit := do
  let value ← regToBus16 (Register.name a)
  modifyRegs fun r => { r with fz := (value >>> (imm16 b).toNat) &&& 1 }

def tstb_r6_Imm4 (b : Nat) : Exec Unit := do
  let value := (← getRegs).r[6]
  modifyRegs fun r => { r with fz := (value >>> (imm16 b).toNat) &&& 1 }

/-- `(value >> b.Unsigned16()) & 1` with a 16-bit immediate: `value` is promoted to a 32-bit
`int`, so a shift amount ≥ 32 is undefined behaviour in C++ (reachable: any second word ≥ 32).
The model follows what the reference build (x86-64, shift count taken modulo 32) computes:
bit `b mod 32` of the zero-extended value, i.e. 0 whenever `b mod 32 ≥ 16`. -/
def tstb_SttMod_Imm16 (a b : Nat) : Exec Unit := do
  let value ← regToBus16 (SttMod.name a)
  -- bit `b` of the 16-bit word; 0 for b ≥ 16 (the pinned upstream code shifted by the raw immediate: undefined for b ≥ 32)
  modifyRegs fun r => { r with fz := if (imm16 b).toNat < 16 then (value >>> (imm16 b).toNat) &&& 1 else 0 }

def and__Ab_Ab_Ax (a b c : Nat) : Exec Unit := do
  let value := (← getAcc (Ab.name a)) &&& (← getAcc (Ab.name b))
  setAccAndFlag (Ax.name c) value

def dint : Exec Unit := modifyRegs fun r => { r with ie := 0 }
def eint : Exec Unit := modifyRegs fun r => { r with ie := 1 }

/-- `MulGeneric` -/
def mulGeneric (op : MulOp) (a : RegName) : Exec Unit := do
  if op != .mpy && op != .mpysu then
    let value ← getAcc a
    let product ← productToBus40 0
    let product :=
      if op == .maa || op == .maasu then Alu.signExtend 24 (product >>> 16) else product
    let result ← addSub value product false
    satAndSetAccAndFlag a result
  match op with
  | .mpy | .mac | .maa => doMultiplication 0 true true
  | .mpysu | .macsu | .maasu => doMultiplication 0 false true
  | .macus => doMultiplication 0 true false
  | .macuu => doMultiplication 0 false false

def mul_Mul3_Rn_StepZIDS_Imm16_Ax (op y ys x a : Nat) : Exec Unit := do
  let address ← rnAddressAndModify y (StepZIDS.name ys)
  let v ← dataRead address
  modifyRegs fun r => { r with y := r.y.set 0 v }
  modifyRegs fun r => { r with x := r.x.set 0 (imm16 x) }
  mulGeneric (Mul3.name op) (Ax.name a)

def mul_y0_Mul3_Rn_StepZIDS_Ax (op x xs a : Nat) : Exec Unit := do
  let address ← rnAddressAndModify x (StepZIDS.name xs)
  let v ← dataRead address
  modifyRegs fun r => { r with x := r.x.set 0 v }
  mulGeneric (Mul3.name op) (Ax.name a)

def mul_y0_Mul3_Register_Ax (op x a : Nat) : Exec Unit := do
  let v ← regToBus16 (Register.name x)
  modifyRegs fun r => { r with x := r.x.set 0 v }
  mulGeneric (Mul3.name op) (Ax.name a)

def mul_Mul3_R45_StepZIDS_R0123_StepZIDS_Ax (op y ys x xs a : Nat) : Exec Unit := do
  let addressY ← rnAddressAndModify (y + 4) (StepZIDS.name ys)
  let addressX ← rnAddressAndModify x (StepZIDS.name xs)
  let vy ← dataRead addressY
  modifyRegs fun r => { r with y := r.y.set 0 vy }
  let vx ← dataRead addressX
  modifyRegs fun r => { r with x := r.x.set 0 vx }
  mulGeneric (Mul3.name op) (Ax.name a)

def mul_y0_r6_Mul3_Ax (op a : Nat) : Exec Unit := do
  modifyRegs fun r => { r with x := r.x.set 0 r.r[6] }
  mulGeneric (Mul3.name op) (Ax.name a)

def mul_y0_Mul2_MemImm8_Ax (op x a : Nat) : Exec Unit := do
  let v ← loadMemImm8 x
  modifyRegs fun r => { r with x := r.x.set 0 v }
  mulGeneric (Mul2.name op) (Ax.name a)

def mpyi_Imm8s (x : Nat) : Exec Unit := do
  modifyRegs fun r => { r with x := r.x.set 0 (imms16 8 x) }
  doMultiplication 0 true true

def msu_R45_StepZIDS_R0123_StepZIDS_Ax (y ys x xs a : Nat) : Exec Unit := do
  let yi ← rnAddressAndModify (y + 4) (StepZIDS.name ys)
  let xi ← rnAddressAndModify x (StepZIDS.name xs)
  let value ← getAcc (Ax.name a)
  let product ← productToBus40 0
  let result ← addSub value product true
  satAndSetAccAndFlag (Ax.name a) result
  let vy ← dataRead yi
  modifyRegs fun r => { r with y := r.y.set 0 vy }
  let vx ← dataRead xi
  modifyRegs fun r => { r with x := r.x.set 0 vx }
  doMultiplication 0 true true

def msu_Rn_StepZIDS_Imm16_Ax (y ys x a : Nat) : Exec Unit := do
  let yi ← rnAddressAndModify y (StepZIDS.name ys)
  let value ← getAcc (Ax.name a)
  let product ← productToBus40 0
  let result ← addSub value product true
  satAndSetAccAndFlag (Ax.name a) result
  let vy ← dataRead yi
  modifyRegs fun r => { r with y := r.y.set 0 vy }
  modifyRegs fun r => { r with x := r.x.set 0 (imm16 x) }
  doMultiplication 0 true true

def msusu_ArRn2_ArStep2_Ax (x xs a : Nat) : Exec Unit := do
  let xi ← rnAddressAndModify (← getArRnUnit x) (← getArStep xs)
  let value ← getAcc (Ax.name a)
  let product ← productToBus40 0
  let result ← addSub value product true
  satAndSetAccAndFlag (Ax.name a) result
  let vx ← dataRead xi
  modifyRegs fun r => { r with x := r.x.set 0 vx }
  doMultiplication 0 false true

def mac_x1to0_Ax (a : Nat) : Exec Unit := do
  let value ← getAcc (Ax.name a)
  let product ← productToBus40 0
  let result ← addSub value product false
  satAndSetAccAndFlag (Ax.name a) result
  modifyRegs fun r => { r with x := r.x.set 0 r.x[1] }
  doMultiplication 0 true true

def mac1_ArpRn1_ArpStep1_ArpStep1_Ax (xy xis yjs a : Nat) : Exec Unit := do
  let (ui, uj) ← getArpRnUnit xy
  let (si, sj) ← getArpStep xis yjs
  let i ← rnAddressAndModify ui si
  let j ← rnAddressAndModify uj sj
  let value ← getAcc (Ax.name a)
  let product ← productToBus40 1
  let result ← addSub value product false
  satAndSetAccAndFlag (Ax.name a) result
  let vx ← dataRead i
  modifyRegs fun r => { r with x := r.x.set 1 vx }
  let vy ← dataRead j
  modifyRegs fun r => { r with y := r.y.set 1 vy }
  doMultiplication 1 true true

end Teakra.Exec
