import TeakraModel.Interp
/-!
# Handlers: block repeat, bank exchange, bit reverse, branches, calls, context, returns, `load_*`
(`src/interpreter.h` lines 968–1234).  One `def` per C++ overload, named
`<method>_<operand types>`; operands arrive as their raw `storage` value.
-/
namespace Teakra.Exec
open Teakra Interp RegName

/-- `regs.bkrep_stack[i] = f` for an index known to be inside the array. -/
private def setFrame (r : Regs) (i : Nat) (f : BkFrame → BkFrame) : Regs :=
  if h : i < 4 then { r with bkrep := r.bkrep.set i (f r.bkrep[i]) } else r

/-- `BlockRepeat` -/
def blockRepeat (lc : U16) (address : U32) : Exec Unit := do
  assert ((← getRegs).bcn.toNat ≤ 3)
  modifyRegs fun r =>
    let r := setFrame r r.bcn.toNat fun f => { f with start := r.pc }
    let r := setFrame r r.bcn.toNat fun f => { f with end_ := address }
    let r := setFrame r r.bcn.toNat fun f => { f with lc := lc }
    { r with lp := 1, bcn := r.bcn + 1 }

def bkrep_Imm8_Address16 (a addr : Nat) : Exec Unit := do
  let lc := imm16 a
  let address : U32 := BitVec.ofNat 32 addr ||| ((← getRegs).pc &&& 0x30000)
  blockRepeat lc address

def bkrep_Register_Address18_16_Address18_2 (a addrLow addrHigh : Nat) : Exec Unit := do
  let lc ← regToBus16 (Register.name a)
  let address := address18 addrLow addrHigh
  blockRepeat lc address

def bkrep_r6_Address18_16_Address18_2 (addrLow addrHigh : Nat) : Exec Unit := do
  let lc := (← getRegs).r[6]
  let address := address18 addrLow addrHigh
  blockRepeat lc address

/-- A `u16&` into the register file (`regs.r[unit]` or `regs.sp`). -/
structure RegRef where
  get : Regs → U16
  set : Regs → U16 → Regs

def RegRef.rn (unit : Nat) : RegRef :=
  { get := fun r => r.r.toArray.getD unit 0, set := fun r v => { r with r := vset r.r unit v } }
def RegRef.sp : RegRef := { get := fun r => r.sp, set := fun r v => { r with sp := v } }

/-- `mem.DataRead(address_reg++)` -/
private def readPostInc (ar : RegRef) : Exec U16 := do
  let address := ar.get (← getRegs)
  modifyRegs fun r => ar.set r (address + 1)
  dataRead address

/-- `mem.DataWrite(--address_reg, v)` -/
private def writePreDec (ar : RegRef) (v : U16) : Exec Unit := do
  modifyRegs fun r => ar.set r (ar.get r - 1)
  dataWrite (ar.get (← getRegs)) v

/-- `RestoreBlockRepeat` -/
def restoreBlockRepeat (ar : RegRef) : Exec Unit := do
  if (← getRegs).lp != 0 then
    assert ((← getRegs).bcn.toNat ≤ 3)
    -- `std::copy_backward(begin, begin + bcn, begin + bcn + 1)`: frame k moves to k + 1
    modifyRegs fun r =>
      let n := r.bcn.toNat
      { r with bkrep := Vector.ofFn fun (k : Fin 4) =>
                 if 1 ≤ k.val ∧ k.val ≤ n then r.bkrep.toArray.getD (k.val - 1) {} else r.bkrep[k],
               bcn := r.bcn + 1 }
  let flag : U32 := (← readPostInc ar).setWidth 32
  let valid : U16 := (flag >>> 15).setWidth 16
  if (← getRegs).lp != 0 then
    assert (valid != 0)
  else
    if valid != 0 then modifyRegs fun r => { r with bcn := 1, lp := 1 }
  let e ← readPostInc ar
  modifyRegs fun r => setFrame r 0 fun f => { f with end_ := e.setWidth 32 ||| (((flag >>> 8) &&& 3) <<< 16) }
  let s ← readPostInc ar
  modifyRegs fun r => setFrame r 0 fun f => { f with start := s.setWidth 32 ||| ((flag &&& 3) <<< 16) }
  let lc ← readPostInc ar
  modifyRegs fun r => setFrame r 0 fun f => { f with lc := lc }

/-- `StoreBlockRepeat`.  With `lp` set, `std::copy(begin + 1, begin + bcn, begin)` is only defined
for `1 ≤ bcn ≤ 4`; outside that range (reachable only with an inconsistent `lp`/`bcn` pair) the
C++ is undefined behaviour and the model stops with `oob`. -/
def storeBlockRepeat (ar : RegRef) : Exec Unit := do
  writePreDec ar (← getRegs).bkrep[0].lc
  writePreDec ar (((← getRegs).bkrep[0].start &&& 0xFFFF).setWidth 16)
  writePreDec ar (((← getRegs).bkrep[0].end_ &&& 0xFFFF).setWidth 16)
  let r ← getRegs
  let flag : U16 := r.lp <<< 15
  let flag : U16 := (flag.setWidth 32 ||| (r.bkrep[0].start >>> 16)).setWidth 16
  let flag : U16 := (flag.setWidth 32 ||| ((r.bkrep[0].end_ >>> 16) <<< 8)).setWidth 16
  writePreDec ar flag
  if (← getRegs).lp != 0 then
    let n := (← getRegs).bcn.toNat
    if n == 0 || n > 4 then abort .oob
    modifyRegs fun r =>
      { r with bkrep := Vector.ofFn fun (k : Fin 4) =>
                 if k.val + 1 < n then r.bkrep.toArray.getD (k.val + 1) {} else r.bkrep[k],
               bcn := r.bcn - 1 }
    if (← getRegs).bcn == 0 then modifyRegs fun r => { r with lp := 0 }

def bkreprst_ArRn2 (a : Nat) : Exec Unit := do restoreBlockRepeat (.rn (← getArRnUnit a))
def bkreprst_memsp : Exec Unit := restoreBlockRepeat .sp
def bkrepsto_ArRn2 (a : Nat) : Exec Unit := do storeBlockRepeat (.rn (← getArRnUnit a))
def bkrepsto_memsp : Exec Unit := storeBlockRepeat .sp

/-- The six independent exchanges of `banke` as functions on the register file
(`std::swap` of a register with its bank copy; `stepi0`/`stepj0` only when `stp16` is set). -/
def bkI (r : Regs) : Regs :=
  let r := { r with stepi := r.stepib, stepib := r.stepi, modi := r.modib, modib := r.modi }
  if r.stp16 != 0 then { r with stepi0 := r.stepi0b, stepi0b := r.stepi0 } else r
def bkJ (r : Regs) : Regs :=
  let r := { r with stepj := r.stepjb, stepjb := r.stepj, modj := r.modjb, modjb := r.modj }
  if r.stp16 != 0 then { r with stepj0 := r.stepj0b, stepj0b := r.stepj0 } else r
def bkR4 (r : Regs) : Regs := { r with r := r.r.set 4 r.r4b, r4b := r.r[4] }
def bkR1 (r : Regs) : Regs := { r with r := r.r.set 1 r.r1b, r1b := r.r[1] }
def bkR0 (r : Regs) : Regs := { r with r := r.r.set 0 r.r0b, r0b := r.r[0] }
def bkR7 (r : Regs) : Regs := { r with r := r.r.set 7 r.r7b, r7b := r.r[7] }

def banke_BankFlags (flags : Nat) : Exec Unit := do
  let f := BankFlags.decode flags
  if f.cfgi then modifyRegs bkI
  if f.r4 then modifyRegs bkR4
  if f.r1 then modifyRegs bkR1
  if f.r0 then modifyRegs bkR0
  if f.r7 then modifyRegs bkR7
  if f.cfgj then modifyRegs bkJ

def bankr : Exec Unit := modifyRegs swapAllArArpPure

def bankr_Ar (a : Nat) : Exec Unit := modifyRegs fun r => swapArPure r (Fin.ofNat 2 a)

def bankr_Ar_Arp (a b : Nat) : Exec Unit := do
  modifyRegs fun r => swapArPure r (Fin.ofNat 2 a)
  modifyRegs fun r => swapArpPure r (Fin.ofNat 4 b)

def bankr_Arp (a : Nat) : Exec Unit := modifyRegs fun r => swapArpPure r (Fin.ofNat 4 a)

def bitrev_Rn (a : Nat) : Exec Unit := do
  let unit := a
  setR unit (Alu.bitReverse ((← getRegs).r.toArray.getD unit 0))

def bitrev_dbrv_Rn (a : Nat) : Exec Unit := do
  let unit := a
  setR unit (Alu.bitReverse ((← getRegs).r.toArray.getD unit 0))
  modifyRegs fun r => { r with br := vset r.br unit 0 }

def bitrev_ebrv_Rn (a : Nat) : Exec Unit := do
  let unit := a
  setR unit (Alu.bitReverse ((← getRegs).r.toArray.getD unit 0))
  modifyRegs fun r => { r with br := vset r.br unit 1 }

def br_Address18_16_Address18_2_Cond (addrLow addrHigh cond : Nat) : Exec Unit := do
  if ← conditionPass (Cond.name cond) then
    setPC (address18 addrLow addrHigh)

def brr_RelAddr7_Cond (addr cond : Nat) : Exec Unit := do
  if ← conditionPass (Cond.name cond) then
    -- note: pc is the address of the NEXT instruction; plain `u32` addition, no `SetPC`
    modifyRegs fun r => { r with pc := r.pc + relAddr7 addr }
    if relAddr7 addr == 0xFFFFFFFF then
      modify fun c => { c with idle := true }

def break_ : Exec Unit := do
  assert ((← getRegs).lp != 0)
  modifyRegs fun r => { r with bcn := r.bcn - 1 }
  modifyRegs fun r => { r with lp := Alu.b2u (r.bcn != 0) }

def call_Address18_16_Address18_2_Cond (addrLow addrHigh cond : Nat) : Exec Unit := do
  if ← conditionPass (Cond.name cond) then
    pushPC
    setPC (address18 addrLow addrHigh)

def calla_Axl (a : Nat) : Exec Unit := do
  pushPC
  setPC ((← regToBus16 (Axl.name a)).setWidth 32)

def calla_Ax (a : Nat) : Exec Unit := do
  pushPC
  setPC (((← getAcc (Ax.name a)) &&& 0x3FFFF).setWidth 32)

def callr_RelAddr7_Cond (addr cond : Nat) : Exec Unit := do
  if ← conditionPass (Cond.name cond) then
    pushPC
    modifyRegs fun r => { r with pc := r.pc + relAddr7 addr }

def cntx_s : Exec Unit := contextStore
def cntx_r : Exec Unit := contextRestore

def ret_Cond (c : Nat) : Exec Unit := do
  if ← conditionPass (Cond.name c) then
    popPC

def retd : Exec Unit := unimpl

def reti_Cond (c : Nat) : Exec Unit := do
  if ← conditionPass (Cond.name c) then
    popPC
    modifyRegs fun r => { r with ie := 1 }

def retic_Cond (c : Nat) : Exec Unit := do
  if ← conditionPass (Cond.name c) then
    popPC
    modifyRegs fun r => { r with ie := 1 }
    contextRestore

def retid : Exec Unit := unreachable

def retidc : Exec Unit := unreachable

def rets_Imm8 (a : Nat) : Exec Unit := do
  popPC
  modifyRegs fun r => { r with sp := r.sp + imm16 a }

def load_ps_Imm2 (a : Nat) : Exec Unit := modifyRegs fun r => { r with ps := r.ps.set 0 (imm16 a) }

/-- Although the operand is signed, only the lower 7 bits are stored. -/
def load_stepi_Imm7s (a : Nat) : Exec Unit := modifyRegs fun r => { r with stepi := imms16 7 a &&& 0x7F }

def load_stepj_Imm7s (a : Nat) : Exec Unit := modifyRegs fun r => { r with stepj := imms16 7 a &&& 0x7F }

def load_page_Imm8 (a : Nat) : Exec Unit := modifyRegs fun r => { r with page := imm16 a }

def load_modi_Imm9 (a : Nat) : Exec Unit := modifyRegs fun r => { r with modi := imm16 a }

def load_modj_Imm9 (a : Nat) : Exec Unit := modifyRegs fun r => { r with modj := imm16 a }

def load_movpd_Imm2 (a : Nat) : Exec Unit := modifyRegs fun r => { r with pcmhi := imm16 a }

def load_ps01_Imm4 (a : Nat) : Exec Unit := do
  modifyRegs fun r => { r with ps := r.ps.set 0 (imm16 a &&& 3) }
  modifyRegs fun r => { r with ps := r.ps.set 1 (imm16 a >>> 2) }

end Teakra.Exec
