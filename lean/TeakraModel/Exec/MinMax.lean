import TeakraModel.Interp
import TeakraModel.Exec.Alm
import TeakraModel.Exec.Mma
/-!
# Handlers: vtr*, clrp*, max_*/min_*, divs, sqr_*, cmp*, max2_vtr*/min2_vtr*, cbs
(`src/interpreter.h` lines 2417–2761 and 2770–2820).  One `def` per C++ overload.
-/
namespace Teakra.Exec
open Teakra Interp RegName

def vtrclr0 : Exec Unit := modifyRegs fun r => { r with vtr0 := 0 }
def vtrclr1 : Exec Unit := modifyRegs fun r => { r with vtr1 := 0 }
def vtrclr : Exec Unit := do
  modifyRegs fun r => { r with vtr0 := 0 }
  modifyRegs fun r => { r with vtr1 := 0 }

def vtrmov0_Axl (a : Nat) : Exec Unit := do
  satAndSetAccAndFlag (Axl.name a) ((← getRegs).vtr0.setWidth 64)
def vtrmov1_Axl (a : Nat) : Exec Unit := do
  satAndSetAccAndFlag (Axl.name a) ((← getRegs).vtr1.setWidth 64)
def vtrmov_Axl (a : Nat) : Exec Unit := do
  let r ← getRegs
  satAndSetAccAndFlag (Axl.name a) (((r.vtr1 &&& 0xFF00) ||| (r.vtr0 >>> 8)).setWidth 64)

/-- `(vtr >> 1) | (fc << 15)` is computed in `int` and truncated to `u16` on assignment. -/
def vtrshr : Exec Unit := do
  let sh (vtr fc : U16) : U16 :=
    (((vtr >>> 1).setWidth 32 : U32) ||| ((fc.setWidth 32 : U32) <<< 15)).setWidth 16
  modifyRegs fun r => { r with vtr0 := sh r.vtr0 r.fc0 }
  modifyRegs fun r => { r with vtr1 := sh r.vtr1 r.fc1 }

def clrp0 : Exec Unit := productFromBus32 0 0
def clrp1 : Exec Unit := productFromBus32 1 0
def clrp : Exec Unit := do
  productFromBus32 0 0
  productFromBus32 1 0

/-- Common tail of `max_*` / `min_*`: `cond` decides on `d = v - u`. -/
def minMaxSelect (cond : U64 → Bool) (a : RegName) (d v : U64) (r0 : U16) : Exec Unit := do
  if cond d then
    modifyRegs fun r => { r with fm := 1 }
    modifyRegs fun r => { r with mixp := r0 }
    setAcc a v
  else
    modifyRegs fun r => { r with fm := 0 }

def condGe (d : U64) : Bool := ((d >>> 63) &&& 1) == 0
def condGt (d : U64) : Bool := ((d >>> 63) &&& 1) == 0 && d != 0
def condLe (d : U64) : Bool := ((d >>> 63) &&& 1) == 1 || d == 0
def condLt (d : U64) : Bool := ((d >>> 63) &&& 1) == 1

/-- `max_ge` / `max_gt` / `min_le` / `min_lt` (Ax a, StepZIDS bs) -/
def minMaxAcc (cond : U64 → Bool) (a bs : Nat) : Exec Unit := do
  let an := Ax.name a
  let u ← getAcc an
  let v ← getAcc (← counterAcc an)
  let d := v - u
  let r0 ← rnAndModify 0 (StepZIDS.name bs)
  minMaxSelect cond an d v r0

def max_ge_Ax_StepZIDS (a bs : Nat) : Exec Unit := minMaxAcc condGe a bs
def max_gt_Ax_StepZIDS (a bs : Nat) : Exec Unit := minMaxAcc condGt a bs
def min_le_Ax_StepZIDS (a bs : Nat) : Exec Unit := minMaxAcc condLe a bs
def min_lt_Ax_StepZIDS (a bs : Nat) : Exec Unit := minMaxAcc condLt a bs

/-- `max_ge_r0` / `max_gt_r0` / `min_le_r0` / `min_lt_r0` (Ax a, StepZIDS bs) -/
def minMaxR0 (cond : U64 → Bool) (a bs : Nat) : Exec Unit := do
  let an := Ax.name a
  let u ← getAcc an
  let r0 ← rnAndModify 0 (StepZIDS.name bs)
  let v := Alu.signExtend 16 ((← dataRead (← rnAddress 0 r0)).setWidth 64)
  let d := v - u
  minMaxSelect cond an d v r0

def max_ge_r0_Ax_StepZIDS (a bs : Nat) : Exec Unit := minMaxR0 condGe a bs
def max_gt_r0_Ax_StepZIDS (a bs : Nat) : Exec Unit := minMaxR0 condGt a bs
def min_le_r0_Ax_StepZIDS (a bs : Nat) : Exec Unit := minMaxR0 condLe a bs
def min_lt_r0_Ax_StepZIDS (a bs : Nat) : Exec Unit := minMaxR0 condLt a bs

def divs_MemImm8_Ax (a b : Nat) : Exec Unit := do
  let da ← loadMemImm8 a
  let db ← getAcc (Ax.name b)
  let value : U64 := db - ((da.setWidth 64 : U64) <<< 15)
  if (value >>> 63) != 0 then
    setAccAndFlag (Ax.name b) (Alu.signExtend 40 (db <<< 1))
  else
    setAccAndFlag (Ax.name b) (Alu.signExtend 40 ((value <<< 1) + 1))

def sqr_sqr_add3_Ab_Ab (a b : Nat) : Exec Unit := do
  let value ← getAcc (Ab.name a)
  productSum .acc (Ab.name b) false false false false
  let h : U16 := ((value >>> 16) &&& 0xFFFF).setWidth 16
  let l : U16 := (value &&& 0xFFFF).setWidth 16
  modifyRegs fun r => { r with y := r.y.set 0 h }
  modifyRegs fun r => { r with x := r.x.set 0 h }
  modifyRegs fun r => { r with y := r.y.set 1 l }
  modifyRegs fun r => { r with x := r.x.set 1 l }
  doMultiplication 0 true true
  doMultiplication 1 true true

def sqr_sqr_add3_ArRn2_ArStep2_Ab (a as_ b : Nat) : Exec Unit := do
  productSum .acc (Ab.name b) false false false false
  let unit ← getArRnUnit a
  let address0 ← rnAddressAndModify unit (← getArStep as_)
  let address1 ← offsetAddress unit address0 (← getArOffset as_)
  let v ← dataRead address0
  modifyRegs fun r => { r with y := r.y.set 0 v }
  modifyRegs fun r => { r with x := r.x.set 0 v }
  let v ← dataRead address1
  modifyRegs fun r => { r with y := r.y.set 1 v }
  modifyRegs fun r => { r with x := r.x.set 1 v }
  doMultiplication 0 true true
  doMultiplication 1 true true

def sqr_mpysu_add3a_Ab_Ab (a b : Nat) : Exec Unit := do
  let value ← getAcc (Ab.name a)
  productSum .acc (Ab.name b) false false false true
  let h : U16 := ((value >>> 16) &&& 0xFFFF).setWidth 16
  let l : U16 := (value &&& 0xFFFF).setWidth 16
  modifyRegs fun r => { r with y := r.y.set 1 h }
  modifyRegs fun r => { r with y := r.y.set 0 h }
  modifyRegs fun r => { r with x := r.x.set 0 h }
  modifyRegs fun r => { r with x := r.x.set 1 l }
  doMultiplication 0 true true
  doMultiplication 1 false true

def cmp_Ax_Bx (a b : Nat) : Exec Unit := do
  let va ← getAcc (Ax.name a)
  let vb ← getAcc (Bx.name b)
  setAccFlag (← addSub vb va true)
def cmp_b0_b1 : Exec Unit := do
  let va ← getAcc b0
  let vb ← getAcc b1
  setAccFlag (← addSub vb va true)
def cmp_b1_b0 : Exec Unit := do
  let va ← getAcc b1
  let vb ← getAcc b0
  setAccFlag (← addSub vb va true)
def cmp_Bx_Ax (a b : Nat) : Exec Unit := do
  let va ← getAcc (Bx.name a)
  let vb ← getAcc (Ax.name b)
  setAccFlag (← addSub vb va true)
def cmp_p1_to_Ax (b : Nat) : Exec Unit := do
  let va ← productToBus40 1
  let vb ← getAcc (Ax.name b)
  setAccFlag (← addSub vb va true)

/-- `MinMaxVtr` -/
def minMaxVtr (a b : RegName) (min : Bool) : Exec Unit := do
  let u ← getAcc a
  let v ← getAcc b
  let uh := Alu.signExtend 24 (u >>> 16)
  let ul := Alu.signExtend 16 (u &&& 0xFFFF)
  let vh := Alu.signExtend 24 (v >>> 16)
  let vl := Alu.signExtend 16 (v &&& 0xFFFF)
  let wh := if min then uh - vh else vh - uh
  let wl := if min then ul - vl else vl - ul
  modifyRegs fun r => { r with fc0 := Alu.b2u ((wh >>> 63) == 0) }
  modifyRegs fun r => { r with fc1 := Alu.b2u ((wl >>> 63) == 0) }
  let r ← getRegs
  let wh := if r.fc0 != 0 then vh else uh
  let wl := if r.fc1 != 0 then vl else ul
  let w := (wh <<< 16) ||| (wl &&& 0xFFFF)
  setAcc a w
  vtrshr

def max2_vtr_Ax (a : Nat) : Exec Unit := do
  minMaxVtr (Ax.name a) (← counterAcc (Ax.name a)) false
def min2_vtr_Ax (a : Nat) : Exec Unit := do
  minMaxVtr (Ax.name a) (← counterAcc (Ax.name a)) true
def max2_vtr_Ax_Bx (a b : Nat) : Exec Unit := minMaxVtr (Ax.name a) (Bx.name b) false
def min2_vtr_Ax_Bx (a b : Nat) : Exec Unit := minMaxVtr (Ax.name a) (Bx.name b) true

/-- `{max2,min2}_vtr_mov{l,h}(a, b, ArRn1 c, ArStep1 cs)`; `high` selects `movh`. -/
def minMaxVtrMov (a b : RegName) (c cs : Nat) (min high : Bool) : Exec Unit := do
  minMaxVtr a b min
  let value ← getAndSatAccNoFlag (← counterAcc a)
  let unit ← getArRnUnit c
  let address ← rnAddressAndModify unit (← getArStep cs)
  let value16 : U16 :=
    if high then ((value >>> 16) &&& 0xFFFF).setWidth 16 else (value &&& 0xFFFF).setWidth 16
  dataWrite address value16

def max2_vtr_movl_Ax_Bx_ArRn1_ArStep1 (a b c cs : Nat) : Exec Unit :=
  minMaxVtrMov (Ax.name a) (Bx.name b) c cs false false
def max2_vtr_movh_Ax_Bx_ArRn1_ArStep1 (a b c cs : Nat) : Exec Unit :=
  minMaxVtrMov (Ax.name a) (Bx.name b) c cs false true
def max2_vtr_movl_Bx_Ax_ArRn1_ArStep1 (a b c cs : Nat) : Exec Unit :=
  minMaxVtrMov (Bx.name a) (Ax.name b) c cs false false
def max2_vtr_movh_Bx_Ax_ArRn1_ArStep1 (a b c cs : Nat) : Exec Unit :=
  minMaxVtrMov (Bx.name a) (Ax.name b) c cs false true
def min2_vtr_movl_Ax_Bx_ArRn1_ArStep1 (a b c cs : Nat) : Exec Unit :=
  minMaxVtrMov (Ax.name a) (Bx.name b) c cs true false
def min2_vtr_movh_Ax_Bx_ArRn1_ArStep1 (a b c cs : Nat) : Exec Unit :=
  minMaxVtrMov (Ax.name a) (Bx.name b) c cs true true
def min2_vtr_movl_Bx_Ax_ArRn1_ArStep1 (a b c cs : Nat) : Exec Unit :=
  minMaxVtrMov (Bx.name a) (Ax.name b) c cs true false
def min2_vtr_movh_Bx_Ax_ArRn1_ArStep1 (a b c cs : Nat) : Exec Unit :=
  minMaxVtrMov (Bx.name a) (Ax.name b) c cs true true

/-- `{max2,min2}_vtr_mov{ij,ji}(Ax a, Bx b, ArpRn1 c, ArpStep1 csi, ArpStep1 csj)`; `ij` writes the
high half to `i` and the low half to `j`, `ji` the other way round. -/
def minMaxVtrMovArp (a b c csi csj : Nat) (min ij : Bool) : Exec Unit := do
  minMaxVtr (Ax.name a) (Bx.name b) min
  let value ← getAndSatAccNoFlag (← counterAcc (Ax.name a))
  let h : U16 := ((value >>> 16) &&& 0xFFFF).setWidth 16
  let l : U16 := (value &&& 0xFFFF).setWidth 16
  let (ui, uj) ← getArpRnUnit c
  let (si, sj) ← getArpStep csi csj
  let i ← rnAddressAndModify ui si
  let j ← rnAddressAndModify uj sj
  if ij then
    dataWrite i h
    dataWrite j l
  else
    dataWrite i l
    dataWrite j h

def max2_vtr_movij_Ax_Bx_ArpRn1_ArpStep1_ArpStep1 (a b c csi csj : Nat) : Exec Unit :=
  minMaxVtrMovArp a b c csi csj false true
def max2_vtr_movji_Ax_Bx_ArpRn1_ArpStep1_ArpStep1 (a b c csi csj : Nat) : Exec Unit :=
  minMaxVtrMovArp a b c csi csj false false
def min2_vtr_movij_Ax_Bx_ArpRn1_ArpStep1_ArpStep1 (a b c csi csj : Nat) : Exec Unit :=
  minMaxVtrMovArp a b c csi csj true true
def min2_vtr_movji_Ax_Bx_ArpRn1_ArpStep1_ArpStep1 (a b c csi csj : Nat) : Exec Unit :=
  minMaxVtrMovArp a b c csi csj true false

/-- `CodebookSearch` -/
def codebookSearch (u v r : U16) (c : CbsCondValue) : Exec Unit := do
  let diff : U64 := (← productToBus40 0) - (← productToBus40 1)
  let cond := match c with
    | .ge => (diff >>> 63) == 0
    | .gt => (diff >>> 63) == 0 && diff != 0
  if cond then
    modifyRegs fun rg => { rg with x := rg.x.set 1 rg.p0h_cbs }
    modifyRegs fun rg => { rg with x := rg.x.set 0 rg.y[1] }
    modifyRegs fun rg => { rg with mixp := r }
  modifyRegs fun rg => { rg with y := rg.y.set 0 u }
  -- `std::exchange(regs.x[0], regs.y[0])`
  let x0 := (← getRegs).x[0]
  modifyRegs fun rg => { rg with x := rg.x.set 0 rg.y[0] }
  doMultiplication 0 true true
  let ph : U16 := (((← productToBus40 0) >>> 16) &&& 0xFFFF).setWidth 16
  modifyRegs fun rg => { rg with y := rg.y.set 0 ph, p0h_cbs := ph }
  modifyRegs fun rg => { rg with x := rg.x.set 0 x0 }
  modifyRegs fun rg => { rg with y := rg.y.set 1 v }
  doMultiplication 0 true true
  doMultiplication 1 true true

def cbs_Axh_CbsCond (a c : Nat) : Exec Unit := do
  let u : U16 := (((← getAcc (Axh.name a)) >>> 16) &&& 0xFFFF).setWidth 16
  let v : U16 := (((← getAcc (← counterAcc (Axh.name a))) >>> 16) &&& 0xFFFF).setWidth 16
  let r := (← getRegs).r[0]
  codebookSearch u v r (CbsCond.name c)

def cbs_Axh_Bxh_CbsCond (a b c : Nat) : Exec Unit := do
  let u : U16 := (((← getAcc (Axh.name a)) >>> 16) &&& 0xFFFF).setWidth 16
  let v : U16 := (((← getAcc (Bxh.name b)) >>> 16) &&& 0xFFFF).setWidth 16
  let r := (← getRegs).r[0]
  codebookSearch u v r (CbsCond.name c)

def cbs_ArpRn1_ArpStep1_ArpStep1_CbsCond (a asi asj c : Nat) : Exec Unit := do
  let (ui, uj) ← getArpRnUnit a
  let (si, sj) ← getArpStep asi asj
  let aip ← rnAndModify ui si
  let ai ← rnAddress ui aip
  let aj ← rnAddressAndModify uj sj
  let u ← dataRead ai
  let v ← dataRead aj
  let r := aip
  codebookSearch u v r (CbsCond.name c)

end Teakra.Exec
