import TeakraModel.Interp
import TeakraModel.Exec.Alm
/-!
# Handlers: movs / movsi / movr, exp, lim
(`src/interpreter.h` lines 2279–2415).  One `def` per C++ overload.
-/
namespace Teakra.Exec
open Teakra Interp RegName

def movs_MemImm8_Ab (a b : Nat) : Exec Unit := do
  let value := Alu.signExtend 16 ((← loadMemImm8 a).setWidth 64)
  let sv := (← getRegs).sv
  shiftBus40 value sv (Ab.name b)

def movs_Rn_StepZIDS_Ab (a as_ b : Nat) : Exec Unit := do
  let address ← rnAddressAndModify a (StepZIDS.name as_)
  let value := Alu.signExtend 16 ((← dataRead address).setWidth 64)
  let sv := (← getRegs).sv
  shiftBus40 value sv (Ab.name b)

def movs_Register_Ab (a b : Nat) : Exec Unit := do
  let value := Alu.signExtend 16 ((← regToBus16 (Register.name a)).setWidth 64)
  let sv := (← getRegs).sv
  shiftBus40 value sv (Ab.name b)

def movs_r6_to_Ax (b : Nat) : Exec Unit := do
  let value := Alu.signExtend 16 ((← getRegs).r[6].setWidth 64)
  let sv := (← getRegs).sv
  shiftBus40 value sv (Ax.name b)

def movsi_RnOld_Ab_Imm5s (a b s : Nat) : Exec Unit := do
  let value := Alu.signExtend 16 ((← regToBus16 (RnOld.name a)).setWidth 64)
  let sv := imms16 5 s
  shiftBus40 value sv (Ab.name b)

/-- The 16-bit rounding of `movr`: `fc0` from bit 16, `fv` cleared (and `fvl` untouched). -/
def movrRound16 (value16 : U16) : Exec U64 := do
  let result : U64 := value16.setWidth 64 + 0x8000
  modifyRegs fun r => { r with fc0 := (result >>> 16).setWidth 16, fv := 0 }
  return result &&& 0xFFFF

def movr_ArRn2_ArStep2_Abh (a as_ b : Nat) : Exec Unit := do
  let unit ← getArRnUnit a
  let step ← getArStep as_
  let value16 ← dataRead (← rnAddressAndModify unit step)
  let value := Alu.signExtend 32 ((value16.setWidth 64 : U64) <<< 16)
  let result ← addSub value 0x8000 false
  satAndSetAccAndFlag (Abh.name b) result

def movr_Rn_StepZIDS_Ax (a as_ b : Nat) : Exec Unit := do
  let value16 ← dataRead (← rnAddressAndModify a (StepZIDS.name as_))
  let result ← movrRound16 value16
  satAndSetAccAndFlag (Ax.name b) result

def movr_Register_Ax (a b : Nat) : Exec Unit := do
  let an := Register.name a
  let result ←
    if an == a0 || an == a1 then do
      let value ← getAcc an
      addSub value 0x8000 false
    else if an == p then do
      let value ← productToBus40 0
      addSub value 0x8000 false
    else do
      let value16 ← regToBus16 an
      movrRound16 value16
  satAndSetAccAndFlag (Ax.name b) result

def movr_Bx_Ax (a b : Nat) : Exec Unit := do
  let value ← getAcc (Bx.name a)
  let result ← addSub value 0x8000 false
  satAndSetAccAndFlag (Ax.name b) result

def movr_r6_to_Ax (b : Nat) : Exec Unit := do
  let value16 := (← getRegs).r[6]
  let result ← movrRound16 value16
  satAndSetAccAndFlag (Ax.name b) result

/-- `regs.sv = Exp(value)` -/
def setSvExp (value : U64) : Exec Unit := modifyRegs fun r => { r with sv := Alu.exp value }

def exp_Bx (a : Nat) : Exec Unit := do
  let value ← getAcc (Bx.name a)
  setSvExp value

def exp_Bx_Ax (a b : Nat) : Exec Unit := do
  exp_Bx a
  expStore (Ax.name b)

def exp_Rn_StepZIDS (a as_ : Nat) : Exec Unit := do
  let address ← rnAddressAndModify a (StepZIDS.name as_)
  let value := Alu.signExtend 32 (((← dataRead address).setWidth 64 : U64) <<< 16)
  setSvExp value

def exp_Rn_StepZIDS_Ax (a as_ b : Nat) : Exec Unit := do
  exp_Rn_StepZIDS a as_
  expStore (Ax.name b)

def exp_Register (a : Nat) : Exec Unit := do
  let an := Register.name a
  let value ←
    if an == a0 || an == a1 then getAcc an
    else do pure (Alu.signExtend 32 (((← regToBus16 an).setWidth 64 : U64) <<< 16))
  setSvExp value

def exp_Register_Ax (a b : Nat) : Exec Unit := do
  exp_Register a
  expStore (Ax.name b)

def exp_r6 : Exec Unit := do
  let value := Alu.signExtend 32 (((← regToBus16 r6).setWidth 64 : U64) <<< 16)
  setSvExp value

def exp_r6_Ax (b : Nat) : Exec Unit := do
  exp_r6
  expStore (Ax.name b)

def lim_Ax_Ax (a b : Nat) : Exec Unit := do
  let value ← getAcc (Ax.name a)
  let value ← saturateAcc value
  setAccAndFlag (Ax.name b) value

end Teakra.Exec
