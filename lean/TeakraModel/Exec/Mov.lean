import TeakraModel.Interp
import TeakraModel.Exec.Alm
/-!
# Handlers: the mov / mov2 / mova / exchange family
(`src/interpreter.h` lines 1653–2218; `StoreToMemory` / `LoadFromMemory` are
`storeMem…` / `loadMem…` of `Exec/Alm.lean`, `ShiftBus40` is `Interp.shiftBus40`).
One `def` per C++ overload, named `<method>_<operand types>`; operands arrive as their raw
`storage` value.
-/
namespace Teakra.Exec
open Teakra Interp RegName

/-- `Px::Index()` (a one-bit operand) as an index into `regs.p` / `regs.x` / … -/
def pxIndex (v : Nat) : Fin 2 := if v % 2 = 1 then 1 else 0

/-- `(u16)((value >> 16) & 0xFFFF)` -/
def hi16 (value : U64) : U16 := ((value >>> 16) &&& 0xFFFF).setWidth 16
/-- `(u16)(value & 0xFFFF)` -/
def lo16 (value : U64) : U16 := (value &&& 0xFFFF).setWidth 16
/-- `SignExtend<32, u64>(((u64)h << 16) | l)` -/
def join32 (h l : U16) : U64 :=
  Alu.signExtend 32 (((h.setWidth 64 : U64) <<< 16) ||| l.setWidth 64)

def mov_Ab_Ab (a b : Nat) : Exec Unit := do
  let value ← getAcc (Ab.name a)
  satAndSetAccAndFlag (Ab.name b) value

def mov_dvm_Abl (_a : Nat) : Exec Unit := unreachable

def mov_x0_Abl (a : Nat) : Exec Unit := do
  let value16 ← regToBus16 (Abl.name a) true
  modifyRegs fun r => { r with x := r.x.set 0 value16 }

def mov_x1_Abl (a : Nat) : Exec Unit := do
  let value16 ← regToBus16 (Abl.name a) true
  modifyRegs fun r => { r with x := r.x.set 1 value16 }

def mov_y1_Abl (a : Nat) : Exec Unit := do
  let value16 ← regToBus16 (Abl.name a) true
  modifyRegs fun r => { r with y := r.y.set 1 value16 }

def mov_Ablh_MemImm8 (a b : Nat) : Exec Unit := do
  let value16 ← regToBus16 (Ablh.name a) true
  storeMemImm8 b value16

def mov_Axl_MemImm16 (a b : Nat) : Exec Unit := do
  let value16 ← regToBus16 (Axl.name a) true
  storeMemImm16 b value16

def mov_Axl_MemR7Imm16 (a b : Nat) : Exec Unit := do
  let value16 ← regToBus16 (Axl.name a) true
  storeMemR7Imm16 b value16

def mov_Axl_MemR7Imm7s (a b : Nat) : Exec Unit := do
  let value16 ← regToBus16 (Axl.name a) true
  storeMemR7Imm7s b value16

def mov_MemImm16_Ax (a b : Nat) : Exec Unit := do
  let value ← loadMemImm16 a
  regFromBus16 (Ax.name b) value

def mov_MemImm8_Ab (a b : Nat) : Exec Unit := do
  let value ← loadMemImm8 a
  regFromBus16 (Ab.name b) value

def mov_MemImm8_Ablh (a b : Nat) : Exec Unit := do
  let value ← loadMemImm8 a
  regFromBus16 (Ablh.name b) value

def mov_eu_MemImm8_Axh (a b : Nat) : Exec Unit := do
  let value ← loadMemImm8 a
  let acc ← getAcc (Axh.name b)
  let acc := acc &&& 0xFFFFFFFF00000000
  let acc := acc ||| ((value.setWidth 64 : U64) <<< 16)
  setAccAndFlag (Axh.name b) acc

def mov_MemImm8_RnOld (a b : Nat) : Exec Unit := do
  let value ← loadMemImm8 a
  regFromBus16 (RnOld.name b) value

def mov_sv_MemImm8 (a : Nat) : Exec Unit := do
  let value ← loadMemImm8 a
  modifyRegs fun r => { r with sv := value }

def mov_dvm_to_Ab (_b : Nat) : Exec Unit := unreachable

def mov_icr_to_Ab (b : Nat) : Exec Unit := do
  let value ← getPseudo "icr"
  regFromBus16 (Ab.name b) value

def mov_Imm16_Bx (a b : Nat) : Exec Unit := do
  regFromBus16 (Bx.name b) (imm16 a)

def mov_Imm16_Register (a b : Nat) : Exec Unit := do
  regFromBus16 (Register.name b) (imm16 a)

def mov_icr_Imm5 (a : Nat) : Exec Unit := do
  let value ← getPseudo "icr"
  -- `value &= ~0x1F` : the int -32 truncated to u16
  let value := value &&& 0xFFE0
  let value := value ||| imm16 a
  setPseudo "icr" value

def mov_Imm8s_Axh (a b : Nat) : Exec Unit := do
  regFromBus16 (Axh.name b) (imms16 8 a)

def mov_Imm8s_RnOld (a b : Nat) : Exec Unit := do
  regFromBus16 (RnOld.name b) (imms16 8 a)

def mov_sv_Imm8s (a : Nat) : Exec Unit := do
  modifyRegs fun r => { r with sv := imms16 8 a }

def mov_Imm8_Axl (a b : Nat) : Exec Unit := do
  regFromBus16 (Axl.name b) (imm16 a)

def mov_MemR7Imm16_Ax (a b : Nat) : Exec Unit := do
  let value ← loadMemR7Imm16 a
  regFromBus16 (Ax.name b) value

def mov_MemR7Imm7s_Ax (a b : Nat) : Exec Unit := do
  let value ← loadMemR7Imm7s a
  regFromBus16 (Ax.name b) value

def mov_Rn_StepZIDS_Bx (a as_ b : Nat) : Exec Unit := do
  let address ← rnAddressAndModify a (StepZIDS.name as_)
  let value ← dataRead address
  regFromBus16 (Bx.name b) value

def mov_Rn_StepZIDS_Register (a as_ b : Nat) : Exec Unit := do
  let address ← rnAddressAndModify a (StepZIDS.name as_)
  let value ← dataRead address
  regFromBus16 (Register.name b) value

def mov_memsp_to_Register (b : Nat) : Exec Unit := do
  let value ← dataRead (← getRegs).sp
  regFromBus16 (Register.name b) value

def mov_mixp_to_Register (b : Nat) : Exec Unit := do
  let value := (← getRegs).mixp
  regFromBus16 (Register.name b) value

def mov_RnOld_MemImm8 (a b : Nat) : Exec Unit := do
  let value ← regToBus16 (RnOld.name a)
  storeMemImm8 b value

def mov_icr_Register (a : Nat) : Exec Unit := do
  let value ← regToBus16 (Register.name a) true
  setPseudo "icr" value

def mov_mixp_Register (a : Nat) : Exec Unit := do
  let value ← regToBus16 (Register.name a) true
  modifyRegs fun r => { r with mixp := value }

def mov_Register_Rn_StepZIDS (a b bs : Nat) : Exec Unit := do
  let value ← regToBus16 (Register.name a) true
  let address ← rnAddressAndModify b (StepZIDS.name bs)
  dataWrite address value

def mov_Register_Bx (a b : Nat) : Exec Unit := do
  let an := Register.name a
  if an == .p then
    let value ← productToBus40 0
    satAndSetAccAndFlag (Bx.name b) value
  else if an == .a0 || an == .a1 then
    let value ← getAcc an
    satAndSetAccAndFlag (Bx.name b) value
  else
    let value ← regToBus16 an true
    regFromBus16 (Bx.name b) value

def mov_Register_Register (a b : Nat) : Exec Unit := do
  let an := Register.name a
  let bn := Register.name b
  if an == .p then
    -- b loses its typical meaning in this case
    let bName := Register.nameForMovFromP b
    let value ← productToBus40 0
    satAndSetAccAndFlag bName value
  else if an == .pc then
    let pc := (← getRegs).pc
    if bn == .a0 || bn == .a1 then
      satAndSetAccAndFlag bn (pc.setWidth 64)
    else
      regFromBus16 bn ((pc &&& 0xFFFF).setWidth 16)
  else
    let value ← regToBus16 an true
    regFromBus16 bn value

def mov_repc_to_Ab (b : Nat) : Exec Unit := do
  let value := (← getRegs).repc
  regFromBus16 (Ab.name b) value

def mov_sv_to_MemImm8 (b : Nat) : Exec Unit := do
  let value := (← getRegs).sv
  storeMemImm8 b value

def mov_x0_to_Ab (b : Nat) : Exec Unit := do
  let value := (← getRegs).x[0]
  regFromBus16 (Ab.name b) value

def mov_x1_to_Ab (b : Nat) : Exec Unit := do
  let value := (← getRegs).x[1]
  regFromBus16 (Ab.name b) value

def mov_y1_to_Ab (b : Nat) : Exec Unit := do
  let value := (← getRegs).y[1]
  regFromBus16 (Ab.name b) value

def mov_Imm16_ArArp (a b : Nat) : Exec Unit := do
  regFromBus16 (ArArp.name b) (imm16 a)

def mov_r6_Imm16 (a : Nat) : Exec Unit := setR 6 (imm16 a)

def mov_repc_Imm16 (a : Nat) : Exec Unit := modifyRegs fun r => { r with repc := imm16 a }

def mov_stepi0_Imm16 (a : Nat) : Exec Unit := modifyRegs fun r => { r with stepi0 := imm16 a }

def mov_stepj0_Imm16 (a : Nat) : Exec Unit := modifyRegs fun r => { r with stepj0 := imm16 a }

def mov_Imm16_SttMod (a b : Nat) : Exec Unit := do
  regFromBus16 (SttMod.name b) (imm16 a)

def mov_prpage_Imm4 (a : Nat) : Exec Unit := modifyRegs fun r => { r with prpage := imm16 a }

def mov_a0h_stepi0 : Exec Unit := do
  let value ← regToBus16 .a0h true
  modifyRegs fun r => { r with stepi0 := value }

def mov_a0h_stepj0 : Exec Unit := do
  let value ← regToBus16 .a0h true
  modifyRegs fun r => { r with stepj0 := value }

def mov_stepi0_a0h : Exec Unit := do
  let value := (← getRegs).stepi0
  regFromBus16 .a0h value

def mov_stepj0_a0h : Exec Unit := do
  let value := (← getRegs).stepj0
  regFromBus16 .a0h value

def mov_prpage_Abl (a : Nat) : Exec Unit := do
  let value : U16 := ((← getAcc (Abl.name a)) &&& 0xF).setWidth 16
  modifyRegs fun r => { r with prpage := value }

def mov_repc_Abl (a : Nat) : Exec Unit := do
  let value ← regToBus16 (Abl.name a) true
  modifyRegs fun r => { r with repc := value }

def mov_Abl_ArArp (a b : Nat) : Exec Unit := do
  let value ← regToBus16 (Abl.name a) true
  regFromBus16 (ArArp.name b) value

def mov_Abl_SttMod (a b : Nat) : Exec Unit := do
  let value ← regToBus16 (Abl.name a) true
  regFromBus16 (SttMod.name b) value

def mov_prpage_to_Abl (b : Nat) : Exec Unit := do
  regFromBus16 (Abl.name b) (← getRegs).prpage

def mov_repc_to_Abl (b : Nat) : Exec Unit := do
  let value := (← getRegs).repc
  regFromBus16 (Abl.name b) value

def mov_ArArp_Abl (a b : Nat) : Exec Unit := do
  let value ← regToBus16 (ArArp.name a)
  regFromBus16 (Abl.name b) value

def mov_SttMod_Abl (a b : Nat) : Exec Unit := do
  let value ← regToBus16 (SttMod.name a)
  regFromBus16 (Abl.name b) value

def mov_repc_to_ArRn1_ArStep1 (b bs : Nat) : Exec Unit := do
  let address ← rnAddressAndModify (← getArRnUnit b) (← getArStep bs)
  let value := (← getRegs).repc
  dataWrite address value

def mov_ArArp_ArRn1_ArStep1 (a b bs : Nat) : Exec Unit := do
  let address ← rnAddressAndModify (← getArRnUnit b) (← getArStep bs)
  let value ← regToBus16 (ArArp.name a)
  dataWrite address value

def mov_SttMod_ArRn1_ArStep1 (a b bs : Nat) : Exec Unit := do
  let address ← rnAddressAndModify (← getArRnUnit b) (← getArStep bs)
  let value ← regToBus16 (SttMod.name a)
  dataWrite address value

def mov_repc_ArRn1_ArStep1 (a as_ : Nat) : Exec Unit := do
  let address ← rnAddressAndModify (← getArRnUnit a) (← getArStep as_)
  let value ← dataRead address
  modifyRegs fun r => { r with repc := value }

def mov_ArRn1_ArStep1_ArArp (a as_ b : Nat) : Exec Unit := do
  let address ← rnAddressAndModify (← getArRnUnit a) (← getArStep as_)
  let value ← dataRead address
  regFromBus16 (ArArp.name b) value

def mov_ArRn1_ArStep1_SttMod (a as_ b : Nat) : Exec Unit := do
  let address ← rnAddressAndModify (← getArRnUnit a) (← getArStep as_)
  let value ← dataRead address
  regFromBus16 (SttMod.name b) value

def mov_repc_to_MemR7Imm16 (b : Nat) : Exec Unit := do
  let value := (← getRegs).repc
  storeMemR7Imm16 b value

def mov_ArArpSttMod_MemR7Imm16 (a b : Nat) : Exec Unit := do
  let value ← regToBus16 (ArArpSttMod.name a)
  storeMemR7Imm16 b value

def mov_repc_MemR7Imm16 (a : Nat) : Exec Unit := do
  let value ← loadMemR7Imm16 a
  modifyRegs fun r => { r with repc := value }

def mov_MemR7Imm16_ArArpSttMod (a b : Nat) : Exec Unit := do
  let value ← loadMemR7Imm16 a
  regFromBus16 (ArArpSttMod.name b) value

def mov_pc_Ax (a : Nat) : Exec Unit := do
  let value ← getAcc (Ax.name a)
  setPC ((value &&& 0xFFFFFFFF).setWidth 32)

def mov_pc_Bx (a : Nat) : Exec Unit := do
  let value ← getAcc (Bx.name a)
  setPC ((value &&& 0xFFFFFFFF).setWidth 32)

def mov_mixp_to_Bx (b : Nat) : Exec Unit := do
  let value := (← getRegs).mixp
  regFromBus16 (Bx.name b) value

def mov_mixp_r6 : Exec Unit := do
  let value := (← getRegs).mixp
  setR 6 value

def mov_p0h_to_Bx (b : Nat) : Exec Unit := do
  let value := hi16 (← productToBus40 0)
  regFromBus16 (Bx.name b) value

def mov_p0h_r6 : Exec Unit := do
  let value := hi16 (← productToBus40 0)
  setR 6 value

def mov_p0h_to_Register (b : Nat) : Exec Unit := do
  let value := hi16 (← productToBus40 0)
  regFromBus16 (Register.name b) value

def mov_p0_Ab (a : Nat) : Exec Unit := do
  let value : U32 := ((← getAndSatAcc (Ab.name a)) &&& 0xFFFFFFFF).setWidth 32
  productFromBus32 0 value

def mov_p1_to_Ab (b : Nat) : Exec Unit := do
  let value ← productToBus40 1
  satAndSetAccAndFlag (Ab.name b) value

def mov2_Px_ArRn2_ArStep2 (a b bs : Nat) : Exec Unit := do
  let value ← productToBus32NoShift (pxIndex a)
  let l : U16 := (value &&& 0xFFFF).setWidth 16
  let h : U16 := ((value >>> 16) &&& 0xFFFF).setWidth 16
  let unit ← getArRnUnit b
  let address ← rnAddressAndModify unit (← getArStep bs)
  let address2 ← offsetAddress unit address (← getArOffset bs)
  -- NOTE: keep the write order exactly like this.
  dataWrite address2 l
  dataWrite address h

def mov2s_Px_ArRn2_ArStep2 (a b bs : Nat) : Exec Unit := do
  let value ← productToBus40 (pxIndex a)
  let l := lo16 value
  let h := hi16 value
  let unit ← getArRnUnit b
  let address ← rnAddressAndModify unit (← getArStep bs)
  let address2 ← offsetAddress unit address (← getArOffset bs)
  dataWrite address2 l
  dataWrite address h

def mov2_ArRn2_ArStep2_Px (a as_ b : Nat) : Exec Unit := do
  let unit ← getArRnUnit a
  let address ← rnAddressAndModify unit (← getArStep as_)
  let address2 ← offsetAddress unit address (← getArOffset as_)
  let l ← dataRead address2
  let h ← dataRead address
  let value : U32 := ((h.setWidth 32 : U32) <<< 16) ||| l.setWidth 32
  productFromBus32 (pxIndex b) value

def mova_Ab_ArRn2_ArStep2 (a b bs : Nat) : Exec Unit := do
  let value ← getAndSatAcc (Ab.name a)
  let l := lo16 value
  let h := hi16 value
  let unit ← getArRnUnit b
  let address ← rnAddressAndModify unit (← getArStep bs)
  let address2 ← offsetAddress unit address (← getArOffset bs)
  -- the second write overrides the first one if the offset is zero
  dataWrite address2 l
  dataWrite address h

def mova_ArRn2_ArStep2_Ab (a as_ b : Nat) : Exec Unit := do
  let unit ← getArRnUnit a
  let address ← rnAddressAndModify unit (← getArStep as_)
  let address2 ← offsetAddress unit address (← getArOffset as_)
  let l ← dataRead address2
  let h ← dataRead address
  satAndSetAccAndFlag (Ab.name b) (join32 h l)

def mov_r6_to_Bx (b : Nat) : Exec Unit := do
  let value := (← getRegs).r[6]
  regFromBus16 (Bx.name b) value

def mov_r6_mixp : Exec Unit := do
  let value := (← getRegs).r[6]
  modifyRegs fun r => { r with mixp := value }

def mov_r6_to_Register (b : Nat) : Exec Unit := do
  let value := (← getRegs).r[6]
  regFromBus16 (Register.name b) value

def mov_r6_Register (a : Nat) : Exec Unit := do
  let value ← regToBus16 (Register.name a) true
  setR 6 value

def mov_memsp_r6 : Exec Unit := do
  let value ← dataRead (← getRegs).sp
  setR 6 value

def mov_r6_to_Rn_StepZIDS (b bs : Nat) : Exec Unit := do
  let value := (← getRegs).r[6]
  let address ← rnAddressAndModify b (StepZIDS.name bs)
  dataWrite address value

def mov_r6_Rn_StepZIDS (a as_ : Nat) : Exec Unit := do
  let address ← rnAddressAndModify a (StepZIDS.name as_)
  let value ← dataRead address
  setR 6 value

def mov2_axh_m_y0_m_Axh_ArRn2_ArStep2 (a b bs : Nat) : Exec Unit := do
  let u := hi16 (← getAndSatAccNoFlag (Axh.name a))
  let v := (← getRegs).y[0]
  let unit ← getArRnUnit b
  let ua ← rnAddressAndModify unit (← getArStep bs)
  let va ← offsetAddress unit ua (← getArOffset bs)
  -- keep the order
  dataWrite va v
  dataWrite ua u

def mov2_ax_mij_Ab_ArpRn1_ArpStep1_ArpStep1 (a b bsi bsj : Nat) : Exec Unit := do
  let (ui, uj) ← getArpRnUnit b
  let (si, sj) ← getArpStep bsi bsj
  let i ← rnAddressAndModify ui si
  let j ← rnAddressAndModify uj sj
  let value ← getAndSatAccNoFlag (Ab.name a)
  dataWrite i (hi16 value)
  dataWrite j (lo16 value)

def mov2_ax_mji_Ab_ArpRn1_ArpStep1_ArpStep1 (a b bsi bsj : Nat) : Exec Unit := do
  let (ui, uj) ← getArpRnUnit b
  let (si, sj) ← getArpStep bsi bsj
  let i ← rnAddressAndModify ui si
  let j ← rnAddressAndModify uj sj
  let value ← getAndSatAccNoFlag (Ab.name a)
  dataWrite j (hi16 value)
  dataWrite i (lo16 value)

def mov2_mij_ax_ArpRn1_ArpStep1_ArpStep1_Ab (a asi asj b : Nat) : Exec Unit := do
  let (ui, uj) ← getArpRnUnit a
  let (si, sj) ← getArpStep asi asj
  let h ← dataRead (← rnAddressAndModify ui si)
  let l ← dataRead (← rnAddressAndModify uj sj)
  setAcc (Ab.name b) (join32 h l)

def mov2_mji_ax_ArpRn1_ArpStep1_ArpStep1_Ab (a asi asj b : Nat) : Exec Unit := do
  let (ui, uj) ← getArpRnUnit a
  let (si, sj) ← getArpStep asi asj
  let l ← dataRead (← rnAddressAndModify ui si)
  let h ← dataRead (← rnAddressAndModify uj sj)
  setAcc (Ab.name b) (join32 h l)

def mov2_abh_m_Abh_Abh_ArRn1_ArStep1 (ax ay b bs : Nat) : Exec Unit := do
  let u := hi16 (← getAndSatAccNoFlag (Abh.name ax))
  let v := hi16 (← getAndSatAccNoFlag (Abh.name ay))
  let unit ← getArRnUnit b
  let ua ← rnAddressAndModify unit (← getArStep bs)
  let va ← offsetAddress unit ua (← getArOffset bs)
  -- keep the order
  dataWrite va v
  dataWrite ua u

def exchange_iaj_Axh_ArpRn2_ArpStep2_ArpStep2 (a b bsi bsj : Nat) : Exec Unit := do
  let (ui, uj) ← getArpRnUnit b
  let (si, sj) ← getArpStep bsi bsj
  let i ← rnAddressAndModify ui si
  let j ← rnAddressAndModify uj sj
  let value ← getAndSatAccNoFlag (Axh.name a)
  dataWrite j (hi16 value)
  let value := Alu.signExtend 32 ((((← dataRead i).setWidth 64 : U64) <<< 16))
  setAcc (Axh.name a) value

def exchange_riaj_Axh_ArpRn2_ArpStep2_ArpStep2 (a b bsi bsj : Nat) : Exec Unit := do
  let (ui, uj) ← getArpRnUnit b
  let (si, sj) ← getArpStep bsi bsj
  let i ← rnAddressAndModify ui si
  let j ← rnAddressAndModify uj sj
  let value ← getAndSatAccNoFlag (Axh.name a)
  dataWrite j (hi16 value)
  let value := Alu.signExtend 32 ((((← dataRead i).setWidth 64 : U64) <<< 16) ||| 0x8000)
  setAcc (Axh.name a) value

def exchange_jai_Axh_ArpRn2_ArpStep2_ArpStep2 (a b bsi bsj : Nat) : Exec Unit := do
  let (ui, uj) ← getArpRnUnit b
  let (si, sj) ← getArpStep bsi bsj
  let i ← rnAddressAndModify ui si
  let j ← rnAddressAndModify uj sj
  let value ← getAndSatAccNoFlag (Axh.name a)
  dataWrite i (hi16 value)
  let value := Alu.signExtend 32 ((((← dataRead j).setWidth 64 : U64) <<< 16))
  setAcc (Axh.name a) value

def exchange_rjai_Axh_ArpRn2_ArpStep2_ArpStep2 (a b bsi bsj : Nat) : Exec Unit := do
  let (ui, uj) ← getArpRnUnit b
  let (si, sj) ← getArpStep bsi bsj
  let i ← rnAddressAndModify ui si
  let j ← rnAddressAndModify uj sj
  let value ← getAndSatAccNoFlag (Axh.name a)
  dataWrite i (hi16 value)
  let value := Alu.signExtend 32 ((((← dataRead j).setWidth 64 : U64) <<< 16) ||| 0x8000)
  setAcc (Axh.name a) value

end Teakra.Exec
