import TeakraModel.Interp
/-!
# Handlers: push / pop / pusha / popa and rep (`src/interpreter.h` lines 1236–1362)
`mem.DataWrite(--regs.sp, v)` is `pushWord v` (the value is always computed before the
decrement), `mem.DataRead(regs.sp++)` is `popWord`.
-/
namespace Teakra.Exec
open Teakra Interp RegName

def push_Imm16 (a : Nat) : Exec Unit := pushWord (imm16 a)

def push_Register (a : Nat) : Exec Unit := do
  let value ← regToBus16 (Register.name a) true
  pushWord value

def push_Abe (a : Nat) : Exec Unit := do
  let value : U16 := (((← getAndSatAcc (Abe.name a)) >>> 32) &&& 0xFFFF).setWidth 16
  pushWord value

def push_ArArpSttMod (a : Nat) : Exec Unit := do
  let value ← regToBus16 (ArArpSttMod.name a)
  pushWord value

/-- `mem.DataWrite(--regs.sp, regs.prpage)`: the two argument expressions touch different
members, so their relative order is immaterial. -/
def push_prpage : Exec Unit := do pushWord (← getRegs).prpage

def push_Px (a : Nat) : Exec Unit := do
  let value : U32 := (← productToBus40 (if a == 1 then 1 else 0)).setWidth 32
  let h : U16 := (value >>> 16).setWidth 16
  let l : U16 := (value &&& 0xFFFF).setWidth 16
  pushWord l
  pushWord h

def push_r6 : Exec Unit := do
  let value := (← getRegs).r[6]
  pushWord value

def push_repc : Exec Unit := do
  let value := (← getRegs).repc
  pushWord value

def push_x0 : Exec Unit := do
  let value := (← getRegs).x[0]
  pushWord value

def push_x1 : Exec Unit := do
  let value := (← getRegs).x[1]
  pushWord value

def push_y1 : Exec Unit := do
  let value := (← getRegs).y[1]
  pushWord value

def pusha_Ax (a : Nat) : Exec Unit := do
  let value : U32 := ((← getAndSatAcc (Ax.name a)) &&& 0xFFFFFFFF).setWidth 32
  let h : U16 := (value >>> 16).setWidth 16
  let l : U16 := (value &&& 0xFFFF).setWidth 16
  pushWord l
  pushWord h

def pusha_Bx (a : Nat) : Exec Unit := do
  let value : U32 := ((← getAndSatAcc (Bx.name a)) &&& 0xFFFFFFFF).setWidth 32
  let h : U16 := (value >>> 16).setWidth 16
  let l : U16 := (value &&& 0xFFFF).setWidth 16
  pushWord l
  pushWord h

def pop_Register (a : Nat) : Exec Unit := do
  let value ← popWord
  regFromBus16 (Register.name a) value

def pop_Abe (a : Nat) : Exec Unit := do
  let value32 : U32 := Alu.signExtend32 8 (((← popWord) &&& 0xFF).setWidth 32)
  let acc ← getAcc (Abe.name a)
  setAccAndFlag (Abe.name a) ((acc &&& 0xFFFFFFFF) ||| ((value32.setWidth 64 : U64) <<< 32))

def pop_ArArpSttMod (a : Nat) : Exec Unit := do
  let value ← popWord
  regFromBus16 (ArArpSttMod.name a) value

def pop_Bx (a : Nat) : Exec Unit := do
  let value ← popWord
  regFromBus16 (Bx.name a) value

def pop_prpage : Exec Unit := do
  let value ← popWord
  modifyRegs fun r => { r with prpage := value }

def pop_Px (a : Nat) : Exec Unit := do
  let h ← popWord
  let l ← popWord
  let value : U32 := ((h.setWidth 32 : U32) <<< 16) ||| l.setWidth 32
  productFromBus32 (if a == 1 then 1 else 0) value

def pop_r6 : Exec Unit := do
  let value ← popWord
  setR 6 value

def pop_repc : Exec Unit := do
  let value ← popWord
  modifyRegs fun r => { r with repc := value }

def pop_x0 : Exec Unit := do
  let value ← popWord
  modifyRegs fun r => { r with x := r.x.set 0 value }

def pop_x1 : Exec Unit := do
  let value ← popWord
  modifyRegs fun r => { r with x := r.x.set 1 value }

def pop_y1 : Exec Unit := do
  let value ← popWord
  modifyRegs fun r => { r with y := r.y.set 1 value }

def popa_Ab (a : Nat) : Exec Unit := do
  let h ← popWord
  let l ← popWord
  let value : U64 := Alu.signExtend 32 (((h.setWidth 64 : U64) <<< 16) ||| l.setWidth 64)
  setAccAndFlag (Ab.name a) value

/-- `Repeat` -/
def repeat_ (repc : U16) : Exec Unit :=
  modifyRegs fun r => { r with repc := repc, rep := true }

def rep_Imm8 (a : Nat) : Exec Unit := repeat_ (imm16 a)

def rep_Register (a : Nat) : Exec Unit := do repeat_ (← regToBus16 (Register.name a))

def rep_r6 : Exec Unit := do repeat_ (← getRegs).r[6]

end Teakra.Exec
