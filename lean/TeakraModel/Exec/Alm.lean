import TeakraModel.Interp
/-!
# Handlers: misc (nop, norm, swap, trap) and the ALM / ALU / ALB families
(`src/interpreter.h` lines 158–700).  One `def` per C++ overload, named
`<method>_<operand types>` (the key `tools/gen_dispatch.py` derives from `decoder.h`);
operands arrive as their raw `storage` value.
-/
namespace Teakra.Exec
open Teakra Interp RegName

def nop : Exec Unit := pure ()

def trap : Exec Unit := unimpl

def norm_Ax_Rn_StepZIDS (a b bs : Nat) : Exec Unit := do
  if (← getRegs).fn == 0 then
    let value ← getAcc (Ax.name a)
    let fv := Alu.b2u (value != Alu.signExtend 39 value)
    modifyRegs fun r => { r with fv := fv, fvl := if fv != 0 then 1 else r.fvl }
    let value := value <<< 1
    modifyRegs fun r => { r with fc0 := Alu.b2u ((value &&& (1 <<< 40)) != 0) }
    let value := Alu.signExtend 40 value
    setAccAndFlag (Ax.name a) value
    let unit := b
    let _ ← rnAndModify unit (StepZIDS.name bs)
    modifyRegs fun r => { r with fr := Alu.b2u (r.r.toArray.getD unit 0 == 0) }

def swap_SwapType (swap : Nat) : Exec Unit := do
  let two (x1 d1 x2 d2 : RegName) : Exec (RegName × RegName × RegName × RegName) := do
    -- the two "double" forms first exchange a1 with a b accumulator
    let u ← getAcc x1
    let v ← getAcc x2
    satAndSetAccAndFlag d1 v
    satAndSetAccAndFlag d2 u
    pure (a0, b0, a0, b0)
  let (s0, d0, s1, d1) ← match SwapType.name swap with
    | .a0b0 => pure (a0, b0, b0, a0)
    | .a0b1 => pure (a0, b1, b1, a0)
    | .a1b0 => pure (a1, b0, b0, a1)
    | .a1b1 => pure (a1, b1, b1, a1)
    | .a0b0a1b1 => do let _ ← two a1 a1 b1 b1; pure (a0, b0, b0, a0)
    | .a0b1a1b0 => do let _ ← two a1 a1 b0 b0; pure (a0, b1, b1, a0)
    | .a0b0a1 => pure (a0, b0, b0, a1)
    | .a0b1a1 => pure (a0, b1, b1, a1)
    | .a1b0a0 => pure (a1, b0, b0, a0)
    | .a1b1a0 => pure (a1, b1, b1, a0)
    | .b0a0b1 => pure (a0, b1, b0, a0)
    | .b0a1b1 => pure (a1, b1, b0, a1)
    | .b1a0b0 => pure (a0, b0, b1, a0)
    | .b1a1b0 => pure (a1, b0, b1, a1)
    | _ => unreachable
  let u ← getAcc s0
  let v ← getAcc s1
  satAndSetAccAndFlag d0 u
  satAndSetAccAndFlag d1 v

/-- `ExtendOperandForAlm` -/
def extendOperandForAlm (op : AlmOp) (a : U16) : U64 :=
  match op with
  | .cmp | .sub | .add => Alu.signExtend 16 (a.setWidth 64)
  | .addh | .subh => Alu.signExtend 32 ((a.setWidth 64 : U64) <<< 16)
  | _ => a.setWidth 64

/-- `AlmGeneric` -/
def almGeneric (op : AlmOp) (a : U64) (b : RegName) : Exec Unit := do
  match op with
  | .or_ => setAccAndFlag b (Alu.signExtend 40 ((← getAcc b) ||| a))
  | .and_ => setAccAndFlag b (Alu.signExtend 40 ((← getAcc b) &&& a))
  | .xor_ => setAccAndFlag b (Alu.signExtend 40 ((← getAcc b) ^^^ a))
  | .tst0 =>
    let value := (← getAcc b) &&& 0xFFFF
    modifyRegs fun r => { r with fz := Alu.b2u ((value &&& a) == 0) }
  | .tst1 =>
    let value := (← getAcc b) &&& 0xFFFF
    modifyRegs fun r => { r with fz := Alu.b2u ((value &&& ~~~a) == 0) }
  | .cmp | .cmpu | .sub | .subl | .subh | .add | .addl | .addh =>
    let value ← getAcc b
    let sub := !(op == .add || op == .addl || op == .addh)
    let result ← addSub value a sub
    if op == .cmp || op == .cmpu then setAccFlag result else satAndSetAccAndFlag b result
  | .msu =>
    let value ← getAcc b
    let product ← productToBus40 0
    let result ← addSub value product true
    satAndSetAccAndFlag b result
    modifyRegs fun r => { r with x := r.x.set 0 ((a &&& 0xFFFF).setWidth 16) }
    doMultiplication 0 true true
  | .sqra =>
    let value ← getAcc b
    let product ← productToBus40 0
    let result ← addSub value product false
    satAndSetAccAndFlag b result
    let v : U16 := (a &&& 0xFFFF).setWidth 16
    modifyRegs fun r => { r with x := r.x.set 0 v, y := r.y.set 0 v }
    doMultiplication 0 true true
  | .sqr =>
    let v : U16 := (a &&& 0xFFFF).setWidth 16
    modifyRegs fun r => { r with x := r.x.set 0 v, y := r.y.set 0 v }
    doMultiplication 0 true true
  | .reserved => unreachable

/-- `LoadFromMemory(MemImm8)` etc. -/
def loadMemImm8 (a : Nat) : Exec U16 := do dataRead (imm16 a + ((← getRegs).page <<< 8))
def loadMemImm16 (a : Nat) : Exec U16 := dataRead (imm16 a)
def loadMemR7Imm16 (a : Nat) : Exec U16 := do dataRead (imm16 a + (← getRegs).r[7])
def loadMemR7Imm7s (a : Nat) : Exec U16 := do dataRead (imms16 7 a + (← getRegs).r[7])
/-- `StoreToMemory(MemImm8, value)` etc. -/
def storeMemImm8 (a : Nat) (v : U16) : Exec Unit := do dataWrite (imm16 a + ((← getRegs).page <<< 8)) v
def storeMemImm16 (a : Nat) (v : U16) : Exec Unit := dataWrite (imm16 a) v
def storeMemR7Imm16 (a : Nat) (v : U16) : Exec Unit := do dataWrite (imm16 a + (← getRegs).r[7]) v
def storeMemR7Imm7s (a : Nat) (v : U16) : Exec Unit := do dataWrite (imms16 7 a + (← getRegs).r[7]) v

def alm_Alm_MemImm8_Ax (op a b : Nat) : Exec Unit := do
  let value ← loadMemImm8 a
  almGeneric (Alm.name op) (extendOperandForAlm (Alm.name op) value) (Ax.name b)

def alm_Alm_Rn_StepZIDS_Ax (op a as_ b : Nat) : Exec Unit := do
  let address ← rnAddressAndModify a (StepZIDS.name as_)
  let value ← dataRead address
  almGeneric (Alm.name op) (extendOperandForAlm (Alm.name op) value) (Ax.name b)

def alm_Alm_Register_Ax (op a b : Nat) : Exec Unit := do
  let o := Alm.name op
  let checkBus40OperandAllowed : Exec Unit :=
    if o == .or_ || o == .and_ || o == .xor_ || o == .add || o == .cmp || o == .sub then pure () else unimpl
  let value ← match Register.name a with
    | .p => do checkBus40OperandAllowed; productToBus40 0
    | .a0 => do checkBus40OperandAllowed; getAcc .a0
    | .a1 => do checkBus40OperandAllowed; getAcc .a1
    | n => do pure (extendOperandForAlm o (← regToBus16 n))
  almGeneric o value (Ax.name b)

def alm_r6_Alm_Ax (op b : Nat) : Exec Unit := do
  let value := (← getRegs).r[6]
  almGeneric (Alm.name op) (extendOperandForAlm (Alm.name op) value) (Ax.name b)

def alu_Alu_MemImm16_Ax (op a b : Nat) : Exec Unit := do
  let value ← loadMemImm16 a
  almGeneric (Alu.name op) (extendOperandForAlm (Alu.name op) value) (Ax.name b)

def alu_Alu_MemR7Imm16_Ax (op a b : Nat) : Exec Unit := do
  let value ← loadMemR7Imm16 a
  almGeneric (Alu.name op) (extendOperandForAlm (Alu.name op) value) (Ax.name b)

def alu_Alu_Imm16_Ax (op a b : Nat) : Exec Unit := do
  almGeneric (Alu.name op) (extendOperandForAlm (Alu.name op) (imm16 a)) (Ax.name b)

def alu_Alu_Imm8_Ax (op a b : Nat) : Exec Unit := do
  let o := Alu.name op
  let bn := Ax.name b
  let andBackup ← if o == .and_ then do pure ((← getAcc bn) &&& 0xFF00) else pure 0
  almGeneric o (extendOperandForAlm o (imm16 a)) bn
  if o == .and_ then
    let andNew := (← getAcc bn) &&& 0xFFFFFFFFFFFF00FF
    setAcc bn (andBackup ||| andNew)

def alu_Alu_MemR7Imm7s_Ax (op a b : Nat) : Exec Unit := do
  let value ← loadMemR7Imm7s a
  almGeneric (Alu.name op) (extendOperandForAlm (Alu.name op) value) (Ax.name b)

def or__Ab_Ax_Ax (a b c : Nat) : Exec Unit := do
  setAccAndFlag (Ax.name c) ((← getAcc (Ab.name a)) ||| (← getAcc (Ax.name b)))
def or__Ax_Bx_Ax (a b c : Nat) : Exec Unit := do
  setAccAndFlag (Ax.name c) ((← getAcc (Ax.name a)) ||| (← getAcc (Bx.name b)))
def or__Bx_Bx_Ax (a b c : Nat) : Exec Unit := do
  setAccAndFlag (Ax.name c) ((← getAcc (Bx.name a)) ||| (← getAcc (Bx.name b)))

/-- `GenericAlb` -/
def genericAlb (op : AlbOp) (a b : U16) : Exec U16 := do
  let sx (v : U16) : U32 := Alu.signExtend32 16 (v.setWidth 32)
  let result : U16 ← match op with
    | .set => do
      let result := a ||| b
      modifyRegs fun r => { r with fm := result >>> 15 }
      pure result
    | .rst => do
      let result := ~~~a &&& b
      modifyRegs fun r => { r with fm := result >>> 15 }
      pure result
    | .chng => do
      let result := a ^^^ b
      modifyRegs fun r => { r with fm := result >>> 15 }
      pure result
    | .addv => do
      let rr : U32 := a.setWidth 32 + b.setWidth 32
      modifyRegs fun r => { r with fc0 := Alu.b2u ((rr >>> 16) != 0), fm := ((sx b + sx a) >>> 31).setWidth 16 }
      pure ((rr &&& 0xFFFF).setWidth 16)
    | .tst0 => pure (Alu.b2u ((a &&& b) != 0))
    | .tst1 => pure (Alu.b2u ((a &&& ~~~b) != 0))
    | .cmpv | .subv => do
      let rr : U32 := b.setWidth 32 - a.setWidth 32
      modifyRegs fun r => { r with fc0 := Alu.b2u ((rr >>> 16) != 0), fm := ((sx b - sx a) >>> 31).setWidth 16 }
      pure ((rr &&& 0xFFFF).setWidth 16)
  modifyRegs fun r => { r with fz := Alu.b2u (result == 0) }
  return result

def isAlbModifying : AlbOp → Bool
  | .set | .rst | .chng | .addv | .subv => true
  | .tst0 | .tst1 | .cmpv => false

def alb_Alb_Imm16_MemImm8 (op a b : Nat) : Exec Unit := do
  let bv ← loadMemImm8 b
  let result ← genericAlb (Alb.name op) (imm16 a) bv
  if isAlbModifying (Alb.name op) then storeMemImm8 b result

def alb_Alb_Imm16_Rn_StepZIDS (op a b bs : Nat) : Exec Unit := do
  let address ← rnAddressAndModify b (StepZIDS.name bs)
  let bv ← dataRead address
  let result ← genericAlb (Alb.name op) (imm16 a) bv
  if isAlbModifying (Alb.name op) then dataWrite address result

def alb_Alb_Imm16_Register (op a b : Nat) : Exec Unit := do
  let bn := Register.name b
  let bv ← match bn with
    | .p => do pure (((← productToBus40 0) >>> 16).setWidth 16)
    | .a0 | .a1 => unimpl
    | _ => regToBus16 bn
  let result ← genericAlb (Alb.name op) (imm16 a) bv
  if isAlbModifying (Alb.name op) then
    let lo (v : U64) : U64 := (v &&& 0xFFFFFFFFFFFF0000) ||| result.setWidth 64
    let hi (v : U64) : U64 := (v &&& 0xFFFFFFFF0000FFFF) ||| ((result.setWidth 64 : U64) <<< 16)
    match bn with
    | .a0 | .a1 => unreachable
    | .a0l => modifyRegs fun r => { r with a := r.a.set 0 (lo r.a[0]) }
    | .a1l => modifyRegs fun r => { r with a := r.a.set 1 (lo r.a[1]) }
    | .b0l => modifyRegs fun r => { r with b := r.b.set 0 (lo r.b[0]) }
    | .b1l => modifyRegs fun r => { r with b := r.b.set 1 (lo r.b[1]) }
    | .a0h => modifyRegs fun r => { r with a := r.a.set 0 (hi r.a[0]) }
    | .a1h => modifyRegs fun r => { r with a := r.a.set 1 (hi r.a[1]) }
    | .b0h => modifyRegs fun r => { r with b := r.b.set 0 (hi r.b[0]) }
    | .b1h => modifyRegs fun r => { r with b := r.b.set 1 (hi r.b[1]) }
    | _ => regFromBus16 bn result

def alb_r6_Alb_Imm16 (op a : Nat) : Exec Unit := do
  let bv := (← getRegs).r[6]
  let result ← genericAlb (Alb.name op) (imm16 a) bv
  if isAlbModifying (Alb.name op) then setR 6 result

def alb_Alb_Imm16_SttMod (op a b : Nat) : Exec Unit := do
  let bv ← regToBus16 (SttMod.name b)
  let result ← genericAlb (Alb.name op) (imm16 a) bv
  if isAlbModifying (Alb.name op) then regFromBus16 (SttMod.name b) result

end Teakra.Exec
