import TeakraModel.Interp
/-!
# Handlers: modr*, movd, movp, movpdw (`src/interpreter.h` lines 1559–1651)
-/
namespace Teakra.Exec
open Teakra Interp RegName

/-- `regs.fr = regs.r[unit] == 0` -/
def modrSetFr (unit : Nat) : Exec Unit :=
  modifyRegs fun r => { r with fr := Alu.b2u (r.r.toArray.getD unit 0 == 0) }

def modr_Rn_StepZIDS (a as_ : Nat) : Exec Unit := do
  let unit := a
  let _ ← rnAndModify unit (StepZIDS.name as_)
  modrSetFr unit

def modr_dmod_Rn_StepZIDS (a as_ : Nat) : Exec Unit := do
  let unit := a
  let _ ← rnAndModify unit (StepZIDS.name as_) true
  modrSetFr unit

def modr_i2_Rn (a : Nat) : Exec Unit := do
  let unit := a
  let _ ← rnAndModify unit .increase2Mode1
  modrSetFr unit

def modr_i2_dmod_Rn (a : Nat) : Exec Unit := do
  let unit := a
  let _ ← rnAndModify unit .increase2Mode1 true
  modrSetFr unit

def modr_d2_Rn (a : Nat) : Exec Unit := do
  let unit := a
  let _ ← rnAndModify unit .decrease2Mode1
  modrSetFr unit

def modr_d2_dmod_Rn (a : Nat) : Exec Unit := do
  let unit := a
  let _ ← rnAndModify unit .decrease2Mode1 true
  modrSetFr unit

def modr_eemod_ArpRn2_ArpStep2_ArpStep2 (a asi asj : Nat) : Exec Unit := do
  let (uniti, unitj) ← getArpRnUnit a
  let (stepi, stepj) ← getArpStep asi asj
  let _ ← rnAndModify uniti stepi
  let _ ← rnAndModify unitj stepj

def modr_edmod_ArpRn2_ArpStep2_ArpStep2 (a asi asj : Nat) : Exec Unit := do
  let (uniti, unitj) ← getArpRnUnit a
  let (stepi, stepj) ← getArpStep asi asj
  let _ ← rnAndModify uniti stepi
  let _ ← rnAndModify unitj stepj true

def modr_demod_ArpRn2_ArpStep2_ArpStep2 (a asi asj : Nat) : Exec Unit := do
  let (uniti, unitj) ← getArpRnUnit a
  let (stepi, stepj) ← getArpStep asi asj
  let _ ← rnAndModify uniti stepi true
  let _ ← rnAndModify unitj stepj

def modr_ddmod_ArpRn2_ArpStep2_ArpStep2 (a asi asj : Nat) : Exec Unit := do
  let (uniti, unitj) ← getArpRnUnit a
  let (stepi, stepj) ← getArpStep asi asj
  let _ ← rnAndModify uniti stepi true
  let _ ← rnAndModify unitj stepj true

def movd_R0123_StepZIDS_R45_StepZIDS (a as_ b bs : Nat) : Exec Unit := do
  let addressS ← rnAddressAndModify a (StepZIDS.name as_)
  let addressD : U32 := (← rnAddressAndModify (b + 4) (StepZIDS.name bs)).setWidth 32
  let addressD := addressD ||| (((← getRegs).pcmhi.setWidth 32 : U32) <<< 16)
  -- the argument `mem.DataRead(address_s)` is evaluated before `ProgramWrite` is entered
  let value ← dataRead addressS
  programWrite addressD value

def movp_Axl_Register (a b : Nat) : Exec Unit := do
  let address : U32 := (← regToBus16 (Axl.name a)).setWidth 32
  let address := address ||| (((← getRegs).pcmhi.setWidth 32 : U32) <<< 16)
  let value ← programRead address
  regFromBus16 (Register.name b) value

def movp_Ax_Register (a b : Nat) : Exec Unit := do
  let address : U32 := ((← getAcc (Ax.name a)) &&& 0x3FFFF).setWidth 32
  let value ← programRead address
  regFromBus16 (Register.name b) value

def movp_Rn_StepZIDS_R0123_StepZIDS (a as_ b bs : Nat) : Exec Unit := do
  let addressS : U32 := (← rnAddressAndModify a (StepZIDS.name as_)).setWidth 32
  let addressD ← rnAddressAndModify b (StepZIDS.name bs)
  let addressS := addressS ||| (((← getRegs).pcmhi.setWidth 32 : U32) <<< 16)
  let value ← programRead addressS
  dataWrite addressD value

def movpdw_Ax (a : Nat) : Exec Unit := do
  let address : U32 := ((← getAcc (Ax.name a)) &&& 0x3FFFF).setWidth 32
  let h ← programRead address
  let l ← programRead (address + 1)
  setPC ((l.setWidth 32 : U32) ||| ((h.setWidth 32 : U32) <<< 16))

end Teakra.Exec
