import TeakraModel.Interp
/-!
# Handlers: ProductSum, mov_sv_app, mma family, addhp, mov_ext
(`src/interpreter.h` lines 300–340 and 2763–2768, 2822–2931).  One `def` per C++ overload.
-/
namespace Teakra.Exec
open Teakra Interp RegName

/-- `Px{v}` as the index of the product unit. -/
def pxUnit (v : Nat) : Fin 2 := if v % 2 == 0 then 0 else 1

/-- `ProductSum` -/
def productSum (base : SumBase) (acc : RegName) (subP0 p0Align subP1 p1Align : Bool) : Exec Unit := do
  let valueA ← productToBus40 0
  let valueB ← productToBus40 1
  let valueA := if p0Align then Alu.signExtend 24 (valueA >>> 16) else valueA
  let valueB := if p1Align then Alu.signExtend 24 (valueB >>> 16) else valueB
  let valueC : U64 ← match base with
    | .zero => pure 0
    | .acc => getAcc acc
    | .sv => do pure (Alu.signExtend 32 (((← getRegs).sv.setWidth 64 : U64) <<< 16))
    | .svRnd => do pure (Alu.signExtend 32 (((← getRegs).sv.setWidth 64 : U64) <<< 16) ||| 0x8000)
  let result ← addSub valueC valueA subP0
  let tempC := (← getRegs).fc0
  let tempV := (← getRegs).fv
  let result ← addSub result valueB subP1
  if subP0 == subP1 then
    modifyRegs fun r => { r with fc0 := r.fc0 ||| tempC, fv := r.fv ||| tempV }
  else
    modifyRegs fun r => { r with fc0 := r.fc0 ^^^ tempC, fv := r.fv ^^^ tempV }
  satAndSetAccAndFlag acc result

/-- `std::swap(regs.x[0], regs.x[1])` -/
def swapX : Exec Unit := modifyRegs fun r => { r with x := #v[r.x[1], r.x[0]] }

/-- `mov_sv_app<ArStepX>`; `asIdx = as.Index()` -/
def movSvApp (a asIdx b : Nat) (base : SumBase) (subP0 p0Align subP1 p1Align : Bool) : Exec Unit := do
  let unit ← getArRnUnit a
  let step ← getArStep asIdx
  let v ← dataRead (← rnAddressAndModify unit step)
  modifyRegs fun r => { r with sv := v }
  productSum base (Bx.name b) subP0 p0Align subP1 p1Align

def mov_sv_app_ArRn1_ArStep1_Bx_S_B_B_B_B (a as_ b : Nat) (base : SumBase)
    (subP0 p0Align subP1 p1Align : Bool) : Exec Unit :=
  movSvApp a as_ b base subP0 p0Align subP1 p1Align

/-- `ArStep1Alt::Index()` is `storage + 2`. -/
def mov_sv_app_ArRn1_ArStep1Alt_Bx_S_B_B_B_B (a as_ b : Nat) (base : SumBase)
    (subP0 p0Align subP1 p1Align : Bool) : Exec Unit :=
  movSvApp a (as_ + 2) b base subP0 p0Align subP1 p1Align

/-- `mma(RegName a, …)` -/
def mmaReg (a : RegName) (x0Sign y0Sign x1Sign y1Sign : Bool) (base : SumBase)
    (subP0 p0Align subP1 p1Align : Bool) : Exec Unit := do
  productSum base a subP0 p0Align subP1 p1Align
  swapX
  doMultiplication 0 x0Sign y0Sign
  doMultiplication 1 x1Sign y1Sign

def mma_RegNameAx_B_B_B_B_S_B_B_B_B (a : Nat) (x0Sign y0Sign x1Sign y1Sign : Bool) (base : SumBase)
    (subP0 p0Align subP1 p1Align : Bool) : Exec Unit :=
  mmaReg (Ax.name a) x0Sign y0Sign x1Sign y1Sign base subP0 p0Align subP1 p1Align

def mma_RegNameBx_B_B_B_B_S_B_B_B_B (a : Nat) (x0Sign y0Sign x1Sign y1Sign : Bool) (base : SumBase)
    (subP0 p0Align subP1 p1Align : Bool) : Exec Unit :=
  mmaReg (Bx.name a) x0Sign y0Sign x1Sign y1Sign base subP0 p0Align subP1 p1Align

def mma_RegNameAb_B_B_B_B_S_B_B_B_B (a : Nat) (x0Sign y0Sign x1Sign y1Sign : Bool) (base : SumBase)
    (subP0 p0Align subP1 p1Align : Bool) : Exec Unit :=
  mmaReg (Ab.name a) x0Sign y0Sign x1Sign y1Sign base subP0 p0Align subP1 p1Align

/-- `mma<ArpRnX, ArpStepX>(xy, i, j, dmodi, dmodj, RegName a, …)` -/
def mmaArp (xy i j : Nat) (dmodi dmodj : Bool) (a : RegName) (x0Sign y0Sign x1Sign y1Sign : Bool)
    (base : SumBase) (subP0 p0Align subP1 p1Align : Bool) : Exec Unit := do
  productSum base a subP0 p0Align subP1 p1Align
  let (ui, uj) ← getArpRnUnit xy
  let (si, sj) ← getArpStep i j
  let (oi, oj) ← getArpOffset i j
  let x ← rnAddressAndModify ui si dmodi
  let y ← rnAddressAndModify uj sj dmodj
  let v ← dataRead x
  modifyRegs fun r => { r with x := r.x.set 0 v }
  let v ← dataRead y
  modifyRegs fun r => { r with y := r.y.set 0 v }
  let v ← dataRead (← offsetAddress ui x oi dmodi)
  modifyRegs fun r => { r with x := r.x.set 1 v }
  let v ← dataRead (← offsetAddress uj y oj dmodj)
  modifyRegs fun r => { r with y := r.y.set 1 v }
  doMultiplication 0 x0Sign y0Sign
  doMultiplication 1 x1Sign y1Sign

def mma_ArpRn1_ArpStep1_ArpStep1_B_B_RegNameAb_B_B_B_B_S_B_B_B_B (xy i j : Nat) (dmodi dmodj : Bool)
    (a : Nat) (x0Sign y0Sign x1Sign y1Sign : Bool) (base : SumBase)
    (subP0 p0Align subP1 p1Align : Bool) : Exec Unit :=
  mmaArp xy i j dmodi dmodj (Ab.name a) x0Sign y0Sign x1Sign y1Sign base subP0 p0Align subP1 p1Align

def mma_ArpRn1_ArpStep1_ArpStep1_B_B_RegNameAx_B_B_B_B_S_B_B_B_B (xy i j : Nat) (dmodi dmodj : Bool)
    (a : Nat) (x0Sign y0Sign x1Sign y1Sign : Bool) (base : SumBase)
    (subP0 p0Align subP1 p1Align : Bool) : Exec Unit :=
  mmaArp xy i j dmodi dmodj (Ax.name a) x0Sign y0Sign x1Sign y1Sign base subP0 p0Align subP1 p1Align

def mma_ArpRn2_ArpStep2_ArpStep2_B_B_RegNameAb_B_B_B_B_S_B_B_B_B (xy i j : Nat) (dmodi dmodj : Bool)
    (a : Nat) (x0Sign y0Sign x1Sign y1Sign : Bool) (base : SumBase)
    (subP0 p0Align subP1 p1Align : Bool) : Exec Unit :=
  mmaArp xy i j dmodi dmodj (Ab.name a) x0Sign y0Sign x1Sign y1Sign base subP0 p0Align subP1 p1Align

def mma_mx_xy_ArRn1_ArStep1_RegNameAx_B_B_B_B_S_B_B_B_B (y ys a : Nat)
    (x0Sign y0Sign x1Sign y1Sign : Bool) (base : SumBase) (subP0 p0Align subP1 p1Align : Bool) :
    Exec Unit := do
  productSum base (Ax.name a) subP0 p0Align subP1 p1Align
  swapX
  let unit ← getArRnUnit y
  let step ← getArStep ys
  let v ← dataRead (← rnAddressAndModify unit step)
  modifyRegs fun r => { r with y := r.y.set 0 v }
  doMultiplication 0 x0Sign y0Sign
  doMultiplication 1 x1Sign y1Sign

def mma_xy_mx_ArRn1_ArStep1_RegNameAx_B_B_B_B_S_B_B_B_B (y ys a : Nat)
    (x0Sign y0Sign x1Sign y1Sign : Bool) (base : SumBase) (subP0 p0Align subP1 p1Align : Bool) :
    Exec Unit := do
  productSum base (Ax.name a) subP0 p0Align subP1 p1Align
  swapX
  let unit ← getArRnUnit y
  let step ← getArStep ys
  let v ← dataRead (← rnAddressAndModify unit step)
  modifyRegs fun r => { r with y := r.y.set 1 v }
  doMultiplication 0 x0Sign y0Sign
  doMultiplication 1 x1Sign y1Sign

def mma_my_my_ArRn1_ArStep1_RegNameAx_B_B_B_B_S_B_B_B_B (x xs a : Nat)
    (x0Sign y0Sign x1Sign y1Sign : Bool) (base : SumBase) (subP0 p0Align subP1 p1Align : Bool) :
    Exec Unit := do
  productSum base (Ax.name a) subP0 p0Align subP1 p1Align
  let unit ← getArRnUnit x
  let address ← rnAddressAndModify unit (← getArStep xs)
  let v ← dataRead address
  modifyRegs fun r => { r with x := r.x.set 0 v }
  let v ← dataRead (← offsetAddress unit address (← getArOffset xs))
  modifyRegs fun r => { r with x := r.x.set 1 v }
  doMultiplication 0 x0Sign y0Sign
  doMultiplication 1 x1Sign y1Sign

/-- `mma_mov(Axh u, Bxh v, ArRn1 w, ArStep1 ws, RegName a, …)` -/
def mmaMovUV (u v w ws : Nat) (a : RegName) (x0Sign y0Sign x1Sign y1Sign : Bool) (base : SumBase)
    (subP0 p0Align subP1 p1Align : Bool) : Exec Unit := do
  let unit ← getArRnUnit w
  let address ← rnAddressAndModify unit (← getArStep ws)
  let uValue : U16 := (((← getAndSatAccNoFlag (Axh.name u)) >>> 16) &&& 0xFFFF).setWidth 16
  let vValue : U16 := (((← getAndSatAccNoFlag (Bxh.name v)) >>> 16) &&& 0xFFFF).setWidth 16
  -- keep the order like this
  dataWrite (← offsetAddress unit address (← getArOffset ws)) vValue
  dataWrite address uValue
  productSum base a subP0 p0Align subP1 p1Align
  swapX
  doMultiplication 0 x0Sign y0Sign
  doMultiplication 1 x1Sign y1Sign

def mma_mov_Axh_Bxh_ArRn1_ArStep1_RegNameAb_B_B_B_B_S_B_B_B_B (u v w ws a : Nat)
    (x0Sign y0Sign x1Sign y1Sign : Bool) (base : SumBase) (subP0 p0Align subP1 p1Align : Bool) :
    Exec Unit :=
  mmaMovUV u v w ws (Ab.name a) x0Sign y0Sign x1Sign y1Sign base subP0 p0Align subP1 p1Align

def mma_mov_Axh_Bxh_ArRn1_ArStep1_RegNameAx_B_B_B_B_S_B_B_B_B (u v w ws a : Nat)
    (x0Sign y0Sign x1Sign y1Sign : Bool) (base : SumBase) (subP0 p0Align subP1 p1Align : Bool) :
    Exec Unit :=
  mmaMovUV u v w ws (Ax.name a) x0Sign y0Sign x1Sign y1Sign base subP0 p0Align subP1 p1Align

def mma_mov_ArRn2_ArStep1_RegNameAx_B_B_B_B_S_B_B_B_B (w ws a : Nat)
    (x0Sign y0Sign x1Sign y1Sign : Bool) (base : SumBase) (subP0 p0Align subP1 p1Align : Bool) :
    Exec Unit := do
  let an := Ax.name a
  let unit ← getArRnUnit w
  let address ← rnAddressAndModify unit (← getArStep ws)
  let uValue : U16 := (((← getAndSatAccNoFlag an) >>> 16) &&& 0xFFFF).setWidth 16
  let vValue : U16 := (((← getAndSatAccNoFlag (← counterAcc an)) >>> 16) &&& 0xFFFF).setWidth 16
  -- keep the order like this
  dataWrite (← offsetAddress unit address (← getArOffset ws)) vValue
  dataWrite address uValue
  productSum base an subP0 p0Align subP1 p1Align
  swapX
  doMultiplication 0 x0Sign y0Sign
  doMultiplication 1 x1Sign y1Sign

def addhp_ArRn2_ArStep2_Px_Ax (a as_ b c : Nat) : Exec Unit := do
  let unit ← getArRnUnit a
  let address ← rnAddressAndModify unit (← getArStep as_)
  let value := Alu.signExtend 32 ((((← dataRead address).setWidth 64 : U64) <<< 16) ||| 0x8000)
  let p ← productToBus40 (pxUnit b)
  let result ← addSub value p false
  satAndSetAccAndFlag (Ax.name c) result

def mov_ext0_Imm8s (a : Nat) : Exec Unit := modifyRegs fun r => { r with ext := r.ext.set 0 (imms16 8 a) }
def mov_ext1_Imm8s (a : Nat) : Exec Unit := modifyRegs fun r => { r with ext := r.ext.set 1 (imms16 8 a) }
def mov_ext2_Imm8s (a : Nat) : Exec Unit := modifyRegs fun r => { r with ext := r.ext.set 2 (imms16 8 a) }
def mov_ext3_Imm8s (a : Nat) : Exec Unit := modifyRegs fun r => { r with ext := r.ext.set 3 (imms16 8 a) }

end Teakra.Exec
