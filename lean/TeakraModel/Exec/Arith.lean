import TeakraModel.Interp
import TeakraModel.Exec.Mma
/-!
# Handlers: accumulator add / sub, product sums, the dual-memory add/sub family, `Moda`, clr
(`src/interpreter.h` lines 656–966).  One `def` per C++ overload, named
`<method>_<operand types>`; operands arrive as their raw `storage` value.
-/
namespace Teakra.Exec
open Teakra Interp RegName

def add_Ab_Bx (a b : Nat) : Exec Unit := do
  let valueA ← getAcc (Ab.name a)
  let valueB ← getAcc (Bx.name b)
  let result ← addSub valueB valueA false
  satAndSetAccAndFlag (Bx.name b) result

def add_Bx_Ax (a b : Nat) : Exec Unit := do
  let valueA ← getAcc (Bx.name a)
  let valueB ← getAcc (Ax.name b)
  let result ← addSub valueB valueA false
  satAndSetAccAndFlag (Ax.name b) result

def add_p1_Ax (b : Nat) : Exec Unit := do
  let valueA ← productToBus40 1
  let valueB ← getAcc (Ax.name b)
  let result ← addSub valueB valueA false
  satAndSetAccAndFlag (Ax.name b) result

def add_Px_Bx (a b : Nat) : Exec Unit := do
  let valueA ← productToBus40 (Fin.ofNat 2 a)
  let valueB ← getAcc (Bx.name b)
  let result ← addSub valueB valueA false
  satAndSetAccAndFlag (Bx.name b) result

def sub_Ab_Bx (a b : Nat) : Exec Unit := do
  let valueA ← getAcc (Ab.name a)
  let valueB ← getAcc (Bx.name b)
  let result ← addSub valueB valueA true
  satAndSetAccAndFlag (Bx.name b) result

def sub_Bx_Ax (a b : Nat) : Exec Unit := do
  let valueA ← getAcc (Bx.name a)
  let valueB ← getAcc (Ax.name b)
  let result ← addSub valueB valueA true
  satAndSetAccAndFlag (Ax.name b) result

def sub_p1_Ax (b : Nat) : Exec Unit := do
  let valueA ← productToBus40 1
  let valueB ← getAcc (Ax.name b)
  let result ← addSub valueB valueA true
  satAndSetAccAndFlag (Ax.name b) result

def sub_Px_Bx (a b : Nat) : Exec Unit := do
  let valueA ← productToBus40 (Fin.ofNat 2 a)
  let valueB ← getAcc (Bx.name b)
  let result ← addSub valueB valueA true
  satAndSetAccAndFlag (Bx.name b) result

def app_Ab_S_B_B_B_B (c : Nat) (base : SumBase) (subP0 p0Align subP1 p1Align : Bool) : Exec Unit :=
  productSum base (Ab.name c) subP0 p0Align subP1 p1Align

private def sx16 (v : U16) : U64 := Alu.signExtend 16 (v.setWidth 64)

/-- `(high << 16) | low` with `low` a `u16` (zero-extended by the usual conversions). -/
private def highLow (high : U64) (low : U16) : U64 := (high <<< 16) ||| low.setWidth 64

def add_add_ArpRn1_ArpStep1_ArpStep1_Ab (a asi asj b : Nat) : Exec Unit := do
  let (ui, uj) ← getArpRnUnit a
  let (si, sj) ← getArpStep asi asj
  let (oi, oj) ← getArpOffset asi asj
  let i ← rnAddressAndModify ui si
  let j ← rnAddressAndModify uj sj
  let high := sx16 (← dataRead j) + sx16 (← dataRead i)
  let low : U16 := (← dataRead (← offsetAddress uj j oj)) + (← dataRead (← offsetAddress ui i oi))
  setAcc (Ab.name b) (highLow high low)

def add_sub_ArpRn1_ArpStep1_ArpStep1_Ab (a asi asj b : Nat) : Exec Unit := do
  let (ui, uj) ← getArpRnUnit a
  let (si, sj) ← getArpStep asi asj
  let (oi, oj) ← getArpOffset asi asj
  let i ← rnAddressAndModify ui si
  let j ← rnAddressAndModify uj sj
  let high := sx16 (← dataRead j) + sx16 (← dataRead i)
  let low : U16 := (← dataRead (← offsetAddress uj j oj)) - (← dataRead (← offsetAddress ui i oi))
  setAcc (Ab.name b) (highLow high low)

def sub_add_ArpRn1_ArpStep1_ArpStep1_Ab (a asi asj b : Nat) : Exec Unit := do
  let (ui, uj) ← getArpRnUnit a
  let (si, sj) ← getArpStep asi asj
  let (oi, oj) ← getArpOffset asi asj
  let i ← rnAddressAndModify ui si
  let j ← rnAddressAndModify uj sj
  let high := sx16 (← dataRead j) - sx16 (← dataRead i)
  let low : U16 := (← dataRead (← offsetAddress uj j oj)) + (← dataRead (← offsetAddress ui i oi))
  setAcc (Ab.name b) (highLow high low)

def sub_sub_ArpRn1_ArpStep1_ArpStep1_Ab (a asi asj b : Nat) : Exec Unit := do
  let (ui, uj) ← getArpRnUnit a
  let (si, sj) ← getArpStep asi asj
  let (oi, oj) ← getArpOffset asi asj
  let i ← rnAddressAndModify ui si
  let j ← rnAddressAndModify uj sj
  let high := sx16 (← dataRead j) - sx16 (← dataRead i)
  let low : U16 := (← dataRead (← offsetAddress uj j oj)) - (← dataRead (← offsetAddress ui i oi))
  setAcc (Ab.name b) (highLow high low)

def add_sub_sv_ArRn1_ArStep1_Ab (a as_ b : Nat) : Exec Unit := do
  let u ← getArRnUnit a
  let s ← getArStep as_
  let o ← getArOffset as_
  let address ← rnAddressAndModify u s
  let high := sx16 (← dataRead address) + sx16 (← getRegs).sv
  let low : U16 := (← dataRead (← offsetAddress u address o)) - (← getRegs).sv
  setAcc (Ab.name b) (highLow high low)

def sub_add_sv_ArRn1_ArStep1_Ab (a as_ b : Nat) : Exec Unit := do
  let u ← getArRnUnit a
  let s ← getArStep as_
  let o ← getArOffset as_
  let address ← rnAddressAndModify u s
  let high := sx16 (← dataRead address) - sx16 (← getRegs).sv
  let low : U16 := (← dataRead (← offsetAddress u address o)) + (← getRegs).sv
  setAcc (Ab.name b) (highLow high low)

def sub_add_i_mov_j_sv_ArpRn1_ArpStep1_ArpStep1_Ab (a asi asj b : Nat) : Exec Unit := do
  let (ui, uj) ← getArpRnUnit a
  let (si, sj) ← getArpStep asi asj
  let (oi, _) ← getArpOffset asi asj
  let i ← rnAddressAndModify ui si
  let j ← rnAddressAndModify uj sj
  let high := sx16 (← dataRead i) - sx16 (← getRegs).sv
  let low : U16 := (← dataRead (← offsetAddress ui i oi)) + (← getRegs).sv
  setAcc (Ab.name b) (highLow high low)
  let v ← dataRead j
  modifyRegs fun r => { r with sv := v }

def sub_add_j_mov_i_sv_ArpRn1_ArpStep1_ArpStep1_Ab (a asi asj b : Nat) : Exec Unit := do
  let (ui, uj) ← getArpRnUnit a
  let (si, sj) ← getArpStep asi asj
  let (_, oj) ← getArpOffset asi asj
  let i ← rnAddressAndModify ui si
  let j ← rnAddressAndModify uj sj
  let high := sx16 (← dataRead j) - sx16 (← getRegs).sv
  let low : U16 := (← dataRead (← offsetAddress uj j oj)) + (← getRegs).sv
  setAcc (Ab.name b) (highLow high low)
  let v ← dataRead i
  modifyRegs fun r => { r with sv := v }

def add_sub_i_mov_j_ArpRn1_ArpStep1_ArpStep1_Ab (a asi asj b : Nat) : Exec Unit := do
  let (ui, uj) ← getArpRnUnit a
  let (si, sj) ← getArpStep asi asj
  let (oi, _) ← getArpOffset asi asj
  let i ← rnAddressAndModify ui si
  let j ← rnAddressAndModify uj sj
  let high := sx16 (← dataRead i) + sx16 (← getRegs).sv
  let low : U16 := (← dataRead (← offsetAddress ui i oi)) - (← getRegs).sv
  let result := highLow high low
  let exchange : U16 := ((← getAndSatAccNoFlag (Ab.name b)) &&& 0xFFFF).setWidth 16
  setAcc (Ab.name b) result
  dataWrite j exchange

def add_sub_j_mov_i_ArpRn1_ArpStep1_ArpStep1_Ab (a asi asj b : Nat) : Exec Unit := do
  let (ui, uj) ← getArpRnUnit a
  let (si, sj) ← getArpStep asi asj
  let (_, oj) ← getArpOffset asi asj
  let i ← rnAddressAndModify ui si
  let j ← rnAddressAndModify uj sj
  let high := sx16 (← dataRead j) + sx16 (← getRegs).sv
  let low : U16 := (← dataRead (← offsetAddress uj j oj)) - (← getRegs).sv
  let result := highLow high low
  let exchange : U16 := ((← getAndSatAccNoFlag (Ab.name b)) &&& 0xFFFF).setWidth 16
  setAcc (Ab.name b) result
  dataWrite i exchange

/-- `Moda` -/
def moda (op : ModaOp) (a : RegName) (cond : CondValue) : Exec Unit := do
  if ← conditionPass cond then
    match op with
    | .shr => shiftBus40 (← getAcc a) 0xFFFF a
    | .shr4 => shiftBus40 (← getAcc a) 0xFFFC a
    | .shl => shiftBus40 (← getAcc a) 1 a
    | .shl4 => shiftBus40 (← getAcc a) 4 a
    | .ror =>
      let value := (← getAcc a) &&& 0xFFFFFFFFFF
      let oldFc := (← getRegs).fc0
      modifyRegs fun r => { r with fc0 := (value &&& 1).setWidth 16 }
      let value := value >>> 1
      let value := value ||| ((oldFc.setWidth 64 : U64) <<< 39)
      let value := Alu.signExtend 40 value
      setAccAndFlag a value
    | .rol =>
      let value ← getAcc a
      let oldFc := (← getRegs).fc0
      modifyRegs fun r => { r with fc0 := ((value >>> 39) &&& 1).setWidth 16 }
      let value := value <<< 1
      let value := value ||| oldFc.setWidth 64
      let value := Alu.signExtend 40 value
      setAccAndFlag a value
    | .clr => satAndSetAccAndFlag a 0
    | .not_ =>
      let result := ~~~(← getAcc a)
      setAccAndFlag a result
    | .neg =>
      let value ← getAcc a
      let fv := Alu.b2u (value == 0xFFFFFF8000000000)
      modifyRegs fun r =>
        { r with fc0 := Alu.b2u (value != 0), fv := fv, fvl := if fv != 0 then 1 else r.fvl }
      let result := Alu.signExtend 40 (~~~(← getAcc a) + 1)
      satAndSetAccAndFlag a result
    | .rnd =>
      let value ← getAcc a
      let result ← addSub value 0x8000 false
      satAndSetAccAndFlag a result
    | .pacr =>
      let value ← productToBus40 0
      let result ← addSub value 0x8000 false
      satAndSetAccAndFlag a result
    | .clrr => satAndSetAccAndFlag a 0x8000
    | .inc =>
      let value ← getAcc a
      let result ← addSub value 1 false
      satAndSetAccAndFlag a result
    | .dec =>
      let value ← getAcc a
      let result ← addSub value 1 true
      satAndSetAccAndFlag a result
    | .copy =>
      -- note: bX doesn't support
      let value ← getAcc (if a == a0 then a1 else a0)
      satAndSetAccAndFlag a value
    | .reserved => unreachable

def moda4_Moda4_Ax_Cond (op a cond : Nat) : Exec Unit :=
  moda (Moda4.name op) (Ax.name a) (Cond.name cond)

def moda3_Moda3_Bx_Cond (op a cond : Nat) : Exec Unit :=
  moda (Moda3.name op) (Bx.name a) (Cond.name cond)

def pacr1_Ax (a : Nat) : Exec Unit := do
  let value ← productToBus40 1
  let result ← addSub value 0x8000 false
  satAndSetAccAndFlag (Ax.name a) result

/-- `FilterDoubleClr(a, b)`: only `b` is ever changed; returns the new `b`. -/
def filterDoubleClr (a b : RegName) : RegName :=
  if a == b0 then b1
  else if a == b1 then b0
  else if a == a0 then (if b == a0 then a1 else b)
  else (if b == b1 then b1 else b0)

def clr_Ab_Ab (a b : Nat) : Exec Unit := do
  let aName := Ab.name a
  let bName := filterDoubleClr aName (Ab.name b)
  satAndSetAccAndFlag aName 0
  satAndSetAccAndFlag bName 0

def clrr_Ab_Ab (a b : Nat) : Exec Unit := do
  let aName := Ab.name a
  let bName := filterDoubleClr aName (Ab.name b)
  satAndSetAccAndFlag aName 0x8000
  satAndSetAccAndFlag bName 0x8000

end Teakra.Exec
