import TeakraModel.Bus
/-!
# The machine state the interpreter runs on, and the execution monad

`Core` = register file + the bus (MIU, DSP memory, all peripherals, external memory) + the private
members of `Interpreter` (interrupt latches, idle flag) + two logs: every `SharedMemory` access
the memory-observer hook would report, and every event that leaves the machine (host callbacks).
-/
namespace Teakra

structure Core where
  regs : Regs := {}
  bus : Bus := {}
  log : List Access := []      -- most recent first
  events : List PEvent := []   -- most recent first
  -- `Interpreter` private members
  ipend : Vector Bool 3 := Vector.replicate 3 false   -- interrupt_pending
  vpend : Bool := false                                -- vinterrupt_pending
  vctx : Bool := false                                 -- vinterrupt_context_switch
  vaddr : U32 := 0                                     -- vinterrupt_address
  idle : Bool := false
  deriving Inhabited

/-- Outcome classes of one modelled step. -/
inductive Stop where
  | abort (a : Abort)
  | unmodelled (key : String)
  deriving Repr

abbrev Exec := StateT Core (Except Stop)

namespace Exec
def abort {α : Type} (a : Abort) : Exec α := throw (.abort a)
def unimpl {α : Type} : Exec α := abort .unimpl
def unreachable {α : Type} : Exec α := abort .assert
/-- `ASSERT(c)` -/
def assert (c : Bool) : Exec Unit := if c then pure () else abort .assert

@[inline] def getRegs : Exec Regs := do return (← get).regs
@[inline] def setRegs (r : Regs) : Exec Unit := modify fun c => { c with regs := r }
@[inline] def modifyRegs (f : Regs → Regs) : Exec Unit := modify fun c => { c with regs := f c.regs }
end Exec

/-- What an event leaving the bus does to the core: `SignalInterrupt` / `SignalVectoredInterrupt`
set the latches; everything else is a host callback and is only logged. -/
def Core.signal (c : Core) : PEvent → Core
  | .irq i => if h : i < 3 then { c with ipend := c.ipend.set i true } else c
  | .virq addr ctx => { c with vaddr := addr, vpend := true, vctx := ctx }
  | _ => c

/-- Record events (in emission order) and apply their effect on the core latches. -/
def Core.emit (c : Core) (evs : List PEvent) : Core :=
  let c := evs.foldl Core.signal c
  { c with events := evs.reverse ++ c.events }

end Teakra
