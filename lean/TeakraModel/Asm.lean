import TeakraModel.Basic
/-!
# The assembler's parser (`src/parser.cpp`) over an arbitrary disassembler

`GenerateParser()` builds a trie keyed by tokens from the token lists `Disassembler::GetTokenList(o)`
of all opcodes `o = 0 … 0xFFFF` in increasing order; `ParserImpl::Parse` walks the trie.  The model keeps
the disassembler abstract: the builder consumes a list of `Entry`s (opcode, its token list, its
`NeedExpansion` flag) in the order the C++ loop visits them, so every theorem about it holds for *every*
possible token function — in particular for the 1763 lines of `src/disassembler.cpp`, which are not
transcribed into Lean.

Names mirror the C++ (`Node`, `end`, `opcode`, `expansion`, `children`, `Parse`, `GenerateParser`).
`std::unordered_map<NodeKey, unique_ptr<Node>>` is an association list (`children.find` / `children[token]`
are `lookup` / `setChild`); only `NodeAsConst` keys are ever inserted or looked up (`NodeAsExpansion` is
declared but unused in `parser.cpp`), so keys are plain strings.
-/
namespace Teakra.Asm

/-- What one iteration of the `GenerateParser` loop knows about an opcode. -/
structure Entry where
  /-- `u16 o` -/
  opcode : BitVec 16
  /-- `Disassembler::GetTokenList(o)` (second word 0, no `ArArpSettings`) -/
  tokens : List String
  /-- `Disassembler::NeedExpansion(o)` -/
  expansion : Bool
  deriving DecidableEq, Repr, Inhabited

/-- `needle` occurs in `hay` (`std::string::find(needle) != npos`). -/
def hasSub (needle : List Char) : List Char → Bool
  | [] => needle.isEmpty
  | c :: cs => needle.isPrefixOf (c :: cs) || hasSub needle cs

/-- `token.find("[ERROR]") != std::string::npos` -/
def isErrorToken (t : String) : Bool := hasSub "[ERROR]".toList t.toList

/-- The loop's `continue` test negated: no token contains `[ERROR]` — the opcode is *renderable*. -/
def renderable (tokens : List String) : Bool := !tokens.any isErrorToken

def Entry.renderable (e : Entry) : Bool := Asm.renderable e.tokens

/-- `ParserImpl::Node`. -/
inductive Node where
  | mk («end» : Bool) (opcode : BitVec 16) (expansion : Bool) (children : List (String × Node))
  deriving Inhabited

namespace Node

/-- `Node{}`: `end = false, opcode = 0, expansion = false`, no children. -/
def empty : Node := .mk false 0 false []

def isEnd : Node → Bool | .mk e _ _ _ => e
def opcode : Node → BitVec 16 | .mk _ o _ _ => o
def expansion : Node → Bool | .mk _ _ x _ => x
def children : Node → List (String × Node) | .mk _ _ _ cs => cs

end Node

/-- `children[token] = node` on the association list (replace in place, else append). -/
def setChild : List (String × Node) → String → Node → List (String × Node)
  | [], k, c => [(k, c)]
  | (k', c') :: cs, k, c => if k == k' then (k', c) :: cs else (k', c') :: setChild cs k c

/-- The walk of `Parse`: follow `children.find(token)` for every token; `none` = some child is missing. -/
def Node.find : Node → List String → Option Node
  | n, [] => some n
  | n, k :: ks =>
    match n.children.lookup k with
    | some c => c.find ks
    | none => none

/-- `Parser::Opcode::status`. -/
inductive Status where
  | invalid | valid | validWithExpansion
  deriving DecidableEq, Repr, Inhabited

/-- `Parser::Opcode`. -/
structure Opcode where
  status : Status := .invalid
  opcode : BitVec 16 := 0
  deriving DecidableEq, Repr, Inhabited

/-- `current->expansion ? ValidWithExpansion : Valid` -/
def statusOf (expansion : Bool) : Status := if expansion then .validWithExpansion else .valid

/-- `ParserImpl::Parse`. -/
def parse (root : Node) (tokens : List String) : Opcode :=
  match root.find tokens with
  | none => {}                                   -- a token has no child: `Opcode{Opcode::Invalid}`
  | some n =>
    if !n.isEnd then {}                          -- `if (!current->end) return Opcode{Opcode::Invalid}`
    else { status := statusOf n.expansion, opcode := n.opcode }

/-- The tail of one loop iteration, at the node the token walk arrived at:
`if (current->end) { ASSERT((current->opcode & (u16)(~o)) == 0); continue; }` else mark it. -/
def finish (o : BitVec 16) (expansion : Bool) : Node → R Node
  | .mk e o' x cs =>
    if e then
      if o' &&& ~~~o = 0#16 then .ok (.mk e o' x cs) else .error .assert
    else .ok (.mk true o expansion cs)

/-- The token walk of one loop iteration, creating missing nodes (`auto& next = current->children[token];
if (!next) next = make_unique<Node>()`), then `finish` at the last node. -/
def insertAt (o : BitVec 16) (expansion : Bool) : Node → List String → R Node
  | n, [] => finish o expansion n
  | n, k :: ks =>
    match insertAt o expansion ((n.children.lookup k).getD Node.empty) ks with
    | .ok c' => .ok (.mk n.isEnd n.opcode n.expansion (setChild n.children k c'))
    | .error e => .error e

/-- One iteration of the `GenerateParser` loop. -/
def step (root : Node) (en : Entry) : R Node :=
  if en.renderable then insertAt en.opcode en.expansion root en.tokens
  else .ok root                                  -- `continue` on an `[ERROR]` token

/-- The `GenerateParser` loop from an intermediate trie. -/
def buildFrom : Node → List Entry → R Node
  | root, [] => .ok root
  | root, en :: es =>
    match step root en with
    | .ok root' => buildFrom root' es
    | .error e => .error e

/-- `GenerateParser()` over the given iteration sequence; `.error .assert` when the `ASSERT` fires. -/
def buildParser (es : List Entry) : R Node := buildFrom Node.empty es

/-- The first entry, in iteration order, that is renderable and prints exactly `tokens`. -/
def firstWith (es : List Entry) (tokens : List String) : Option Entry :=
  es.find? (fun e => e.renderable && e.tokens == tokens)

/-! ## A disassembler as the parser generator sees it -/

/-- The two functions of `include/teakra/disassembler.h` the assembler calls, as arbitrary functions. -/
structure Disasm where
  /-- `GetTokenList(opcode, expansion)` (no `ArArpSettings`) -/
  tokens : BitVec 16 → BitVec 16 → List String
  /-- `NeedExpansion(opcode)` -/
  expansion : BitVec 16 → Bool

/-- The iteration sequence of the C++ loop: `for (u32 opcode = 0; opcode < 0x10000; ++opcode)`. -/
def entriesOf (d : Disasm) : List Entry :=
  (List.range 65536).map fun n =>
    let o := BitVec.ofNat 16 n
    { opcode := o, tokens := d.tokens o 0, expansion := d.expansion o }

/-- `Teakra::GenerateParser()` for the disassembler `d`. -/
def generateParser (d : Disasm) : R Node := buildParser (entriesOf d)

end Teakra.Asm
