import TeakraModel.Operand
import TeakraModel.ArDecode
/-!
# The disassembler's text helpers (`src/disassembler.cpp`), hand-written part

The per-instruction token lists and the enum → text tables are *generated* from the C++ source on every run
(`tools/translate_disasm.py` → `Generated/DisasmTable.lean`).  This file holds what the translator does not interpret
and instead pins by a hash of the source text: `ToHex`, the `Dsm` overloads of immediates and memory operands,
`Mul`, `PA`, the `ar`/`arp` operand printers (with and without `ArArpSettings`), and the two visitor methods whose
body is not a single `return D(…)` (`banke`, `mov(Register, Bx)`).  Names mirror the C++.
-/
namespace Teakra

/-- `Teakra::Disassembler::ArArpSettings`: `ar[2]`, `arp[4]`. -/
structure ArArp where
  ar : List U16
  arp : List U16
  deriving Repr, Inhabited

namespace Dis

def hexDigitChar (n : Nat) : Char :=
  if n < 10 then Char.ofNat (48 + n) else Char.ofNat (87 + n)

/-- `digits` lower-case hex digits of `v`, most significant first (`std::setfill('0') << std::setw(digits) << std::hex`;
every call site prints a value that fits its type, so nothing is ever wider than `digits`). -/
def hexDigits : Nat → Nat → List Char
  | 0, _ => []
  | d + 1, v => hexDigits d (v / 16) ++ [hexDigitChar (v % 16)]

/-- `ToHex<T>(i)` with `sizeof(T) * 2 = digits`. -/
def toHex (digits v : Nat) : String := "0x" ++ String.ofList (hexDigits digits v)

/-- `Dsm(Imm<bits>)`: `ToHex(a.Unsigned16()) + (bits == 8 ? "u8" : "")` -/
def dsmImm (bits v : Nat) : String := toHex 4 (v % 65536) ++ (if bits = 8 then "u8" else "")

/-- `Dsm(Imms<bits>)`: sign and magnitude of `a.Signed16()` (two's complement negate in 16 bits). -/
def dsmImms (bits v : Nat) : String :=
  let value := (signExtend16 bits v).toNat
  if value / 32768 % 2 = 1 then "-" ++ toHex 4 ((65536 - value) % 65536) else "+" ++ toHex 4 value

def dsmMemImm8 (v : Nat) : String := "[page:" ++ dsmImm 8 v ++ "]"
def dsmMemImm16 (v : Nat) : String := "[" ++ dsmImm 16 v ++ "]"
def dsmMemR7Imm16 (v : Nat) : String := "[r7+" ++ dsmImm 16 v ++ "]"
def dsmMemR7Imm7s (v : Nat) : String := "[r7" ++ dsmImms 7 v ++ "s7]"

/-- `Mul(x_sign, y_sign)` -/
def dsmMul (xs ys : Bool) : String := "mpy" ++ (if xs then "sx" else "ux") ++ (if ys then "sy" else "uy")

/-- `PA(base, sub_p0, p0_align, sub_p1, p1_align)` -/
def dsmPA (base : SumBase) (subP0 p0Align subP1 p1Align : Bool) : String :=
  (match base with | .zero => "0" | .acc => "acc" | .sv => "sv" | .svRnd => "svr") ++
  (if subP0 then "-" else "+") ++ "p0" ++ (if p0Align then "a" else "") ++
  (if subP1 then "-" else "+") ++ "p1" ++ (if p1Align then "a" else "")

private def arFn (s : ArArp) (i : Nat) : U16 := s.ar.getD i 0
private def arpFn (s : ArArp) (i : Nat) : U16 := s.arp.getD i 0

/-- `DsmArRn(a)` with `a.Index() = k` -/
def dsmArRn (ar : Option ArArp) (k : Nat) : String :=
  match ar with
  | some s => "%r" ++ toString (Regs.Dsm.arRn (arFn s) k).toNat
  | none => "arrn" ++ toString k

def dsmArStep (ar : Option ArArp) (k : Nat) : String :=
  match ar with
  | some s => Regs.Dsm.convertArStepAndOffset (Regs.Dsm.arStepWord (arFn s) k)
  | none => "+ars" ++ toString k

def dsmArpRni (ar : Option ArArp) (k : Nat) : String :=
  match ar with
  | some s => "%r" ++ toString (Regs.Dsm.arpRni (arpFn s) k).toNat
  | none => "arprni" ++ toString k

def dsmArpStepi (ar : Option ArArp) (k : Nat) : String :=
  match ar with
  | some s => Regs.Dsm.convertArStepAndOffset (Regs.Dsm.arpStepiWord (arpFn s) k)
  | none => "+arpsi" ++ toString k

def dsmArpRnj (ar : Option ArArp) (k : Nat) : String :=
  match ar with
  | some s => "%r" ++ toString (Regs.Dsm.arpRnj (arpFn s) k).toNat
  | none => "arprnj" ++ toString k

def dsmArpStepj (ar : Option ArArp) (k : Nat) : String :=
  match ar with
  | some s => Regs.Dsm.convertArStepAndOffset (Regs.Dsm.arpStepjWord (arpFn s) k)
  | none => "+arpsj" ++ toString k

/-- `MemARS(reg, step)`; the arguments are the operands' `Index()`. -/
def memARS (ar : Option ArArp) (kRn kStep : Nat) : String := "[" ++ dsmArRn ar kRn ++ dsmArStep ar kStep ++ "]"
def memARPSI (ar : Option ArArp) (kRn kStep : Nat) : String := "[" ++ dsmArpRni ar kRn ++ dsmArpStepi ar kStep ++ "]"
def memARPSJ (ar : Option ArArp) (kRn kStep : Nat) : String := "[" ++ dsmArpRnj ar kRn ++ dsmArpStepj ar kStep ++ "]"
def memAR (ar : Option ArArp) (kRn : Nat) : String := "[" ++ dsmArRn ar kRn ++ "]"

/-- `Disassembler::banke(BankFlags)` -/
def banke (v : Nat) : List String :=
  let f := BankFlags.decode v
  ["banke"] ++ (if f.r0 then ["r0"] else []) ++ (if f.r1 then ["r1"] else []) ++ (if f.r4 then ["r4"] else []) ++
    (if f.cfgi then ["cfgi"] else []) ++ (if f.r7 then ["r7"] else []) ++ (if f.cfgj then ["cfgj"] else [])

/-- `Disassembler::mov(Register a, Bx b)`: `D("mov" + a_mark, R(a), R(b))`; the caller passes the rendered registers. -/
def movRegisterBx (a : RegName) (ra rb : String) : List String :=
  ["mov" ++ (if a == .a0 || a == .a1 then "?" else ""), ra, rb]

/-- `Disassembler::Do`: the tokens joined by four blanks (reads `v.back()`: undefined for an empty list, which no
opcode produces). -/
def joinTokens : List String → String
  | [] => ""
  | [t] => t
  | t :: ts => t ++ "    " ++ joinTokens ts

end Dis
end Teakra
