import TeakraModel.Generated.DecodeTable
/-!
# Instruction decoding over the translated table (`src/matcher.h`, `src/decoder.h`)

`Pat.matches` is `Matcher::Matches`, `decode` is `Decode<V>` (first match), `Pat.extract` is what
`MatcherCreator::Proxy::operator()` hands to the visitor: `At::Extract` / `Const::Extract` /
`Cn::Extract` of every operand with `PassAsParameter`, in declaration order.
All definitions are functions of an arbitrary table; `decode` is their instance at the generated one.
-/
namespace Teakra.Decode

/-- `At<T,pos>::Mask = (((1 << Bits) - 1) << pos) & 0xFFFF`, `Unused<pos>::Mask = 1 << pos` (width 1),
`Const`/`Cn`: 0 (width 0). -/
def Operand.mask (o : Operand) : Nat := (((1 <<< o.bits) - 1) <<< o.pos) &&& 0xFFFF

def Operand.isUnused (o : Operand) : Bool := o.kind == "Unused"

/-- `PassAsParameter` operands: the raw value the visitor receives (`storage` for `At`/`Const`, the
constant for `Cn`).  `n` is the opcode word, `e` the expansion word. -/
def Operand.extract (o : Operand) (n e : Nat) : Option Nat :=
  if o.isUnused then none
  else if o.bits = 0 then some o.value          -- Const / Cn
  else if o.pos = 16 then some e                -- At<T,16>: NeedExpansion
  else some ((n &&& o.mask) >>> o.pos)

/-- `Rejector::Rejects`. -/
def rejects (r : Nat × Nat) (n : Nat) : Bool := n &&& r.1 == r.2

/-- `Matcher::Matches` on the numeric value of the word. -/
def Pat.matchesN (p : Pat) (n : Nat) : Bool :=
  (n &&& p.mask == p.expected) && p.rejectors.all (fun r => !rejects r n)

/-- `Matcher::Matches`. -/
def Pat.matches (p : Pat) (w : BitVec 16) : Bool := p.matchesN w.toNat

def Pat.extractN (p : Pat) (n e : Nat) : List Nat := p.operands.filterMap (·.extract n e)

/-- Raw operand values in parameter order (`Unused` skipped). -/
def Pat.extract (p : Pat) (w e : BitVec 16) : List Nat := p.extractN w.toNat e.toNat

/-- Bit positions declared `Unused<pos>`. -/
def Pat.unusedBits (p : Pat) : List Nat := (p.operands.filter (·.isUnused)).map (·.pos)

/-- OR of all operand masks. -/
def Pat.operandUnion (p : Pat) : Nat := p.operands.foldr (fun o acc => o.mask ||| acc) 0

/-- `Decode<V>` over a table: the first matching pattern with its index, `none` = `undefined`. -/
def decodeIn (t : List Pat) (w : BitVec 16) : Option Pat := t.find? (·.matches w)

def decodeIdxIn (t : List Pat) (w : BitVec 16) : Option Nat :=
  let i := t.findIdx (·.matches w)
  if i < t.length then some i else none

/-- `Decode<V>(w)`; `none` is the `undefined(opcode)` fallback. -/
def decode (w : BitVec 16) : Option Pat := decodeIn table w

/-- Number of table entries matching `w` (`Decode<V>` ASSERTs that it is at most one). -/
def matchCount (t : List Pat) (w : BitVec 16) : Nat := (t.filter (·.matches w)).length

/-- Does the instruction whose first word is `w` take a second program word? -/
def needExpansion (w : BitVec 16) : Bool := match decode w with | some p => p.expanded | none => false

/-- `w` with bit `u` flipped. -/
def bit (u : Nat) : BitVec 16 := BitVec.twoPow 16 u

end Teakra.Decode
