import TeakraModel.Basic
/-!
# Model of `src/apbp.cpp` / `src/apbp.h` (mailbox / semaphore block) and of its MMIO wiring

Field for field and branch for branch.  Handler calls (`DataChannel::handler()`,
`semaphore_handler()`) become the returned list of `ApbpEvent`s, in call order (every method
calls at most one handler).  `if (handler)` is modelled as "a handler is installed"; the
correspondence harness installs loggers on every slot.

The channel argument of the C++ methods is an `unsigned` indexing a `std::array<DataChannel, 3>`
without a bounds check, so an index `>= 3` is undefined behaviour.  The `…Core`-free functions
below take a `Fin 3`; the `…N` wrappers take the raw number and answer `Abort.oob` instead of
indexing out of bounds (the harness answers `oob` as well and never performs such a call).

`Apbp::MaskSemaphore` exists in two versions selected by `fixed : Bool`: `false` is the code of
the pinned upstream tree (the mask is stored, `semaphore_master_signal` is left alone, no handler
call), `true` is the proposed repair (flag recomputed, handler called when the flag rises).

The mutexes are not modelled: every method body is one critical section (the data handler is
called after the channel lock is released, the semaphore handler under the recursive semaphore
lock); the model is the sequential semantics of one call at a time.
-/
namespace Teakra

/-- `class DataChannel` of `apbp.cpp` (without `handler` and `mutex`). -/
structure DataChannel where
  ready            : Bool := false
  data             : U16 := 0
  disableInterrupt : U16 := 0
  deriving DecidableEq, Repr, Inhabited

namespace DataChannel

/-- `DataChannel::Reset` (the pinned upstream code did not clear `disable_interrupt`; repaired in
/repo, see `Teakra.Bus.resetUpstream`). -/
def reset (c : DataChannel) : DataChannel := { c with ready := false, data := 0, disableInterrupt := 0 }

/-- `DataChannel::Send`; the `Bool` is "`handler()` was called". -/
def send (c : DataChannel) (data : U16) : DataChannel × Bool :=
  ({ c with ready := true, data := data }, c.disableInterrupt = 0)

/-- `DataChannel::Recv` -/
def recv (c : DataChannel) : DataChannel × U16 := ({ c with ready := false }, c.data)

/-- `DataChannel::Peek` -/
def peek (c : DataChannel) : U16 := c.data

/-- `DataChannel::IsReady` -/
def isReady (c : DataChannel) : Bool := c.ready

/-- `DataChannel::GetDisableInterrupt` -/
def getDisableInterrupt (c : DataChannel) : U16 := c.disableInterrupt

/-- `DataChannel::SetDisableInterrupt` -/
def setDisableInterrupt (c : DataChannel) (v : U16) : DataChannel := { c with disableInterrupt := v }

end DataChannel

/-- A handler invocation made by an `Apbp` method. -/
inductive ApbpEvent where
  /-- `data_channels[ch].handler()` -/
  | data (ch : Fin 3)
  /-- `semaphore_handler()` -/
  | semaphore
  deriving DecidableEq, Repr, Inhabited

/-- `class Apbp::Impl` (without handlers and mutexes). -/
structure Apbp where
  dataChannels          : Vector DataChannel 3 := Vector.replicate 3 {}
  semaphore             : U16 := 0
  semaphoreMask         : U16 := 0
  semaphoreMasterSignal : Bool := false
  deriving DecidableEq, Repr, Inhabited

namespace Apbp

/-- `(semaphore & ~semaphore_mask) != 0` -/
def signalOf (semaphore mask : U16) : Bool := semaphore &&& ~~~mask != 0

/-- `Apbp::Impl::Reset` -/
def reset (a : Apbp) : Apbp :=
  { a with dataChannels := a.dataChannels.map DataChannel.reset,
           semaphore := 0, semaphoreMask := 0, semaphoreMasterSignal := false }

/-- `Apbp::SendData` -/
def sendData (a : Apbp) (channel : Fin 3) (data : U16) : Apbp × List ApbpEvent :=
  let r := a.dataChannels[channel].send data
  ({ a with dataChannels := a.dataChannels.set channel r.1 },
   if r.2 then [.data channel] else [])

/-- `Apbp::RecvData` -/
def recvData (a : Apbp) (channel : Fin 3) : Apbp × U16 :=
  let r := a.dataChannels[channel].recv
  ({ a with dataChannels := a.dataChannels.set channel r.1 }, r.2)

/-- `Apbp::PeekData` -/
def peekData (a : Apbp) (channel : Fin 3) : U16 := a.dataChannels[channel].peek

/-- `Apbp::IsDataReady` -/
def isDataReady (a : Apbp) (channel : Fin 3) : Bool := a.dataChannels[channel].isReady

/-- `Apbp::GetDisableInterrupt` -/
def getDisableInterrupt (a : Apbp) (channel : Fin 3) : U16 :=
  a.dataChannels[channel].getDisableInterrupt

/-- `Apbp::SetDisableInterrupt` -/
def setDisableInterrupt (a : Apbp) (channel : Fin 3) (v : U16) : Apbp :=
  { a with dataChannels := a.dataChannels.set channel (a.dataChannels[channel].setDisableInterrupt v) }

/-- `Apbp::SetSemaphore`: the handler runs whenever the freshly computed signal is true (also
when the flag was already set); the flag is OR-ed. -/
def setSemaphore (a : Apbp) (bits : U16) : Apbp × List ApbpEvent :=
  let semaphore := a.semaphore ||| bits
  let newSignal := signalOf semaphore a.semaphoreMask
  ({ a with semaphore := semaphore,
            semaphoreMasterSignal := a.semaphoreMasterSignal || newSignal },
   if newSignal then [.semaphore] else [])

/-- `Apbp::ClearSemaphore` -/
def clearSemaphore (a : Apbp) (bits : U16) : Apbp :=
  let semaphore := a.semaphore &&& ~~~bits
  { a with semaphore := semaphore, semaphoreMasterSignal := signalOf semaphore a.semaphoreMask }

/-- `Apbp::GetSemaphore` -/
def getSemaphore (a : Apbp) : U16 := a.semaphore

/-- `Apbp::MaskSemaphore`.  `fixed = false`: upstream (stores the mask, nothing else).
`fixed = true`: the repair — recompute the flag from the new mask and call the handler exactly
when the flag rises. -/
def maskSemaphoreGen (fixed : Bool) (a : Apbp) (bits : U16) : Apbp × List ApbpEvent :=
  if fixed then
    let newSignal := signalOf a.semaphore bits
    ({ a with semaphoreMask := bits, semaphoreMasterSignal := newSignal },
     if newSignal && !a.semaphoreMasterSignal then [.semaphore] else [])
  else ({ a with semaphoreMask := bits }, [])

/-- `Apbp::GetSemaphoreMask` -/
def getSemaphoreMask (a : Apbp) : U16 := a.semaphoreMask

/-- `Apbp::IsSemaphoreSignaled` -/
def isSemaphoreSignaled (a : Apbp) : Bool := a.semaphoreMasterSignal

/-! ### raw-index wrappers (the C++ signatures take `unsigned channel`) -/

/-- Run `f` on a checked channel index, `Abort.oob` for an index outside the `std::array`. -/
def withChannel {α : Type} (channel : Nat) (f : Fin 3 → α) : R α :=
  if h : channel < 3 then .ok (f ⟨channel, h⟩) else .error .oob

def sendDataN (a : Apbp) (channel : Nat) (data : U16) : R (Apbp × List ApbpEvent) :=
  withChannel channel (a.sendData · data)
def recvDataN (a : Apbp) (channel : Nat) : R (Apbp × U16) := withChannel channel a.recvData
def peekDataN (a : Apbp) (channel : Nat) : R U16 := withChannel channel a.peekData
def isDataReadyN (a : Apbp) (channel : Nat) : R Bool := withChannel channel a.isDataReady
def getDisableInterruptN (a : Apbp) (channel : Nat) : R U16 := withChannel channel a.getDisableInterrupt
def setDisableInterruptN (a : Apbp) (channel : Nat) (v : U16) : R Apbp :=
  withChannel channel (a.setDisableInterrupt · v)

end Apbp

/-! ## MMIO wiring of the two `Apbp` instances (`src/mmio.cpp`, cells `0x0C0`–`0x0D8`) and the
host API of `src/teakra.cpp`

`apbp_from_cpu` is written by the host (`Teakra::SendData`, `Teakra::SetSemaphore`) and read by
the DSP (`0x0C2+4i`, `0x0D2`); `apbp_from_dsp` is written by the DSP (`0x0C0+4i`, `0x0CC`) and
read by the host (`Teakra::RecvData`, `Teakra::GetSemaphore`). -/

/-- One getter slot of a `Cell::BitFieldCell` of length 1: clear the bit, then OR in the getter's
value (`value &= ~(1 << pos); value |= get() << pos;`). -/
def bitSlot (value : U16) (pos : Nat) (b : Bool) : U16 :=
  (value &&& ~~~((1 : U16) <<< pos)) ||| ((if b then 1 else 0 : U16) <<< pos)

/-- `cells[0x0D6].get()` (DSP-side APBP status): the slots are applied in the order of the
initializer list over the cell's own storage word. -/
def statusD6 (storage : U16) (fromCpu fromDsp : Apbp) : U16 :=
  let v := bitSlot storage 5 (fromDsp.isDataReady 0)
  let v := bitSlot v 6 (fromDsp.isDataReady 1)
  let v := bitSlot v 7 (fromDsp.isDataReady 2)
  let v := bitSlot v 8 (fromCpu.isDataReady 0)
  let v := bitSlot v 9 fromCpu.isSemaphoreSignaled
  let v := bitSlot v 12 (fromCpu.isDataReady 1)
  bitSlot v 13 (fromCpu.isDataReady 2)

/-- `cells[0x0D8].get()` (mirror of the host-side `DSP_PSTS`). -/
def statusD8 (storage : U16) (fromCpu fromDsp : Apbp) : U16 :=
  let v := bitSlot storage 9 fromCpu.isSemaphoreSignaled
  let v := bitSlot v 10 (fromDsp.isDataReady 0)
  let v := bitSlot v 11 (fromDsp.isDataReady 1)
  let v := bitSlot v 12 (fromDsp.isDataReady 2)
  let v := bitSlot v 13 (fromCpu.isDataReady 0)
  let v := bitSlot v 14 (fromCpu.isDataReady 1)
  bitSlot v 15 (fromCpu.isDataReady 2)

/-- `cells[0x0D4].get()`: interrupt-disable bits of `apbp_from_cpu` at 8, 12, 13 (bit 2 is a
slot without accessors and reads back from storage).  `GetDisableInterrupt` returns the `u16`
that was stored, which the cell writes only as 0 or 1. -/
def configD4 (storage : U16) (fromCpu : Apbp) : U16 :=
  let slot (value : U16) (pos : Nat) (g : U16) : U16 :=
    (value &&& ~~~((1 : U16) <<< pos)) ||| (g <<< pos)
  let v := slot storage 8 (fromCpu.getDisableInterrupt 0)
  let v := slot v 12 (fromCpu.getDisableInterrupt 1)
  slot v 13 (fromCpu.getDisableInterrupt 2)

/-- `cells[0x0D4].set(value)` on the `Apbp` side: `(value >> pos) & 1` to each channel. -/
def writeD4 (fromCpu : Apbp) (value : U16) : Apbp :=
  let a := fromCpu.setDisableInterrupt 0 ((value >>> 8) &&& 1)
  let a := a.setDisableInterrupt 1 ((value >>> 12) &&& 1)
  a.setDisableInterrupt 2 ((value >>> 13) &&& 1)

/-- `Teakra::SendDataIsEmpty` -/
def hostSendDataIsEmpty (fromCpu : Apbp) (index : Fin 3) : Bool := !fromCpu.isDataReady index

/-- `Teakra::RecvDataIsReady` -/
def hostRecvDataIsReady (fromDsp : Apbp) (index : Fin 3) : Bool := fromDsp.isDataReady index

end Teakra
