import TeakraModel.Run
import TeakraModel.Generated.DisasmTable
/-!
# `Disassembler::GetTokenList` / `Do` / `NeedExpansion` over the shared decode look-up

`Decode<Disassembler>(opcode).call(dsm, opcode, expansion)`: the table entry the word selects (the same look-up the
interpreter model uses, `decodeInstr`; equality with the C02 decoder is `Proofs/C02Fetch.lean`), its operand values
extracted from the two words, handed to the entry's visitor method (`disasmEntry`, generated from `disassembler.cpp`).
-/
namespace Teakra

/-- `Disassembler::GetTokenList(opcode, expansion, ar_arp)` -/
def disTokens (w e : Nat) (ar : Option ArArp) : List String :=
  match decodeInstr (w % 65536) with
  | some p => disasmEntry p.idx (p.extract (w % 65536) (e % 65536)) ar
  | none => ["[ERROR]"]        -- `Disassembler::undefined`

/-- `Disassembler::Do(opcode, expansion, ar_arp)` -/
def disDo (w e : Nat) (ar : Option ArArp) : String := Dis.joinTokens (disTokens w e ar)

/-- `Disassembler::NeedExpansion(opcode)` -/
def disNeedExpansion (w : Nat) : Bool :=
  match decodeInstr (w % 65536) with
  | some p => p.expanded
  | none => false

/-- Bits of the first word that an entry neither compares, nor excludes on, nor passes to the visitor. -/
def InstrPat.freeBits (p : InstrPat) : List Nat :=
  (List.range 16).filter fun u =>
    !p.mask.testBit u && p.rejectors.all (fun r => !r.1.testBit u) &&
      p.fields.all (fun f => f.1 == 16 || decide (u < f.1) || decide (f.1 + f.2 ≤ u))

end Teakra
