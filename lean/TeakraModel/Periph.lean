import TeakraModel.Machine
import TeakraModel.Timer
import TeakraModel.Btdmp
import TeakraModel.Apbp
import TeakraModel.Icu
import TeakraModel.Ahbm
import TeakraModel.Dma
/-!
# The peripheral objects of `Teakra::Impl` (src/teakra.cpp) and their interrupt wiring

`Periph` holds every peripheral member of `Teakra::Impl` (the models of the individual classes
are reused unchanged) plus `store`, the backing words of the MMIO cells of src/mmio.cpp: every
default-constructed `Cell()` and every `Cell::BitFieldCell` owns one `std::shared_ptr<u16>`
storage word, and `std::array<Cell, 0x800> cells{}` default-constructs *all* 0x800 cells, so
there is one storage word per offset (odd offsets included).

`Bus` adds the `MemoryInterfaceUnit`, the shared DSP memory and the external memory behind the
AHBM callbacks.  `PEvent` is everything that leaves the bus, in emission order.

Wiring (constructor of `Teakra::Impl`): `timer[0]` → `icu.TriggerSingle(0xA)`, `timer[1]` → 0x9,
all four handlers of `apbp_from_cpu` → 0xE, `btdmp[0]`, `btdmp[1]` → 0xB, `dma` → 0xF; the ICU's
`on_interrupt` / `on_vectored_interrupt` are `Processor::SignalInterrupt` /
`SignalVectoredInterrupt` and become `PEvent.irq` / `PEvent.virq`.  The handlers of
`apbp_from_dsp` and the audio callback of `btdmp[0]` are installed by the host (`btdmp[1]` has no
audio callback: its frames are dropped by `if (audio_callback)`).
-/
namespace Teakra

/-- Which `Timer::Skip` the tree has (`true` after `fix: Timer::Skip(0) …`). -/
def busTimerSkipFixed : Bool := true
/-- Which `Apbp::MaskSemaphore` the tree has (`true` after `fix: MaskSemaphore recomputes …`). -/
def busApbpMaskFixed : Bool := true

/-- Number of cells of `MMIORegion` (`MemoryInterfaceUnit::MMIOSize`). -/
abbrev mmioSize : Nat := 0x800

structure Periph where
  timer       : Vector Timer 2 := Vector.replicate 2 {}
  btdmp       : Vector Btdmp 2 := Vector.replicate 2 {}
  apbpFromCpu : Apbp := {}
  apbpFromDsp : Apbp := {}
  icu         : Icu := {}
  dma         : Dma := {}
  ahbm        : Ahbm := {}
  /-- storage word of `cells[off]` (plain `Cell()` or `BitFieldCell`), keyed by offset -/
  store       : Vector U16 mmioSize := Vector.replicate mmioSize 0
  deriving Inhabited

/-- Everything that leaves the bus, in emission order. -/
inductive PEvent where
  /-- `Processor::SignalInterrupt(line)` (ICU `on_interrupt`) -/
  | irq (line : Nat)
  /-- `Processor::SignalVectoredInterrupt(addr, ctx)` -/
  | virq (addr : U32) (ctx : Bool)
  /-- audio callback of `btdmp[0]`: `(u16)sample[0]`, `(u16)sample[1]` -/
  | audio (l r : U16)
  /-- host-installed data handler `ch` of `apbp_from_dsp` -/
  | recvHandler (ch : Nat)
  /-- host-installed semaphore handler of `apbp_from_dsp` -/
  | semHandler
  /-- one external-memory callback invocation of the AHBM -/
  | ext (e : ExtEvent)
  deriving DecidableEq, Repr, Inhabited

/-- External memory behind the AHBM callbacks: a pure function of the address overlaid by the
bytes written so far. -/
structure ExtSt where
  bg : Nat → BitVec 8 := fun _ => 0
  ov : Std.HashMap Nat (BitVec 8) := {}

instance : Inhabited ExtSt := ⟨{}⟩

instance : ExtMem ExtSt where
  read8 e a := match e.ov[a.toNat]? with
    | some v => v
    | none => e.bg a.toNat
  write8 e a v := { e with ov := e.ov.insert a.toNat v }

/-- `Mem` as the DSP memory of the DMA model (index = byte address / 2). -/
instance : DspMem Mem where
  read m a := m.read a.toNat
  write m a v := m.write a.toNat v
  read_write_same := by
    intro m a v
    simp [Mem.read, Mem.write]
  read_write_other := by
    intro m a b v hab
    have hn : ¬ (a.toNat = b.toNat) := fun h => hab (BitVec.eq_of_toNat_eq h)
    simp [Mem.read, Mem.write, Std.HashMap.get?_eq_getElem?, Std.HashMap.getElem?_insert, hn]

structure Bus where
  miu : Miu := {}
  mem : Mem := {}
  per : Periph := {}
  ext : ExtSt := {}
  deriving Inhabited

/-! ## interrupt wiring -/

def PEvent.ofIcu : IcuEvent → PEvent
  | .interrupt line => .irq line.val
  | .vectored a c => .virq a c

/-- IRQ numbers of the wiring in `Teakra::Impl::Impl`. -/
def irqTimer (i : Fin 2) : Nat := if i = 0 then 0xA else 0x9
def irqApbp : Nat := 0xE
def irqBtdmp : Nat := 0xB
def irqDma : Nat := 0xF

namespace Periph

/-- One `icu.TriggerSingle(irq)`: new ICU, callbacks made (as `PEvent`s). -/
def raise (p : Periph) (irq : Nat) : Periph × List PEvent :=
  let r := p.icu.trigger (Icu.singleBit irq)
  ({ p with icu := r.1 }, r.2.map PEvent.ofIcu)

/-- `n` consecutive `icu.TriggerSingle(irq)`. -/
def raiseN (p : Periph) (irq : Nat) : Nat → Periph × List PEvent
  | 0 => (p, [])
  | n + 1 =>
    let r := p.raise irq
    let r' := r.1.raiseN irq n
    (r'.1, r.2 ++ r'.2)

/-- `if (fired) icu.TriggerSingle(irq)`. -/
def raiseIf (p : Periph) (fired : Bool) (irq : Nat) : Periph × List PEvent :=
  if fired then p.raise irq else (p, [])

end Periph

/-- Handler calls of `apbp_from_dsp` as host-visible events. -/
def PEvent.ofApbpDsp : ApbpEvent → PEvent
  | .data ch => .recvHandler ch.val
  | .semaphore => .semHandler

end Teakra
