import TeakraModel.Machine
/-! Decode-table record used by the interpreter model (emitted by `tools/gen_dispatch.py`). -/
namespace Teakra

structure InstrPat where
  idx : Nat
  key : String                 -- handler key: C++ method name + operand types
  expected : Nat
  mask : Nat
  expanded : Bool
  fields : List (Nat × Nat)    -- (pos, bits) of each extracted operand, in parameter order; pos 16 = second word
  rejectors : List (Nat × Nat) -- (mask, unexpected)
  deriving Repr, Inhabited

namespace InstrPat
/-- `Matcher::Matches` -/
def matchesWord (p : InstrPat) (w : Nat) : Bool :=
  (w &&& p.mask) == p.expected && p.rejectors.all fun (m, u) => (w &&& m) != u

/-- `At::Extract` for each passed operand -/
def extract (p : InstrPat) (w e : Nat) : List Nat :=
  p.fields.map fun (pos, bits) => if pos == 16 then e % 2 ^ 16 else (w >>> pos) % 2 ^ bits
end InstrPat

end Teakra
