import TeakraModel.Basic
import TeakraModel.Ahbm
/-!
# Model of `src/dma.cpp` / `src/dma.h`

Field for field and branch for branch.  `Dma` holds references to `SharedMemory` and `Ahbm`; the
model threads them (plus the external memory behind the AHBM callbacks and the callback log)
through a `World`.

* DSP memory is an abstraction `DspMem` (`read`/`write` on a word index with the two usual
  laws).  `SharedMemory::ReadWord(0x20000 + cur)` computes `byte_address = word_address * 2` in
  `u32` and indexes a 0x80000-byte array without any bound; the model goes through `dspIndex`,
  which answers `none` (→ `Abort.oob`) exactly when the `TEAKRA_VERIF` memory hook sees
  `byte_address + 1 ≥ 0x80000`.
* External memory is an abstraction `ExtMem` (byte addressed, little endian composites).
* `channels[active_channel]` / `channels[channel]` index a `std::array<Channel, 8>` with an
  unmasked `u16`; the model guards (`Abort.oob` when `≥ 8`).
* `interrupt_handler()` becomes the `Nat` component (number of invocations) of `doDma`/`setZ`.
* `while (running) Tick` is `run` with structural fuel; out of fuel is `Abort.hang`.
  `Proofs/C13.lean` proves `ticksBound` sufficient for every configuration.  (Upstream the three
  counters were `u16` and the loop did not end for `dword_mode ≠ 0 ∧ size0 = 0xFFFF`;
  `advanceUpstream` / `runUpstream` keep that behaviour for the witness `dma_hangs_upstream`.)
-/
namespace Teakra

/-- Word-addressed DSP memory (index = byte address / 2 of the 0x80000-byte array). -/
class DspMem (M : Type) where
  read  : M → U32 → U16
  write : M → U32 → U16 → M
  read_write_same  : ∀ (m : M) (a : U32) (v : U16), read (write m a v) a = v
  read_write_other : ∀ (m : M) (a b : U32) (v : U16), a ≠ b → read (write m a v) b = read m b

/-- Functions as memories (used in statements and examples). -/
instance : DspMem (U32 → U16) where
  read m a := m a
  write m a v := fun b => if b = a then v else m b
  read_write_same := by intro m a v; simp
  read_write_other := by intro m a b v h; simp [Ne.symm h]

/-- Executable memory: an array of words for the indices below its size, an association list
above (never used by the DMA model, which guards every index first; it makes the laws total). -/
structure ArrMem where
  arr   : Array U16
  extra : List (U32 × U16) := []

namespace ArrMem
def read (m : ArrMem) (a : U32) : U16 :=
  if h : a.toNat < m.arr.size then m.arr[a.toNat] else
    match m.extra.lookup a with
    | some v => v
    | none => 0
def write (m : ArrMem) (a : U32) (v : U16) : ArrMem :=
  if a.toNat < m.arr.size then { m with arr := m.arr.setIfInBounds a.toNat v }
  else { m with extra := (a, v) :: m.extra }
end ArrMem

set_option linter.unusedSimpArgs false in
instance : DspMem ArrMem where
  read := ArrMem.read
  write := ArrMem.write
  read_write_same := by
    intro m a v
    unfold ArrMem.read ArrMem.write
    by_cases h : a.toNat < m.arr.size <;> simp [h, List.lookup]
  read_write_other := by
    intro m a b v hab
    have hn : a.toNat ≠ b.toNat := fun h => hab (BitVec.eq_of_toNat_eq h)
    have hba : (b == a) = false := by simp [Ne.symm hab]
    unfold ArrMem.read ArrMem.write
    by_cases h : a.toNat < m.arr.size <;> by_cases h' : b.toNat < m.arr.size <;>
      simp [h, h', List.lookup, hba, Array.getElem_setIfInBounds, hn]

/-- Byte-addressed external memory behind the AHBM callbacks. -/
class ExtMem (E : Type) where
  read8  : E → U32 → BitVec 8
  write8 : E → U32 → BitVec 8 → E

instance : ExtMem (U32 → BitVec 8) where
  read8 e a := e a
  write8 e a v := fun b => if b = a then v else e b

namespace ExtMem
variable {E : Type} [ExtMem E]

/-- The read callbacks installed by the harness: little-endian composites of bytes. -/
def reader (e : E) : ExtRead where
  read8 a := read8 e a
  read16 a := read8 e (a + 1) ++ read8 e a
  read32 a := read8 e (a + 3) ++ read8 e (a + 2) ++ read8 e (a + 1) ++ read8 e a

/-- Effect of one callback invocation on the external memory (reads: none). -/
def apply (e : E) (ev : ExtEvent) : E :=
  match ev.kind with
  | .read => e
  | .write =>
    if ev.width = 8 then write8 e ev.addr (ev.value.setWidth 8)
    else if ev.width = 16 then
      write8 (write8 e ev.addr (ev.value.setWidth 8)) (ev.addr + 1) ((ev.value >>> 8).setWidth 8)
    else
      write8 (write8 (write8 (write8 e ev.addr (ev.value.setWidth 8))
        (ev.addr + 1) ((ev.value >>> 8).setWidth 8))
        (ev.addr + 2) ((ev.value >>> 16).setWidth 8))
        (ev.addr + 3) ((ev.value >>> 24).setWidth 8)

def applyAll (e : E) (evs : List ExtEvent) : E := evs.foldl apply e
end ExtMem

/-- Everything a DMA transfer can touch besides the DMA registers.  `log` holds the
external-callback invocations, **newest first**. -/
structure World (M E : Type) where
  mem  : M
  ahbm : Ahbm := {}
  ext  : E
  log  : List ExtEvent := []

/-- `Dma::Channel` -/
structure DmaChannel where
  addrSrcLow : U16 := 0
  addrSrcHigh : U16 := 0
  addrDstLow : U16 := 0
  addrDstHigh : U16 := 0
  size0 : U16 := 0
  size1 : U16 := 0
  size2 : U16 := 0
  srcStep0 : U16 := 0
  dstStep0 : U16 := 0
  srcStep1 : U16 := 0
  dstStep1 : U16 := 0
  srcStep2 : U16 := 0
  dstStep2 : U16 := 0
  srcSpace : U16 := 0
  dstSpace : U16 := 0
  dwordMode : U16 := 0
  y : U16 := 0
  z : U16 := 0
  currentSrc : U32 := 0
  currentDst : U32 := 0
  counter0 : U32 := 0      -- `u32` since the repair of the double-word counter wrap (was `u16`)
  counter1 : U32 := 0
  counter2 : U32 := 0
  running : U16 := 0
  ahbmChannel : U16 := 0
  deriving DecidableEq, Repr, Inhabited

/-- Index into the 0x40000-word array for `ReadWord/WriteWord(0x20000 + cur)`; `none` when the
memory hook reports the access as outside the array. -/
def dspIndex (cur : U32) : Option U32 :=
  let byte : U32 := (0x20000 + (cur &&& 0x1FFFF)) * 2   -- the 17-bit mask is the repair of the unbounded upstream access
  if byte.toNat + 1 < 0x80000 then some (byte >>> 1) else none

/-- The pinned upstream index: `0x20000 + cur` unmasked, outside the array for `cur ≥ 0x20000`. -/
def dspIndexUpstream (cur : U32) : Option U32 :=
  let byte : U32 := (0x20000 + cur) * 2
  if byte.toNat + 1 < 0x80000 then some (byte >>> 1) else none

section
variable {M E : Type} [DspMem M] [ExtMem E]

def dspRead (w : World M E) (cur : U32) : R U16 :=
  match dspIndex cur with
  | some i => .ok (DspMem.read w.mem i)
  | none => .error .oob

def dspWrite (w : World M E) (cur : U32) (v : U16) : R (World M E) :=
  match dspIndex cur with
  | some i => .ok { w with mem := DspMem.write w.mem i v }
  | none => .error .oob

/-- Record callback invocations and apply the writes among them to the external memory. -/
def World.commit (w : World M E) (a : Ahbm) (ev : List ExtEvent) : World M E :=
  { w with ahbm := a, ext := ExtMem.applyAll w.ext ev, log := ev.reverse ++ w.log }

namespace DmaChannel

/-- `Dma::Channel::Start` -/
def start (c : DmaChannel) : DmaChannel :=
  { c with running := 1,
           currentSrc := c.addrSrcHigh ++ c.addrSrcLow,
           currentDst := c.addrDstHigh ++ c.addrDstLow,
           counter0 := 0, counter1 := 0, counter2 := 0 }

/-- First half of `Dma::Channel::Tick`: move one element from `current_src` to `current_dst`. -/
def xfer (c : DmaChannel) (w : World M E) : R (World M E) :=
  if c.dwordMode ≠ 0 then do
    let (value, w1) ← (
      if c.srcSpace = 0 then do
        let l := c.currentSrc &&& 0xFFFFFFFE
        let h := c.currentSrc ||| 1
        let lo ← dspRead w l
        let hi ← dspRead w h
        pure ((hi ++ lo : U32), w)
      else if c.srcSpace = 7 then do
        let (a, v, ev) ← w.ahbm.read32 (ExtMem.reader w.ext) c.ahbmChannel c.currentSrc
        pure (v, w.commit a ev)
      else pure (0, w) : R (U32 × World M E))
    if c.dstSpace = 0 then do
      let l := c.currentDst &&& 0xFFFFFFFE
      let h := c.currentDst ||| 1
      let w2 ← dspWrite w1 l (value.setWidth 16)
      dspWrite w2 h ((value >>> 16).setWidth 16)
    else if c.dstSpace = 7 then do
      let (a, ev) ← w1.ahbm.write32 c.ahbmChannel c.currentDst value
      pure (w1.commit a ev)
    else pure w1
  else do
    let (value, w1) ← (
      if c.srcSpace = 0 then do
        let v ← dspRead w c.currentSrc
        pure (v, w)
      else if c.srcSpace = 7 then do
        let (a, v, ev) ← w.ahbm.read16 (ExtMem.reader w.ext) c.ahbmChannel c.currentSrc
        pure (v, w.commit a ev)
      else pure (0, w) : R (U16 × World M E))
    if c.dstSpace = 0 then dspWrite w1 c.currentDst value
    else if c.dstSpace = 7 then do
      let (a, ev) ← w1.ahbm.write16 c.ahbmChannel c.currentDst value
      pure (w1.commit a ev)
    else pure w1

/-- Second half of `Dma::Channel::Tick`: counters and cursors (`u32` counters compared with the
`u16` sizes, `u32 += u16` cursors). -/
def advance (c : DmaChannel) : DmaChannel :=
  let c0 : U32 := c.counter0 + (if c.dwordMode ≠ 0 then 2 else 1)
  if c0 ≥ c.size0.setWidth 32 then
    let c1 : U32 := c.counter1 + 1
    if c1 ≥ c.size1.setWidth 32 then
      let c2 : U32 := c.counter2 + 1
      if c2 ≥ c.size2.setWidth 32 then
        { c with counter0 := 0, counter1 := 0, counter2 := c2, running := 0 }
      else
        { c with counter0 := 0, counter1 := 0, counter2 := c2,
                 currentSrc := c.currentSrc + c.srcStep2.setWidth 32,
                 currentDst := c.currentDst + c.dstStep2.setWidth 32 }
    else
      { c with counter0 := 0, counter1 := c1,
               currentSrc := c.currentSrc + c.srcStep1.setWidth 32,
               currentDst := c.currentDst + c.dstStep1.setWidth 32 }
  else
    { c with counter0 := c0,
             currentSrc := c.currentSrc + c.srcStep0.setWidth 32,
             currentDst := c.currentDst + c.dstStep0.setWidth 32 }

/-- `(u16)x` kept in a `u32` field. -/
def trunc16 (x : U32) : U32 := (x.setWidth 16).setWidth 32

/-- The counter half of `Tick` as it was upstream, before the repair: the three counters were
`u16`, so every `+=` was truncated to 16 bits (`counter0 += 2` steps 0xFFFE → 0).  Kept so that
the non-termination it caused stays a proved witness (`dma_hangs_upstream`). -/
def advanceUpstream (c : DmaChannel) : DmaChannel :=
  let c0 : U32 := trunc16 (c.counter0 + (if c.dwordMode ≠ 0 then 2 else 1))
  if c0 ≥ c.size0.setWidth 32 then
    let c1 : U32 := trunc16 (c.counter1 + 1)
    if c1 ≥ c.size1.setWidth 32 then
      let c2 : U32 := trunc16 (c.counter2 + 1)
      if c2 ≥ c.size2.setWidth 32 then
        { c with counter0 := 0, counter1 := 0, counter2 := c2, running := 0 }
      else
        { c with counter0 := 0, counter1 := 0, counter2 := c2,
                 currentSrc := c.currentSrc + c.srcStep2.setWidth 32,
                 currentDst := c.currentDst + c.dstStep2.setWidth 32 }
    else
      { c with counter0 := 0, counter1 := c1,
               currentSrc := c.currentSrc + c.srcStep1.setWidth 32,
               currentDst := c.currentDst + c.dstStep1.setWidth 32 }
  else
    { c with counter0 := c0,
             currentSrc := c.currentSrc + c.srcStep0.setWidth 32,
             currentDst := c.currentDst + c.dstStep0.setWidth 32 }

/-- `Dma::Channel::Tick` -/
def tick (c : DmaChannel) (w : World M E) : R (DmaChannel × World M E) :=
  match xfer c w with
  | .ok w' => .ok (advance c, w')
  | .error e => .error e

/-- `while (running) Tick(*this);` with fuel: at most `fuel` ticks, `Abort.hang` if still running. -/
def run : Nat → DmaChannel → World M E → R (DmaChannel × World M E)
  | 0, c, w => if c.running = 0 then .ok (c, w) else .error .hang
  | fuel + 1, c, w =>
    if c.running = 0 then .ok (c, w)
    else match tick c w with
      | .ok (c', w') => run fuel c' w'
      | .error e => .error e

/-- The upstream loop (`u16` counters), for the witness of the repaired defect. -/
def runUpstream : Nat → DmaChannel → World M E → R (DmaChannel × World M E)
  | 0, c, w => if c.running = 0 then .ok (c, w) else .error .hang
  | fuel + 1, c, w =>
    if c.running = 0 then .ok (c, w)
    else match xfer c w with
      | .ok w' => runUpstream fuel (advanceUpstream c) w'
      | .error e => .error e

/-- Elements per dimension-0 stride: `size0` (zero as one); in double-word mode each element
counts two. -/
def n0 (c : DmaChannel) : Nat :=
  if c.dwordMode ≠ 0 then (max c.size0.toNat 1 + 1) / 2 else max c.size0.toNat 1
def n1 (c : DmaChannel) : Nat := max c.size1.toNat 1
def n2 (c : DmaChannel) : Nat := max c.size2.toNat 1

/-- Number of ticks after which the loop has ended (proved sufficient in `Proofs/C13.lean`). -/
def ticksBound (c : DmaChannel) : Nat := c.n0 * c.n1 * c.n2

end DmaChannel
end

/-- `class Dma` (without the two references, which live in `World`). -/
structure Dma where
  enableChannel : U16 := 0
  activeChannel : U16 := 0
  channels : Vector DmaChannel 8 := Vector.replicate 8 {}
  deriving DecidableEq, Repr

instance : Inhabited Dma := ⟨{}⟩

namespace Dma

def reset (_ : Dma) : Dma := {}

def enableChannelSet (d : Dma) (v : U16) : Dma := { d with enableChannel := v }
def getChannelEnabled (d : Dma) : U16 := d.enableChannel
/-- `Dma::ActivateChannel`: CHANNEL is a 3-bit field (the pinned upstream code stored the value
unmasked and indexed `channels[8]` with it; repaired in /repo). -/
def activateChannel (d : Dma) (v : U16) : Dma := { d with activeChannel := v &&& 7 }
def getActiveChannel (d : Dma) : U16 := d.activeChannel

/-- `channels[active_channel]` read access, guarded. -/
def getActive {α : Type} (d : Dma) (f : DmaChannel → α) : R α :=
  if h : d.activeChannel.toNat < 8 then .ok (f d.channels[d.activeChannel.toNat]) else .error .oob

/-- `channels[active_channel].field = value`, guarded. -/
def setActive (d : Dma) (f : DmaChannel → DmaChannel) : R Dma :=
  if h : d.activeChannel.toNat < 8 then
    .ok { d with channels := d.channels.set d.activeChannel.toNat (f d.channels[d.activeChannel.toNat]) }
  else .error .oob

def setAddrSrcLow (d : Dma) (v : U16) := d.setActive ({ · with addrSrcLow := v })
def getAddrSrcLow (d : Dma) := d.getActive (·.addrSrcLow)
def setAddrSrcHigh (d : Dma) (v : U16) := d.setActive ({ · with addrSrcHigh := v })
def getAddrSrcHigh (d : Dma) := d.getActive (·.addrSrcHigh)
def setAddrDstLow (d : Dma) (v : U16) := d.setActive ({ · with addrDstLow := v })
def getAddrDstLow (d : Dma) := d.getActive (·.addrDstLow)
def setAddrDstHigh (d : Dma) (v : U16) := d.setActive ({ · with addrDstHigh := v })
def getAddrDstHigh (d : Dma) := d.getActive (·.addrDstHigh)
def setSize0 (d : Dma) (v : U16) := d.setActive ({ · with size0 := v })
def getSize0 (d : Dma) := d.getActive (·.size0)
def setSize1 (d : Dma) (v : U16) := d.setActive ({ · with size1 := v })
def getSize1 (d : Dma) := d.getActive (·.size1)
def setSize2 (d : Dma) (v : U16) := d.setActive ({ · with size2 := v })
def getSize2 (d : Dma) := d.getActive (·.size2)
def setSrcStep0 (d : Dma) (v : U16) := d.setActive ({ · with srcStep0 := v })
def getSrcStep0 (d : Dma) := d.getActive (·.srcStep0)
def setDstStep0 (d : Dma) (v : U16) := d.setActive ({ · with dstStep0 := v })
def getDstStep0 (d : Dma) := d.getActive (·.dstStep0)
def setSrcStep1 (d : Dma) (v : U16) := d.setActive ({ · with srcStep1 := v })
def getSrcStep1 (d : Dma) := d.getActive (·.srcStep1)
def setDstStep1 (d : Dma) (v : U16) := d.setActive ({ · with dstStep1 := v })
def getDstStep1 (d : Dma) := d.getActive (·.dstStep1)
def setSrcStep2 (d : Dma) (v : U16) := d.setActive ({ · with srcStep2 := v })
def getSrcStep2 (d : Dma) := d.getActive (·.srcStep2)
def setDstStep2 (d : Dma) (v : U16) := d.setActive ({ · with dstStep2 := v })
def getDstStep2 (d : Dma) := d.getActive (·.dstStep2)
def setSrcSpace (d : Dma) (v : U16) := d.setActive ({ · with srcSpace := v })
def getSrcSpace (d : Dma) := d.getActive (·.srcSpace)
def setDstSpace (d : Dma) (v : U16) := d.setActive ({ · with dstSpace := v })
def getDstSpace (d : Dma) := d.getActive (·.dstSpace)
def setDwordMode (d : Dma) (v : U16) := d.setActive ({ · with dwordMode := v })
def getDwordMode (d : Dma) := d.getActive (·.dwordMode)
def setY (d : Dma) (v : U16) := d.setActive ({ · with y := v })
def getY (d : Dma) := d.getActive (·.y)
def getZ (d : Dma) := d.getActive (·.z)

section
variable {M E : Type} [DspMem M] [ExtMem E]

/-- `Dma::DoDma(channel)` with an explicit tick budget; the `Nat` is the number of
`interrupt_handler()` invocations (the single call after the loop). -/
def doDmaFuel (fuel : Nat) (d : Dma) (w : World M E) (channel : U16) : R (Dma × World M E × Nat) :=
  if h : channel.toNat < 8 then
    let c := d.channels[channel.toNat].start
    let c := { c with ahbmChannel := w.ahbm.getChannelForDma channel.toNat }
    match c.run fuel w with
    | .ok (c', w') => .ok ({ d with channels := d.channels.set channel.toNat c' }, w', 1)
    | .error e => .error e
  else .error .oob

/-- `Dma::DoDma(channel)`; the fuel is the proved tick bound of the started channel. -/
def doDma (d : Dma) (w : World M E) (channel : U16) : R (Dma × World M E × Nat) :=
  if h : channel.toNat < 8 then doDmaFuel (d.channels[channel.toNat].ticksBound) d w channel
  else .error .oob

/-- `Dma::SetZ`: stores `z`, and the magic value 0x40C0 starts the active channel. -/
def setZ (d : Dma) (w : World M E) (v : U16) : R (Dma × World M E × Nat) :=
  match d.setActive ({ · with z := v }) with
  | .ok d' => if v = 0x40C0 then doDma d' w d'.activeChannel else .ok (d', w, 0)
  | .error e => .error e

end
end Dma
end Teakra
