import TeakraModel.Basic
/-!
# Model of `src/icu.h` (interrupt controller)

`std::bitset<16>` members are `U16` bit sets (`bits[irq]` is `getLsbD irq`); the three
`std::array<u16, 16>` vector tables are `Vector U16 16`.  The two callbacks
(`on_interrupt(u32)`, `on_vectored_interrupt(u32, bool)`) become the returned list of
`IcuEvent`s in exactly the order of the C++ loops.  The callbacks are invoked without a null
check; the model assumes both are installed (`Teakra::Impl` installs them in its constructor,
the harness installs loggers).

`SetEnable`, `GetEnable` index `std::array<IrqBits, 3>` and `GetVector` indexes the 16-entry
tables with an unchecked `u32`: the model functions take `Fin 3` / `Fin 16`, the `…N` wrappers
take the raw number and answer `Abort.oob` instead of indexing out of bounds.
`TriggerSingle(irq)` evaluates `1 << irq` on an `int` and narrows to `u16`; it is defined for
`irq < 32` and triggers nothing for `16 ≤ irq < 32`.

The constructor leaves `vector_low`, `vector_high`, `vector_context_switch` uninitialised
(the bitsets are zeroed by `std::bitset`'s constructor); the defaults below are only the values
the driver's `set` op overwrites.  The mutex is not modelled (one call at a time).
-/
namespace Teakra

inductive IcuEvent where
  /-- `on_interrupt(interrupt)` -/
  | interrupt (line : Fin 3)
  /-- `on_vectored_interrupt(address, context_switch)` -/
  | vectored (address : U32) (contextSwitch : Bool)
  deriving DecidableEq, Repr, Inhabited

structure Icu where
  request             : U16 := 0
  enabled             : Vector U16 3 := Vector.replicate 3 0
  vectoredEnabled     : U16 := 0
  vectorLow           : Vector U16 16 := Vector.replicate 16 0
  vectorHigh          : Vector U16 16 := Vector.replicate 16 0
  vectorContextSwitch : Vector U16 16 := Vector.replicate 16 0
  deriving DecidableEq, Repr, Inhabited

namespace Icu

/-- `ICU::GetRequest` -/
def getRequest (s : Icu) : U16 := s.request

/-- `ICU::Acknowledge`: `request &= ~IrqBits(irq_bits)` -/
def acknowledge (s : Icu) (irqBits : U16) : Icu := { s with request := s.request &&& ~~~irqBits }

/-- `ICU::GetAcknowledge` -/
def getAcknowledge (_ : Icu) : U16 := 0

/-- `ICU::GetVector`: `vector_low[irq] | ((u32)vector_high[irq] << 16)` -/
def getVector (s : Icu) (irq : Fin 16) : U32 :=
  s.vectorLow[irq].setWidth 32 ||| (s.vectorHigh[irq].setWidth 32 <<< 16)

/-- The callbacks made for one triggered request line `irq`: the inner `for (interrupt …)` loop
over the three interrupt lines, then the vectored callback. -/
def irqEvents (s : Icu) (irq : Fin 16) : List IcuEvent :=
  ((List.finRange 3).filter fun (line : Fin 3) => s.enabled[line].getLsbD irq).map IcuEvent.interrupt ++
  (if s.vectoredEnabled.getLsbD irq then
     [IcuEvent.vectored (s.getVector irq) (s.vectorContextSwitch[irq] != 0)]
   else [])

/-- `ICU::Trigger`: `request |= bits`, then the outer `for (irq = 0; irq < 16; ++irq)` loop. -/
def trigger (s : Icu) (irqBits : U16) : Icu × List IcuEvent :=
  ({ s with request := s.request ||| irqBits },
   ((List.finRange 16).filter fun (irq : Fin 16) => irqBits.getLsbD irq).flatMap s.irqEvents)

/-- `ICU::GetTrigger` -/
def getTrigger (_ : Icu) : U16 := 0

/-- `(u16)(1 << irq)` -/
def singleBit (irq : Nat) : U16 := BitVec.ofNat 16 (1 <<< irq)

/-- `ICU::TriggerSingle` for a shift count that is defined (`irq < 32`). -/
def triggerSingle (s : Icu) (irq : Nat) : R (Icu × List IcuEvent) :=
  if irq < 32 then .ok (s.trigger (singleBit irq)) else .error .oob

/-- `ICU::SetEnable` -/
def setEnable (s : Icu) (interruptIndex : Fin 3) (irqBits : U16) : Icu :=
  { s with enabled := s.enabled.set interruptIndex irqBits }

/-- `ICU::SetEnableVectored` -/
def setEnableVectored (s : Icu) (irqBits : U16) : Icu := { s with vectoredEnabled := irqBits }

/-- `ICU::GetEnable` -/
def getEnable (s : Icu) (interruptIndex : Fin 3) : U16 := s.enabled[interruptIndex]

/-- `ICU::GetEnableVectored` -/
def getEnableVectored (s : Icu) : U16 := s.vectoredEnabled

/-! ### raw-index wrappers -/

def setEnableN (s : Icu) (interruptIndex : Nat) (irqBits : U16) : R Icu :=
  if h : interruptIndex < 3 then .ok (s.setEnable ⟨interruptIndex, h⟩ irqBits) else .error .oob

def getEnableN (s : Icu) (interruptIndex : Nat) : R U16 :=
  if h : interruptIndex < 3 then .ok (s.getEnable ⟨interruptIndex, h⟩) else .error .oob

def getVectorN (s : Icu) (irq : Nat) : R U32 :=
  if h : irq < 16 then .ok (s.getVector ⟨irq, h⟩) else .error .oob

end Icu
end Teakra
