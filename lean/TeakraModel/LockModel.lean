import TeakraModel.LockTypes
/-!
# Thread model and executable analyses over the translated lock table (property C19)

Hand-written.  The *table* (`Generated/LockTable.lean`) says, per method of `DataChannel`, `Apbp`,
`ICU`, `Interpreter`, which members it touches under which `std::lock_guard`s, which callbacks it
invokes under which locks, which host API method / MMIO cell reaches which `object.method`, and how
`Teakra::Impl` wires the callbacks.  *This* file says which thread may execute what, unfolds the call
graph from each thread's entry points into object-level accesses and lock acquisitions, and defines
the two decision procedures the C19 theorems are about: `findRaces` and the lock-order check.

## Which thread executes which method (the documented assumption)

* **host thread** = the mailbox/semaphore part of the host API of `teakra.cpp` (`hostApi`):
  `SendDataIsEmpty`, `SendData`, `RecvDataIsReady`, `RecvData`, `PeekRecvData`, `SetSemaphore`,
  `GetSemaphore`, `ClearSemaphore`, `MaskSemaphore`.
* **DSP thread** = everything reachable from `Teakra::Run`: the latch block and the later uses of the
  latches inside `Interpreter::Run`, every MMIO cell accessor of `mmio.cpp` that reaches `apbp_from_cpu`,
  `apbp_from_dsp` or `icu` (`origin = "mmio"`, including the cells bound directly to ICU members through
  `RefCell`/`RefSlot`), and the peripherals' interrupt callbacks, which run inside `core_timing.Tick()`.
* **init phase** (`initApi`): `Teakra::Reset`, `SetRecvDataHandler`, `SetSemaphoreHandler`,
  `GetRegisterState` (and the constructor's wiring).  These are *not* executed by any thread while a DSP
  thread runs: "install callbacks, then run".  Consequently the `initOnly` members (`handler`,
  `semaphore_handler`, `on_interrupt`, `on_vectored_interrupt`) are only ever read while running.
* A callback member without a constructor wire that the host API can install (`apbp_from_dsp`'s data
  and semaphore handlers) is **host code**: it runs on the thread that invokes it, under the locks held
  at the call site, and may call any `hostApi` method ("host callbacks may call back into the mailbox
  API").

The three `DataChannel`s of one `Apbp` are folded into one abstract channel object: two accesses to
different channels never conflict and use different mutexes, two accesses to the same channel use the
same mutex, so for race detection the fold is exact; for lock ordering it is conservative (holding
one channel mutex while taking another one's would be reported as a self-cycle).
-/
namespace Teakra.Lock

/-- An object-level name: `(object of Teakra::Impl, "Class.member")`. -/
abbrev Inst := Name × Name

/-! Comparisons are spelled with `Nat.beq` (which the kernel evaluates natively on literals) rather than
`==` (which goes through `Nat.decEq` and costs the kernel twice as much); the lemmas `ieq_iff`, `hasName_iff`,
`hasInst_iff` in `Proofs/C19Lock.lean` turn them back into `=` and `∈`. -/

/-- `a = b` on object-level names. -/
def ieq (a b : Inst) : Bool := Nat.beq a.2 b.2 && Nat.beq a.1 b.1

/-- `x ∈ xs` -/
def hasName (xs : List Name) (x : Name) : Bool := xs.any (Nat.beq x)

/-- `x ∈ xs` -/
def hasInst (xs : List Inst) (x : Inst) : Bool := xs.any (ieq x)

/-- `xs = ys` on lock sets (as lists) -/
def heldEq : List Inst → List Inst → Bool
  | [], [] => true
  | x :: xs, y :: ys => ieq x y && heldEq xs ys
  | _, _ => false

/-- The mailbox/semaphore host API (may be called from another thread while `Run` executes). -/
def hostApi : List Name :=
  [n% "Teakra::SendDataIsEmpty", n% "Teakra::SendData", n% "Teakra::RecvDataIsReady", n% "Teakra::RecvData",
   n% "Teakra::PeekRecvData", n% "Teakra::SetSemaphore", n% "Teakra::GetSemaphore", n% "Teakra::ClearSemaphore",
   n% "Teakra::MaskSemaphore"]

/-- Host API that is only used while no DSP thread runs. -/
def initApi : List Name :=
  [n% "Teakra::Reset", n% "Teakra::SetRecvDataHandler", n% "Teakra::SetSemaphoreHandler", n% "Teakra::GetRegisterState"]

/-- The root of the DSP thread. -/
def dspRoot : Name := n% "Teakra::Run"

/-- Members written only before `Run` starts. -/
def initOnly : List Name :=
  [n% "DataChannel.handler", n% "Apbp.semaphore_handler", n% "ICU.on_interrupt", n% "ICU.on_vectored_interrupt"]

/-- The two threads. -/
def hostThread : Name := n% "host"
def dspThread : Name := n% "dsp"

/-- One activation of a method on an object during the unfolding of a thread's call graph. -/
structure Visit where
  thread : Name
  /-- the entry point this activation descends from -/
  entry : Name
  obj : Name
  /-- `"Class.Method"`; for an unresolved callback, the callback member -/
  method : Name
  /-- locks held on entry (object level, no duplicates) -/
  held : List Inst
  /-- the activation stands for a callback that is neither wired nor installable by the host -/
  unresolved : Bool := false
  deriving DecidableEq, Repr, Inhabited

/-- An object-level access by a thread. -/
structure IAccess where
  thread : Name
  entry : Name
  /-- the method containing the access, as `(object, "Class.Method")`; `("mmio", cell)` for a direct one -/
  site : Inst
  field : Inst
  write : Bool
  locks : List Inst
  atomic : Bool
  deriving DecidableEq, Repr, Inhabited

/-- An object-level lock acquisition: `lock` is taken while `held` are held. -/
structure IAcquire where
  thread : Name
  entry : Name
  site : Inst
  lock : Inst
  held : List Inst
  deriving DecidableEq, Repr, Inhabited

def addLocks (held : List Inst) (obj : Name) (ls : List Name) : List Inst :=
  ls.foldl (fun h l => if hasInst h (obj, l) then h else h ++ [(obj, l)]) held

/-- Who installs `field` of `obj`: some host API method (of any phase) reaches a method of `obj` that
writes the member. -/
def hostInstallable (t : LockTable) (obj field : Name) : Bool :=
  t.entries.any fun e => Nat.beq e.origin (n% "teakra") && Nat.beq e.obj obj &&
    t.accesses.any fun a => a.write && Nat.beq a.field field && Nat.beq a.method e.method

/-- The host-API entry points a host callback may re-enter. -/
def hostEntries (t : LockTable) : List Entry :=
  t.entries.filter fun e => Nat.beq e.origin (n% "teakra") && hasName hostApi e.name

/-- The activations directly started by `v`. -/
def successors (t : LockTable) (v : Visit) : List Visit :=
  if v.unresolved then [] else
  (t.calls.filter fun c => Nat.beq c.method v.method).flatMap fun c =>
    let held := addLocks v.held v.obj c.locks
    if Nat.beq c.kind (n% "method") then [{ v with method := c.target, held := held }]
    else
      let ws := t.wiring.filter fun w => Nat.beq w.field c.target && Nat.beq w.obj v.obj
      if !ws.isEmpty then ws.map fun w => { v with obj := w.targetObj, method := w.targetMethod, held := held }
      else if hostInstallable t v.obj c.target then
        (hostEntries t).map fun e => { v with obj := e.obj, method := e.method, held := held }
      else [{ v with method := c.target, held := held, unresolved := true }]

def sameState (a b : Visit) : Bool :=
  Nat.beq a.method b.method && Nat.beq a.obj b.obj && Nat.beq a.thread b.thread && heldEq a.held b.held

/-- Work-list unfolding; a state `(thread, object, method, held)` is expanded once (the entry recorded is
that of its first discovery).  Returns the visited activations and whether the fuel sufficed. -/
def explore (t : LockTable) : Nat → List Visit → List Visit → List Visit × Bool
  | 0, work, done => (done, work.isEmpty)
  | _ + 1, [], done => (done, true)
  | n + 1, v :: work, done =>
    if done.any (sameState v) then explore t n work done
    else explore t n (successors t v ++ work) (done ++ [v])

def threadOf (e : Entry) : Option Name :=
  if Nat.beq e.origin (n% "teakra") then
    if hasName hostApi e.name then some hostThread else if Nat.beq e.name dspRoot then some dspThread else none
  else if Nat.beq e.origin (n% "mmio") || Nat.beq e.origin (n% "peripheral") then some dspThread else none

/-- The entry activations of both threads. -/
def roots (t : LockTable) : List Visit :=
  t.entries.filterMap fun e => (threadOf e).map fun th => ⟨th, e.name, e.obj, e.method, [], false⟩

def exploreFuel : Nat := 4000

def visits (t : LockTable) : List Visit := (explore t exploreFuel (roots t) []).1

/-- The unfolding terminated within the fuel and every callback resolved to a wire or to host code. -/
def closed (t : LockTable) : Bool :=
  (explore t exploreFuel (roots t) []).2 && (visits t).all fun v => !v.unresolved

/-- Object-level accesses of both threads: those of every visited activation, plus the DSP thread's direct
MMIO accessors (one unlocked read and one unlocked write each). -/
def iaccesses (t : LockTable) : List IAccess :=
  ((visits t).flatMap fun v =>
    (t.accesses.filter fun a => Nat.beq a.method v.method).map fun a =>
      { thread := v.thread, entry := v.entry, site := (v.obj, v.method), field := (v.obj, a.field), write := a.write,
        locks := addLocks v.held v.obj a.locks, atomic := a.atomic }) ++
  t.direct.flatMap fun d =>
    [{ thread := dspThread, entry := d.cell, site := (n% "mmio get", d.cell), field := (d.obj, d.field),
       write := false, locks := [], atomic := false },
     { thread := dspThread, entry := d.cell, site := (n% "mmio set", d.cell), field := (d.obj, d.field),
       write := true, locks := [], atomic := false }]

/-- Object-level lock acquisitions of both threads. -/
def iacquires (t : LockTable) : List IAcquire :=
  (visits t).flatMap fun v =>
    (t.acquires.filter fun q => Nat.beq q.method v.method).map fun q =>
      { thread := v.thread, entry := v.entry, site := (v.obj, v.method), lock := (v.obj, q.lock),
        held := addLocks v.held v.obj q.held }

/-! ## data races -/

/-- Two accesses conflict: same object member, different threads, at least one write, not both atomic
operations, and no lock held by both. -/
def conflict (a b : IAccess) : Bool :=
  ieq a.field b.field && !(Nat.beq a.thread b.thread) && (a.write || b.write) && !(a.atomic && b.atomic) &&
  a.locks.all fun l => !hasInst b.locks l

/-- All conflicting pairs `(host access, access of another thread)` on members outside `excluded`. -/
def findRacesIn (accs : List IAccess) (excluded : List Name) : List (IAccess × IAccess) :=
  (accs.filter fun a => Nat.beq a.thread hostThread && !hasName excluded a.field.2).flatMap fun a =>
    ((accs.filter fun b => !(Nat.beq b.thread hostThread)).filter fun b => conflict a b).map fun b => (a, b)

def findRaces (t : LockTable) (excluded : List Name) : List (IAccess × IAccess) :=
  findRacesIn (iaccesses t) excluded

/-- The first race, if any. -/
def findRace (t : LockTable) : Option (IAccess × IAccess) := (findRaces t []).head?

/-- The members (class level) on which some race exists. -/
def racyFields (t : LockTable) : List Name :=
  (findRaces t []).foldl (fun acc p => if hasName acc p.1.field.2 then acc else acc ++ [p.1.field.2]) []

/-! ## lock order -/

def isRecursive (t : LockTable) (l : Inst) : Bool :=
  t.fields.any fun f => Nat.beq f.name l.2 && Nat.beq f.kind (n% "recursive_mutex")

/-- Lock-order edges `held → acquired`.  Re-acquiring a recursive mutex the thread already holds is not an
edge; re-acquiring a plain `std::mutex` is a self-edge (a self-deadlock). -/
def lockEdges (t : LockTable) : List (Inst × Inst) :=
  ((iacquires t).flatMap fun q =>
    (q.held.filter fun h => !(ieq h q.lock && isRecursive t h)).map fun h => (h, q.lock)).foldl
      (fun acc e => if acc.any (fun e' => ieq e.1 e'.1 && ieq e.2 e'.2) then acc else acc ++ [e]) []

def lockNodes (t : LockTable) : List Inst :=
  ((iacquires t).flatMap fun q => q.lock :: q.held).foldl (fun acc l => if hasInst acc l then acc else acc ++ [l]) []

/-- Kahn's algorithm: repeatedly output the nodes without an incoming edge from the remaining ones.
(Only a candidate order; `edgesForward` is what is checked.) -/
def topo (edges : List (Inst × Inst)) : Nat → List Inst → List Inst
  | 0, rest => rest
  | n + 1, rest =>
    let free := rest.filter fun x => !edges.any fun e => ieq e.2 x && hasInst rest e.1
    if free.isEmpty then rest else free ++ topo edges n (rest.filter fun x => !hasInst free x)

def lockOrder (t : LockTable) : List Inst := topo (lockEdges t) (lockNodes t).length (lockNodes t)

/-- Every edge goes strictly forward in `order`. -/
def edgesForward (order : List Inst) (edges : List (Inst × Inst)) : Bool :=
  edges.all fun e => order.contains e.1 && order.contains e.2 && order.idxOf e.1 < order.idxOf e.2

/-- An edge that does not go forward in the candidate order (a witness of a cycle when the check fails). -/
def backEdges (t : LockTable) : List (Inst × Inst) :=
  (lockEdges t).filter fun e => !(edgesForward (lockOrder t) [e])

/-- The acquisitions that produce a given edge (for reporting). -/
def edgeWitnesses (t : LockTable) (e : Inst × Inst) : List IAcquire :=
  (iacquires t).filter fun q => ieq q.lock e.2 && hasInst q.held e.1

/-! ## classification checks -/

/-- Every `Teakra::…` method that reaches a tracked object is classified (mailbox API, init phase, or `Run`). -/
def entriesClassified (t : LockTable) : Bool :=
  t.entries.all fun e => !(Nat.beq e.origin (n% "teakra")) || hasName hostApi e.name || hasName initApi e.name || Nat.beq e.name dspRoot

/-- No thread writes an `initOnly` member. -/
def initOnlyUnwritten (t : LockTable) : Bool :=
  (iaccesses t).all fun a => !(a.write && hasName initOnly a.field.2)

end Teakra.Lock
