/-!
# Shape of the facade table translated from `src/teakra.cpp` (`tools/translate_facade.py`)
-/
namespace Teakra

/-- Data members of `struct Teakra::Impl`. -/
inductive FMember where
  | coreTiming | sharedMemory | miu | icu | apbpFromCpu | apbpFromDsp | timer | ahbm | dma | btdmp | mmio
  | memoryInterface | processor
  /-- a member the translator does not know (hash of its name) -/
  | other (id : Nat)
  deriving DecidableEq, Repr

/-- Where the constructor of `Teakra::Impl` registers an interrupt-raising handler. -/
inductive HSite where
  | timer (i : Nat)        -- `timer[i].SetInterruptHandler`
  | apbpData (ch : Nat)    -- `apbp_from_cpu.SetDataHandler(ch, …)`
  | apbpSem                -- `apbp_from_cpu.SetSemaphoreHandler`
  | btdmp (i : Nat)        -- `btdmp[i].SetInterruptHandler`
  | dma                    -- `dma.SetInterruptHandler`
  | other (id : Nat)
  deriving DecidableEq, Repr

/-- What a statement of `Teakra::Impl::Reset` resets. -/
inductive RTarget where
  | memory                 -- `std::memset(shared_memory.raw, 0, DspMemorySize)`
  | miu | icu | mmio | apbpFromCpu | apbpFromDsp
  | timer (i : Nat)
  | ahbm | dma
  | btdmp (i : Nat)
  | processor
  | other (id : Nat)
  deriving DecidableEq, Repr

/-- A plain forwarder of the C binding (`src/teakra_c.cpp`); identifiers and types are hashed texts. -/
structure CFwd where
  cname : Nat
  method : Nat
  ptypes : List Nat
  pnames : List Nat
  args : List Nat
  deriving DecidableEq, Repr

end Teakra
