import TeakraModel.Basic
/-!
# The C binding of the disassembler (`src/disassembler_c.cpp`, `Teakra_Disasm_Do`)

```
std::string r = Teakra::Disassembler::Do(opcode, expansion);
if (dst) {
    size_t i = 0;
    for (; i < (dstlen-1) && i < r.length(); ++i) dst[i] = r[i];
    dst[dstlen-1] = '\0';
}
return r.length();
```

Pure model over the bytes around `dst`.  `cDo` is the code as it is in the tree today (`size_t`
arithmetic: `dstlen-1` is `2^64-1` for `dstlen = 0`, and `dst[dstlen-1]` is then the byte *below* `dst`);
`cDoFixed` is the intended behaviour (`snprintf`-like: at most `dstlen` bytes, NUL directly after the
copied text):

```
if (dst && dstlen) {
    size_t i = 0;
    for (; i < dstlen-1 && i < r.length(); ++i) dst[i] = r[i];
    dst[i] = '\0';
}
```
The text `r` is an argument: `Disassembler::Do` is not modelled here.
-/
namespace Teakra.CDo

/-- The memory around `dst`. -/
structure Mem where
  /-- bytes below `dst`, nearest first: `pre[0]` is `dst[-1]` -/
  pre : List UInt8
  /-- bytes from `dst` upwards: first the caller's `dstlen` bytes, then whatever follows them
  (canary bytes in the harness) -/
  buf : List UInt8
  /-- a store fell outside `pre`/`buf`: the model cannot say what it overwrote -/
  oob : Bool := false
  deriving DecidableEq, Repr, Inhabited

/-- `dst[i] = v` for `i ≥ 0`. -/
def Mem.store (m : Mem) (i : Nat) (v : UInt8) : Mem :=
  if i < m.buf.length then { m with buf := m.buf.set i v } else { m with oob := true }

/-- `dst[-(j+1)] = v`. -/
def Mem.storeBelow (m : Mem) (j : Nat) (v : UInt8) : Mem :=
  if j < m.pre.length then { m with pre := m.pre.set j v } else { m with oob := true }

/-- `for (; i < lim && i < r.length(); ++i) dst[i] = r[i];` — `rest` is `r` from index `i` on.
Returns the final `i`. -/
def copyLoop (lim : Nat) : List UInt8 → Nat → Mem → Nat × Mem
  | [], i, m => (i, m)
  | c :: cs, i, m => if i < lim then copyLoop lim cs (i + 1) (m.store i c) else (i, m)

/-- `size_t` subtraction `dstlen - 1`. -/
def sizeSubOne (dstlen : Nat) : Nat := (dstlen + (2 ^ 64 - 1)) % 2 ^ 64

/-- `Teakra_Disasm_Do` as the code is now.  `dstNull` is `dst == NULL`.  Returns `r.length()`. -/
def cDo (m : Mem) (dstNull : Bool) (dstlen : Nat) (text : List UInt8) : Nat × Mem :=
  if dstNull then (text.length, m)
  else
    let m1 := (copyLoop (sizeSubOne dstlen) text 0 m).2
    -- `dst[dstlen-1] = '\0'`: for `dstlen = 0` the address `dst + (2^64-1)` is `dst - 1`
    let m2 := if dstlen = 0 then m1.storeBelow 0 0 else m1.store (dstlen - 1) 0
    (text.length, m2)

/-- The intended `Teakra_Disasm_Do` (see the patch in the module comment). -/
def cDoFixed (m : Mem) (dstNull : Bool) (dstlen : Nat) (text : List UInt8) : Nat × Mem :=
  if dstNull || dstlen == 0 then (text.length, m)
  else
    let (i, m1) := copyLoop (dstlen - 1) text 0 m
    (text.length, m1.store i 0)

end Teakra.CDo
