import TeakraModel.Basic
/-!
# The control structure of `Interpreter::Run(cycles)`

```
idle = false;
for (u64 i = 0; i < cycles; ++i) {
    if (idle) {
        u64 skipped = core_timing.Skip(cycles - i - 1);   // min(maximum, peripherals' horizons), then Skip on each
        i += skipped;
        if (i < cycles - 1) { ++i; core_timing.Tick(); }
    }
    <body: latch, fetch, repeat/loop bookkeeping, execute, interrupt check>
    core_timing.Tick();
}
```
abstracted over the state type.  `skipAllowed` is the condition under which the fast-forward is
taken (`idle` in the upstream code; `idle` and no interrupt latch pending after the `fix:` commit).
-/
namespace Teakra

structure LoopOps (ε S : Type) where
  /-- `idle = false` at the start of `Run` -/
  start : S → S
  /-- whether the fast-forward branch is taken at the top of an iteration -/
  skipAllowed : S → Bool
  /-- the loop body without the final `Tick` -/
  body : S → Except ε S
  /-- `core_timing.Tick()` -/
  tick : S → Except ε S
  /-- `core_timing.Skip(maximum)`: new state and the number of cycles skipped -/
  skip : S → Nat → Except ε (S × Nat)

namespace LoopOps
variable {ε S : Type} (o : LoopOps ε S)

/-- The `for` loop from index `i` (`fuel` bounds the number of iterations; `cycles - i` suffices). -/
def go (cycles : Nat) : Nat → Nat → S → Except ε S
  | 0, _, s => .ok s
  | fuel + 1, i, s =>
    if i < cycles then do
      let (s, i) ← if o.skipAllowed s then do
          let (s, skipped) ← o.skip s (cycles - i - 1)
          let i := i + skipped
          if i < cycles - 1 then do
            let s ← o.tick s
            pure (s, i + 1)
          else pure (s, i)
        else pure (s, i)
      let s ← o.body s
      let s ← o.tick s
      go cycles fuel (i + 1) s
    else .ok s

/-- `Interpreter::Run(cycles)` -/
def run (cycles : Nat) (s : S) : Except ε S := o.go cycles cycles 0 (o.start s)

/-- `n` single cycles: body then tick, no fast-forward. -/
def cyclesN : Nat → S → Except ε S
  | 0, s => .ok s
  | n + 1, s => do
    let s ← o.body s
    let s ← o.tick s
    cyclesN n s

/-- `n` ticks. -/
def ticksN : Nat → S → Except ε S
  | 0, s => .ok s
  | n + 1, s => do
    let s ← o.tick s
    ticksN n s

end LoopOps
end Teakra
