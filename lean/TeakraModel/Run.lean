import TeakraModel.Interp
import TeakraModel.InstrTypes
import TeakraModel.Generated.InstrTable
import TeakraModel.Generated.Dispatch
/-!
# `Interpreter::Run` — one iteration of the fetch / repeat / loop / execute / interrupt loop

`cycle` is the loop body without the idle fast-forward and without `core_timing.Tick()` (the
system model adds both).
-/
namespace Teakra
open Exec Interp

/-- `Decode<Interpreter>(opcode)`: first matching pattern (uniqueness is `Proofs/C02`). -/
def decodeInstr (w : Nat) : Option InstrPat := instrTable.find? (·.matchesWord w)

/-- Pre-computed decoder array, like `Interpreter::decoders`. -/
def decoderArray : Array (Option InstrPat) := (Array.range 0x10000).map decodeInstr

/-- `(regs.pc++) | (regs.prpage << 18)` -/
def fetchAddr : Exec U32 := do
  let r ← getRegs
  modifyRegs fun r => { r with pc := r.pc + 1 }
  return r.pc ||| ((r.prpage.setWidth 32 : U32) <<< 18)

/-- The interrupt block at the end of the loop body. -/
def interruptCheck : Exec Unit := do
  let r ← getRegs
  if r.ie != 0 && !r.rep then
    let rec scan (i : Nat) (fuel : Nat) : Exec Bool := do
      match fuel with
      | 0 => return false
      | fuel + 1 =>
        let r ← getRegs
        if r.im.toArray.getD i 0 != 0 && r.ip.toArray.getD i 0 != 0 then
          modifyRegs fun r => { r with ip := vset r.ip i 0, ie := 0 }
          pushPC
          modifyRegs fun r => { r with pc := BitVec.ofNat 32 (0x0006 + i * 8) }
          modify fun c => { c with idle := false }
          if (← getRegs).ic.toArray.getD i 0 != 0 then contextStore
          return true
        else scan (i + 1) fuel
    let handled ← scan 0 3
    let r ← getRegs
    if !handled && r.imv != 0 && r.ipv != 0 then
      modifyRegs fun r => { r with ipv := 0, ie := 0 }
      pushPC
      let c ← get
      modifyRegs fun r => { r with pc := c.vaddr }
      modify fun c => { c with idle := false }
      if c.vctx then contextStore

/-- One iteration of the `Run` loop body (latch, fetch, repeat/loop bookkeeping, execute,
interrupt check). -/
def cycle : Exec Unit := do
  -- latch cross-thread interrupt requests
  let c ← get
  for i in [0:3] do
    if c.ipend.toArray.getD i false then
      modifyRegs fun r => { r with ip := vset r.ip i 1 }
  modify fun c => { c with ipend := Vector.replicate 3 false }
  if c.vpend then
    modifyRegs fun r => { r with ipv := 1 }
    modify fun c => { c with vpend := false }
  -- fetch
  let opcode ← programRead (← fetchAddr)
  let dec := decoderArray.getD opcode.toNat none
  let expanded := match dec with | some p => p.expanded | none => false
  let expansion ← if expanded then programRead (← fetchAddr) else pure 0
  -- single-instruction repeat
  let r ← getRegs
  if r.rep then
    if r.repc == 0 then modifyRegs fun r => { r with rep := false }
    else modifyRegs fun r => { r with repc := r.repc - 1, pc := r.pc - 1 }
  -- block repeat
  let r ← getRegs
  if r.lp != 0 then
    let i := r.bcn.toNat - 1
    if r.bcn == 0 || i ≥ 4 then abort .oob   -- `bkrep_stack[bcn - 1]` outside the array
    let f := r.bkrep.toArray.getD i {}
    if f.end_ + 1 == r.pc then
      if f.lc == 0 then
        modifyRegs fun r => { r with bcn := r.bcn - 1, lp := Alu.b2u (r.bcn - 1 != 0) }
      else
        modifyRegs fun r =>
          { r with bkrep := (if h : i < 4 then r.bkrep.set i { f with lc := f.lc - 1 } else r.bkrep),
                   pc := f.start }
  -- execute
  match dec with
  | none => unreachable            -- `undefined(opcode)`
  | some p => dispatch p.idx (p.extract opcode.toNat expansion.toNat)
  interruptCheck

/-- `core_timing.Tick()` at the end of a loop iteration: every peripheral advances one cycle;
interrupts they raise reach the core latches. -/
def tickAll : Exec Unit := do
  let c ← get
  match c.bus.tick with
  | .ok (bus, evs) => set (({ c with bus := bus } : Core).emit evs)
  | .error e => abort e

/-- One full iteration of the `Run` loop without fast-forward: body, then `Tick`. -/
def cycleTick : Exec Unit := do
  cycle
  tickAll

end Teakra
