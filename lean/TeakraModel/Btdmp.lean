import TeakraModel.Basic
/-!
# Model of `src/btdmp.cpp` / `src/btdmp.h` (audio port, transmit side)

Field for field and branch for branch.  `transmit_queue` (`std::queue<u16>`) is a `List U16`,
oldest word first (`front()` = head, `push` = append at the end).

Callbacks become returned events: `Tick` and `Skip` return the list of stereo frames handed to
`audio_callback` (each frame a pair of raw 16-bit patterns, i.e. `(u16)sample[i]`; the C++
`static_cast<s16>` does not change the bits) in emission order, and the number of
`interrupt_handler()` calls.  The model assumes both callbacks are installed (the harness and
`Teakra::Impl` always install them; with an empty `audio_callback` the C++ silently drops the
frame, with an empty `interrupt_handler` it throws `std::bad_function_call`).

`Skip` contains one `ASSERT` inside its loop; it is split into the decidable guard `skipOk`, the
total `skipCore` and the guarded `skip : … → R …`.  `Skip` also divides by `transmit_period`:
with `transmit_enable ≠ 0 ∧ transmit_period = 0` the C++ has *undefined behaviour* (integer
division by zero), which is none of the abort classes.  `skipDefined` is the explicit guard for
that; `skip` answers `.error .oob` ("outside the defined domain") there and the harness never
calls the real `Skip` on such a state.
-/
namespace Teakra

/-- One stereo frame as handed to the audio callback: `(sample[0], sample[1])`, raw bit patterns. -/
abbrev Frame := U16 × U16

structure Btdmp where
  clockConfig : U16 := 0       -- transmit_clock_config
  period      : U16 := 4096    -- transmit_period
  timer       : U16 := 0       -- transmit_timer
  enable      : U16 := 0       -- transmit_enable
  empty       : Bool := true   -- transmit_empty
  full        : Bool := false  -- transmit_full
  queue       : List U16 := [] -- transmit_queue, oldest first
  deriving DecidableEq, Repr, Inhabited

namespace Btdmp

/-- `Btdmp::Reset` -/
def reset (_ : Btdmp) : Btdmp := {}

def setTransmitClockConfig (b : Btdmp) (v : U16) : Btdmp := { b with clockConfig := v }
def getTransmitClockConfig (b : Btdmp) : U16 := b.clockConfig
def setTransmitPeriod (b : Btdmp) (v : U16) : Btdmp := { b with period := v }
def getTransmitPeriod (b : Btdmp) : U16 := b.period
def setTransmitEnable (b : Btdmp) (v : U16) : Btdmp := { b with enable := v }
def getTransmitEnable (b : Btdmp) : U16 := b.enable
/-- `u16 GetTransmitEmpty() const { return transmit_empty; }` (bool → 0 / 1) -/
def getTransmitEmpty (b : Btdmp) : U16 := if b.empty then 1 else 0
def getTransmitFull (b : Btdmp) : U16 := if b.full then 1 else 0
def getTransmitFlush (_ : Btdmp) : U16 := 0

/-- `Btdmp::Send`: a write to a queue holding exactly 16 words is dropped (the C++ only prints). -/
def send (b : Btdmp) (v : U16) : Btdmp :=
  if b.queue.length = 16 then b
  else
    let q := b.queue ++ [v]
    { b with queue := q, empty := false, full := decide (q.length = 16) }

/-- `Btdmp::SetTransmitFlush` (the written value is ignored). -/
def setTransmitFlush (b : Btdmp) (_ : U16) : Btdmp :=
  { b with queue := [], empty := true, full := false }

/-- One iteration of the `for (int i = 0; i < 2; ++i)` loop of `Tick`:
new state, `sample[i]`, number of `interrupt_handler()` calls (0 or 1). -/
def tickSlot (b : Btdmp) : Btdmp × U16 × Nat :=
  match b.queue with
  | [] => (b, 0, 0)                    -- underrun: sample[i] = 0
  | w :: q =>
    ({ b with queue := q, empty := q.isEmpty, full := false }, w, if q.isEmpty then 1 else 0)

/-- The body of `if (transmit_timer >= transmit_period)` after `transmit_timer = 0`:
two slots, then the frame goes to the audio callback. -/
def tickFrame (b : Btdmp) : Btdmp × Frame × Nat :=
  let r0 := tickSlot b
  let r1 := tickSlot r0.1
  (r1.1, (r0.2.1, r1.2.1), r0.2.2 + r1.2.2)

/-- `Btdmp::Tick`: new state, frames emitted (at most one), interrupt-handler calls.
`++transmit_timer` is a `u16` increment (wraps at 65535). -/
def tick (b : Btdmp) : Btdmp × List Frame × Nat :=
  if b.enable = 0 then (b, [], 0)
  else
    let b1 := { b with timer := b.timer + 1 }
    if b1.period ≤ b1.timer then
      let r := tickFrame { b1 with timer := 0 }
      (r.1, [r.2.1], r.2.2)
    else (b1, [], 0)

/-- `Btdmp::GetMaxSkip` as a `Nat` (`infinity = 2^64-1`); the sum is `u64` arithmetic. -/
def maxSkip (b : Btdmp) : Nat :=
  if b.enable = 0 ∨ b.queue.isEmpty then infinity
  else
    let ticks := if b.timer < b.period then b.period.toNat - b.timer.toNat - 1 else 0
    (ticks + ((b.queue.length + 1) / 2 - 1) * b.period.toNat) % 2 ^ 64

/-- `Skip` is defined C++ only if it does not divide by zero. -/
def skipDefined (b : Btdmp) : Bool := b.enable == 0 || b.period != 0

/-- The timer arithmetic at the head of `Skip` (enabled case): the state with the new
`transmit_timer`, and `cycles`.  `future_timer` is a `u64` sum (wraps modulo 2^64);
`ticks` is the `u64` argument, so callers pass `ticks < 2^64`. -/
def skipPre (b : Btdmp) (ticks : Nat) : Btdmp × Nat :=
  let b0 := if b.period ≤ b.timer then { b with timer := 0 } else b
  let future := (b0.timer.toNat + ticks) % 2 ^ 64
  ({ b0 with timer := BitVec.ofNat 16 (future % b0.period.toNat) }, future / b0.period.toNat)

/-- One iteration of the inner loop of `Skip` without its `ASSERT`: new state and `sample[i]`.
(`transmit_empty` is not written here, unlike in `Tick`.) -/
def skipSlot (b : Btdmp) : Btdmp × U16 :=
  match b.queue with
  | [] => (b, 0)
  | w :: q => ({ b with queue := q, full := false }, w)

/-- `ASSERT(!transmit_queue.empty())` after the pop of one inner iteration. -/
def skipSlotOk (b : Btdmp) : Bool :=
  match b.queue with
  | [] => true
  | _ :: q => !q.isEmpty

def skipFrame (b : Btdmp) : Btdmp × Frame :=
  let r0 := skipSlot b
  let r1 := skipSlot r0.1
  (r1.1, (r0.2, r1.2))

def skipFrameOk (b : Btdmp) : Bool := skipSlotOk b && skipSlotOk (skipSlot b).1

/-- `for (u64 c = 0; c < cycles; ++c)` of `Skip`, assertions ignored. -/
def skipLoop : Nat → Btdmp → Btdmp × List Frame
  | 0, b => (b, [])
  | c + 1, b =>
    let r := skipFrame b
    let r' := skipLoop c r.1
    (r'.1, r.2 :: r'.2)

/-- All assertions met during `cycles` iterations hold. -/
def skipLoopOk : Nat → Btdmp → Bool
  | 0, _ => true
  | c + 1, b => skipFrameOk b && skipLoopOk c (skipFrame b).1

/-- The `ASSERT`s of `Btdmp::Skip` on the path that reaches them. -/
def skipOk (b : Btdmp) (ticks : Nat) : Bool :=
  if b.enable = 0 then true
  else skipLoopOk (skipPre b ticks).2 (skipPre b ticks).1

/-- `Btdmp::Skip` after its assertions: new state and the frames emitted, in order
(`Skip` never calls the interrupt handler). -/
def skipCore (b : Btdmp) (ticks : Nat) : Btdmp × List Frame :=
  if b.enable = 0 then (b, [])
  else skipLoop (skipPre b ticks).2 (skipPre b ticks).1

/-- `Btdmp::Skip`.  `.error .oob` = outside the defined domain of the C++ (division by zero),
`.error .assert` = the `ASSERT` in the loop fails. -/
def skip (b : Btdmp) (ticks : Nat) : R (Btdmp × List Frame) :=
  if !skipDefined b then .error .oob
  else if skipOk b ticks then .ok (skipCore b ticks) else .error .assert

/-- The flags are exact and the queue is bounded: `transmit_empty ⇔ queue empty`,
`transmit_full ⇔ 16 words queued`, never more than 16 words. -/
def Inv (b : Btdmp) : Prop :=
  b.empty = b.queue.isEmpty ∧ b.full = decide (b.queue.length = 16) ∧ b.queue.length ≤ 16
instance : DecidablePred Inv := fun _ => inferInstanceAs (Decidable (_ ∧ _ ∧ _))

/-- The frame clock is well formed: a non-zero period and a phase inside it. -/
def Clk (b : Btdmp) : Prop := 1 ≤ b.period ∧ b.timer < b.period
instance : DecidablePred Clk := fun _ => inferInstanceAs (Decidable (_ ∧ _))

end Btdmp
end Teakra
