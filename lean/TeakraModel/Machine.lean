import TeakraModel.Basic
import Std.Data.HashMap
/-!
# Register file, memory and execution monad of the interpreter model

`Regs` mirrors `Teakra::RegisterState` (`include/teakra/impl/register.h`) field for field, with
the C++ types: `u16` ↦ `BitVec 16`, `u32` ↦ `BitVec 32`, `u64` ↦ `BitVec 64` (accumulators are
kept "sign-extended from bit 39 in 64 bits" exactly as the code keeps them), `bool` ↦ `Bool`,
`std::array<T,n>` ↦ `Vector T n`.  The private shadow members of the `Shadow*` helper classes are
the `sh…` fields.
-/
namespace Teakra

/-- `RegisterState::BlockRepeatFrame` -/
structure BkFrame where
  start : U32 := 0
  end_  : U32 := 0
  lc    : U16 := 0
  deriving DecidableEq, Repr, Inhabited

/-- One `ShadowSwapAr<i>` / `ShadowSwapArp<i>` object (six private `u16`s). -/
structure ArShadow where
  rni : U16 := 0
  rnj : U16 := 0
  stepi : U16 := 0
  stepj : U16 := 0
  offseti : U16 := 0
  offsetj : U16 := 0
  deriving DecidableEq, Repr, Inhabited

structure Regs where
  -- program control unit
  pc : U32 := 0
  prpage : U16 := 0
  cpc : U16 := 1
  repc : U16 := 0
  repcs : U16 := 0
  rep : Bool := false
  crep : U16 := 1
  bcn : U16 := 0
  lp : U16 := 0
  bkrep : Vector BkFrame 4 := Vector.replicate 4 {}
  -- computation unit
  a : Vector U64 2 := Vector.replicate 2 0
  b : Vector U64 2 := Vector.replicate 2 0
  a1s : U64 := 0
  b1s : U64 := 0
  ccnta : U16 := 1
  sat : U16 := 0
  sata : U16 := 1
  s : U16 := 0
  sv : U16 := 0
  fz : U16 := 0
  fm : U16 := 0
  fn : U16 := 0
  fv : U16 := 0
  fe : U16 := 0
  fc0 : U16 := 0
  fc1 : U16 := 0
  flm : U16 := 0
  fvl : U16 := 0
  fr : U16 := 0
  vtr0 : U16 := 0
  vtr1 : U16 := 0
  -- multiplication unit
  x : Vector U16 2 := Vector.replicate 2 0
  y : Vector U16 2 := Vector.replicate 2 0
  hwm : U16 := 0
  p : Vector U32 2 := Vector.replicate 2 0
  pe : Vector U16 2 := Vector.replicate 2 0
  ps : Vector U16 2 := Vector.replicate 2 0
  p0h_cbs : U16 := 0
  -- address unit
  r : Vector U16 8 := Vector.replicate 8 0
  mixp : U16 := 0
  sp : U16 := 0
  page : U16 := 0
  pcmhi : U16 := 0
  r0b : U16 := 0
  r1b : U16 := 0
  r4b : U16 := 0
  r7b : U16 := 0
  -- step / modulo
  stepi : U16 := 0
  stepj : U16 := 0
  modi : U16 := 0
  modj : U16 := 0
  stepi0 : U16 := 0
  stepj0 : U16 := 0
  stepib : U16 := 0
  stepjb : U16 := 0
  modib : U16 := 0
  modjb : U16 := 0
  stepi0b : U16 := 0
  stepj0b : U16 := 0
  m : Vector U16 8 := Vector.replicate 8 0
  br : Vector U16 8 := Vector.replicate 8 0
  stp16 : U16 := 0
  cmd : U16 := 1
  epi : U16 := 0
  epj : U16 := 0
  -- indirect address unit
  arstep : Vector U16 4 := #v[1, 4, 5, 3]
  arpstepi : Vector U16 4 := #v[1, 4, 5, 3]
  arpstepj : Vector U16 4 := #v[1, 4, 5, 3]
  aroffset : Vector U16 4 := #v[0, 1, 2, 0]
  arpoffseti : Vector U16 4 := #v[0, 1, 2, 0]
  arpoffsetj : Vector U16 4 := #v[0, 1, 2, 0]
  arrn : Vector U16 4 := #v[0, 4, 2, 6]
  arprni : Vector U16 4 := #v[0, 1, 2, 3]
  arprnj : Vector U16 4 := #v[0, 1, 2, 3]
  -- interrupt unit
  ip : Vector U16 3 := Vector.replicate 3 0
  ipv : U16 := 0
  im : Vector U16 3 := Vector.replicate 3 0
  imv : U16 := 0
  ic : Vector U16 3 := Vector.replicate 3 0
  nimc : U16 := 0
  ie : U16 := 0
  -- extension unit
  ou : Vector U16 5 := Vector.replicate 5 0
  iu : Vector U16 2 := Vector.replicate 2 0
  ext : Vector U16 4 := Vector.replicate 4 0
  mod0_unk_const : U16 := 1
  -- `shadow_registers` (ShadowRegisterList: flm fvl fe fc0 fc1 fv fn fm fz fr)
  sh_flm : U16 := 0
  sh_fvl : U16 := 0
  sh_fe : U16 := 0
  sh_fc0 : U16 := 0
  sh_fc1 : U16 := 0
  sh_fv : U16 := 0
  sh_fn : U16 := 0
  sh_fm : U16 := 0
  sh_fz : U16 := 0
  sh_fr : U16 := 0
  -- `shadow_swap_registers`
  ss_pcmhi : U16 := 0
  ss_sat : U16 := 0
  ss_sata : U16 := 0
  ss_hwm : U16 := 0
  ss_s : U16 := 0
  ss_ps : Vector U16 2 := Vector.replicate 2 0
  ss_page : U16 := 0
  ss_stp16 : U16 := 0
  ss_cmd : U16 := 0
  ss_m : Vector U16 8 := Vector.replicate 8 0
  ss_br : Vector U16 8 := Vector.replicate 8 0
  ss_im : Vector U16 3 := Vector.replicate 3 0
  ss_imv : U16 := 0
  ss_epi : U16 := 0
  ss_epj : U16 := 0
  -- `shadow_swap_ar0/1`, `shadow_swap_arp0..3` (uninitialised in C++ until first written)
  ss_ar : Vector ArShadow 2 := Vector.replicate 2 {}
  ss_arp : Vector ArShadow 4 := Vector.replicate 4 {}
  deriving DecidableEq, Repr, Inhabited

/-! ## memory -/

/-- Deterministic background contents of the 0x40000-word DSP memory, defined by a seed
(splitmix64 of `seed + address`, low 16 bits), so harness and model can "fill" memory alike. -/
def splitmix64 (x : Nat) : Nat :=
  let m := 2 ^ 64
  let z := (x + 0x9E3779B97F4A7C15) % m
  let z := ((z ^^^ (z >>> 30)) * 0xBF58476D1CE4E5B9) % m
  let z := ((z ^^^ (z >>> 27)) * 0x94D049BB133111EB) % m
  z ^^^ (z >>> 31)

/-- Word-addressed view of `SharedMemory` (`ReadWord`/`WriteWord` are the only accessors the
emulator uses; byte `2p` is the low and `2p+1` the high byte of word `p`).  `bg = none` is
zero-filled memory, `some seed` the seeded background; `ov` holds the words written so far. -/
structure Mem where
  bg : Option Nat := none
  ov : Std.HashMap Nat U16 := {}

instance : Inhabited Mem := ⟨{}⟩

namespace Mem
def bgWord (bg : Option Nat) (wa : Nat) : U16 :=
  match bg with
  | none => 0
  | some seed => BitVec.ofNat 16 (splitmix64 (seed * 0x100000 + wa))

def read (m : Mem) (wa : Nat) : U16 := (m.ov.get? wa).getD (bgWord m.bg wa)
def write (m : Mem) (wa : Nat) (v : U16) : Mem := { m with ov := m.ov.insert wa v }
/-- Number of 16-bit words in the 0x80000-byte array. -/
def words : Nat := 0x40000
end Mem

/-- One entry of the data/program access log (what the memory-observer hook reports):
byte address, write?, value (0 for reads, like the hook). -/
structure Access where
  byteAddr : Nat
  isWrite : Bool
  value : U16
  deriving DecidableEq, Repr

/-- `MemoryInterfaceUnit` (src/memory_interface.h). -/
structure Miu where
  xPage : U16 := 0
  yPage : U16 := 0
  zPage : U16 := 0
  xSize : Vector U16 2 := #v[0x20, 0x20]
  ySize : Vector U16 2 := #v[0x1E, 0x1E]
  pageMode : U16 := 0
  mmioBase : U16 := 0x8000
  deriving DecidableEq, Repr, Inhabited

end Teakra
