/-!
# Data types of the translated lock / shared-field access table (property C19)

`tools/translate_locks.py` emits `Teakra.Lock.table : LockTable` from `/repo/src/apbp.cpp`, `icu.h`,
`interpreter.h`, `processor.cpp`, `teakra.cpp` and `mmio.cpp` in terms of these structures
(hand-written; the table itself is generated).  Names are the C++ names: a field is `"Class.member"`
(`Apbp::Impl` members are listed under `Apbp`), a mutex is the field name of the mutex member, a method
is `"Class.Method"`.  The table is *class level*; which object (`apbp_from_cpu`, `apbp_from_dsp`,
`icu`, `processor`) a thread reaches is given by `entries` / `wiring` and resolved by
`TeakraModel/LockModel.lean`.

**Names are numbers.**  The Lean kernel compares `Nat` literals in one step but `String`s byte by byte
(≈ 0.5 ms per byte measured), and the C19 table theorems are kernel evaluations of a call-graph unfolding
with tens of thousands of name comparisons.  So every name is carried as the big-endian base-256 number of
its UTF-8 bytes — an injective encoding (a name never starts with a NUL byte), written `n% "name"` in
hand-written Lean and computed by the same formula in the translator; `Name.decode` gives the string back
for display.
-/
namespace Teakra.Lock

/-- A C++ name, as the number `n% "name"`. -/
abbrev Name := Nat

/-- `n% "DataChannel.ready"` is the `Nat` literal of the name: big-endian base 256 over its UTF-8 bytes. -/
macro "n%" s:str : term => do
  let v := s.getString.toUTF8.foldl (fun n b => n * 256 + b.toNat) 0
  return Lean.Syntax.mkNumLit (toString v)

/-- The string a name stands for (for display only; never evaluated by the kernel). -/
def Name.decode (n : Name) : String :=
  let rec go (fuel : Nat) (n : Nat) (acc : List UInt8) : List UInt8 :=
    match fuel with
    | 0 => acc
    | fuel + 1 => if n = 0 then acc else go fuel (n / 256) (UInt8.ofNat (n % 256) :: acc)
  (String.fromUTF8? ⟨(go 4096 n []).toArray⟩).getD "?"

/-- A data member of one of the translated classes. -/
structure FieldDecl where
  /-- `"Class.member"` -/
  name : Name
  /-- declared type, whitespace-normalised -/
  ty : Name
  /-- `"data"` | `"mutex"` | `"recursive_mutex"` | `"callback"` (`std::function`) | `"object"` (array of
  a translated class, only ever indexed) -/
  kind : Name
  /-- the member is a `std::atomic<…>` (or an array of them) -/
  atomic : Bool
  deriving DecidableEq, Repr, Inhabited

/-- One syntactic access to a shared field inside a method body. -/
structure Access where
  /-- `"Class.Method"` (`"Interpreter.Run"` covers the whole body of `Run`) -/
  method : Name
  /-- `"Class.member"` -/
  field : Name
  write : Bool
  /-- the `std::lock_guard`s in scope at this point, outermost first (mutex field names) -/
  locks : List Name
  /-- the field is a `std::atomic` (every operation on it is an atomic operation) -/
  atomic : Bool
  deriving DecidableEq, Repr, Inhabited

/-- A call made inside a method body: of another translated method, or of a `std::function` member. -/
structure CallSite where
  method : Name
  /-- `"method"` | `"callback"` -/
  kind : Name
  /-- `"Class.Method"` resp. the callback field `"Class.member"` -/
  target : Name
  /-- the `std::lock_guard`s in scope at the call, outermost first -/
  locks : List Name
  deriving DecidableEq, Repr, Inhabited

/-- One `std::lock_guard name(mutex);` statement. -/
structure Acquire where
  method : Name
  /-- the mutex member, `"Class.member"` -/
  lock : Name
  /-- the `std::lock_guard`s already in scope in the same method, outermost first -/
  held : List Name
  deriving DecidableEq, Repr, Inhabited

/-- A field an MMIO cell accesses directly (`Cell::RefCell` / `BitFieldSlot::RefSlot`: one unlocked
read accessor and one unlocked write accessor on the referenced variable). -/
structure Direct where
  /-- the cell, as written in `mmio.cpp` -/
  cell : Name
  obj : Name
  field : Name
  deriving DecidableEq, Repr, Inhabited

/-- A way into the translated classes: a `Teakra::…` host API method (`origin = "teakra"`), an MMIO
cell accessor (`"mmio"`), or a peripheral's interrupt callback (`"peripheral"`, runs inside
`core_timing.Tick()`). -/
structure Entry where
  origin : Name
  name : Name
  obj : Name
  /-- `"Class.Method"` -/
  method : Name
  deriving DecidableEq, Repr, Inhabited

/-- A callback installed by `Teakra::Impl`'s constructor: `obj.field` is bound to
`targetObj.targetMethod`. -/
structure Wire where
  obj : Name
  /-- the callback field, `"Class.member"` -/
  field : Name
  targetObj : Name
  targetMethod : Name
  deriving DecidableEq, Repr, Inhabited

structure LockTable where
  fields : List FieldDecl
  accesses : List Access
  calls : List CallSite
  acquires : List Acquire
  direct : List Direct
  entries : List Entry
  wiring : List Wire
  /-- `(object, class)` of the members of `Teakra::Impl` that are tracked -/
  objects : List (Name × Name)
  deriving DecidableEq, Repr, Inhabited

end Teakra.Lock
