import TeakraModel.Mmio
/-!
# Classification of the MMIO cells (data derived from `Cell`)

`Cell.kind` says what software can expect of a cell, `Cell.coupledTo` lists the cells whose
read-back a write to the cell may change (the documented couplings), `Cell.emits` marks the
cells whose write can call a handler (`PEvent`).  `Proofs/C12.lean` proves that the model
behaves as classified; `checks/c12.py` reads the same tables through the driver op
`bus kind <off>` and evaluates them on the real `MMIORegion`.
-/
namespace Teakra

inductive CellKind where
  /-- holds the last value written on the bits of `mask`; the write calls no handler -/
  | rw (mask : U16)
  /-- like `rw`, and the write also acts (mailbox flag, handler call, DMA start) -/
  | rwTrigger (mask : U16)
  /-- the write is ignored (`NoSet` / empty `set`), the read reflects peripheral state -/
  | ro
  /-- write-only: the write acts, the read is a constant (0, or never-written storage) -/
  | wo
  /-- reads a constant, writes have no visible effect -/
  | const (c : U16)
  /-- the read itself has a side effect (`RecvData`) -/
  | fifo
  /-- `SetSemaphore`: written bits accumulate (`read = old ||| v`) -/
  | accum
  deriving DecidableEq, Repr, Inhabited

def Cell.kind : Cell → CellKind
  | .store => .rw 0xFFFF
  | .const c => .const c
  | .timer _ .cfg => .rw 0xFBFF            -- bit 10 (RES) always reads 0
  | .timer _ .ew => .wo
  | .timer _ _ => .rw 0xFFFF
  | .apbp (.send _) => .rwTrigger 0xFFFF
  | .apbp (.recv _) => .fifo
  | .apbp .semSet => .accum
  | .apbp .semMask => .rwTrigger 0xFFFF
  | .apbp .semClear => .wo
  | .apbp .semGet => .ro
  | .apbp .cfg => .rw 0xFFFF
  | .apbp .sts => .rw 0xCC1F               -- bits 5-9, 12, 13 are status getters
  | .apbp .psts => .rw 0x01FF              -- bits 9-15 are status getters
  | .ahbm .busy => .ro
  | .ahbm _ => .rw 0xFFFF
  | .miu _ => .rw 0xFFFF
  | .dma .seox => .const 0xFFFF            -- the write goes to a storage word nothing reads
  | .dma .z => .rwTrigger 0xFFFF
  | .dma .active => .rw 7                  -- CHANNEL: 3 bits
  | .dma _ => .rw 0xFFFF
  | .icu .request => .ro
  | .icu .ack => .wo
  | .icu .trigger => .wo
  | .icu _ => .rw 0xFFFF
  | .btdmp _ .status => .rw 0xFFE7         -- bits 3, 4 are full / empty
  | .btdmp _ .send => .wo
  | .btdmp _ .flush => .wo
  | .btdmp _ _ => .rw 0xFFFF

/-- The mask on which a cell reads back what was written (`none`: not a read/write register). -/
def CellKind.rwMask : CellKind → Option U16
  | .rw m => some m
  | .rwTrigger m => some m
  | _ => none

def dmaWindowCells : List Cell :=
  [DmaField.addrSrcLow, .addrSrcHigh, .addrDstLow, .addrDstHigh, .size0, .size1, .size2, .srcStep0,
   .dstStep0, .srcStep1, .dstStep1, .srcStep2, .dstStep2, .y].map (fun f => Cell.dma (.field f)) ++
  [.dma .cfg, .dma .z]

/-- The documented couplings: cells whose read-back a write to this cell may change. -/
def Cell.coupledTo : Cell → List Cell
  -- timer restart and counter mirror
  | .timer i .cfg => [.timer i .cntLow, .timer i .cntHigh]
  | .timer i .ew => [.timer i .cntLow, .timer i .cntHigh, .icu .request]
  -- mailbox / semaphore side effects
  | .apbp (.send _) => [.apbp .sts, .apbp .psts]
  | .apbp .semMask => [.apbp .sts, .apbp .psts, .icu .request]
  | .apbp .semClear => [.apbp .semGet, .apbp .sts, .apbp .psts]
  -- DMA channel-window select and DMA start
  | .dma .active => dmaWindowCells
  | .dma .z => [.icu .request]
  -- interrupt acknowledge / trigger
  | .icu .ack => [.icu .request]
  | .icu .trigger => [.icu .request]
  -- audio FIFO
  | .btdmp i .send => [.btdmp i .status]
  | .btdmp i .flush => [.btdmp i .status]
  | _ => []

/-- Cells whose `set` can call a handler. -/
def Cell.emits : Cell → Bool
  | .timer _ .ew => true
  | .apbp (.send _) => true
  | .apbp .semSet => true
  | .apbp .semMask => true
  | .dma .z => true
  | .icu .trigger => true
  | _ => false

def kindAt (off : Nat) : CellKind := (cellAt off).kind
def coupledOffs (off : Nat) : List Nat := (cellAt off).coupledTo.filterMap Cell.off
def emitsAt (off : Nat) : Bool := (cellAt off).emits

/-- `Coupled o o'`: a write to offset `o` may change the read-back of offset `o'`. -/
def Coupled (o o' : Nat) : Prop := o' ∈ coupledOffs o

instance (o o' : Nat) : Decidable (Coupled o o') := inferInstanceAs (Decidable (_ ∈ _))

end Teakra
