/-!
# Shape of the MMIO cell-binding table translated from `src/mmio.cpp`

`tools/translate_mmio.py` unrolls the constructor of `MMIORegion` and writes, per assigned offset, what the cell is bound
to.  Accessor expressions are identified by a number (the first 32 bits of the SHA-256 of their canonical text, which the
generated file shows in a comment next to it); `0` = absent, `1` = `[](u16) {}`, `2` = `NoSet(…)`,
`3` = `[]() -> u16 { return 0; }`.
-/
namespace Teakra

structure MSlot where
  pos : Nat
  len : Nat
  /-- setter id (`0`: the slot has no setter, the bits are kept in the cell's storage word only) -/
  set : Nat
  /-- getter id (`0`: the slot has no getter, the bits read back from the storage word) -/
  get : Nat
  deriving DecidableEq, Repr

inductive MBind where
  /-- `Cell::ConstCell(c)` -/
  | const (c : Nat)
  /-- `Cell::RefCell(var)` -/
  | ref (var : Nat)
  /-- `Cell()` assigned explicitly -/
  | fresh
  /-- `Cell::BitFieldCell({slots…})`, slots in source order -/
  | bitfield (slots : List MSlot)
  /-- `.set = …` and/or `.get = …` replaced on the default cell (`0`: that half keeps the default closure) -/
  | halves (set get : Nat)
  deriving DecidableEq, Repr

end Teakra
