import TeakraModel.Basic
/-!
# Pure arithmetic helpers of `src/interpreter.h`

The value-level parts of `AddSub`, `SetAccFlag`, `SaturateAcc`, `ShiftBus40`, `Exp`,
`DoMultiplication`, `ProductToBus40`, written with the same bit tricks as the C++ so that the
correspondence is line by line; `Proofs/C03.lean` / `Proofs/C04.lean` relate them to exact integer
arithmetic.  Flags are `U16` values 0/1 like the `u16` members they are stored into.
-/
namespace Teakra
namespace Alu

/-- `SignExtend<bits>(u64 value)` (also the two-argument form `SignExtend(value, bits)`),
`1 ≤ bits ≤ 64`. -/
def signExtend (bits : Nat) (v : U64) : U64 := (v.setWidth bits).signExtend 64

/-- `SignExtend<bits, u32>` -/
def signExtend32 (bits : Nat) (v : U32) : U32 := (v.setWidth bits).signExtend 32

/-- `SignExtend<bits, u16>` -/
def signExtend16 (bits : Nat) (v : U16) : U16 := (v.setWidth bits).signExtend 16

def b2u (b : Bool) : U16 := if b then 1 else 0

def mask40 : U64 := 0xFFFFFFFFFF

structure AddSubOut where
  result : U64
  fc0 : U16
  fv : U16
  deriving DecidableEq, Repr

/-- Value part of `Interpreter::AddSub` (`fvl` latching is done by the caller). -/
def addSub (a b : U64) (sub : Bool) : AddSubOut :=
  let a := a &&& mask40
  let b := b &&& mask40
  let result := if sub then a - b else a + b
  let fc0 := (result >>> 40) &&& 1
  let b' := if sub then ~~~b else b
  let fv := ((~~~(a ^^^ b') &&& (a ^^^ result)) >>> 39) &&& 1
  { result := signExtend 40 result, fc0 := fc0.setWidth 16, fv := fv.setWidth 16 }

structure AccFlags where
  fz : U16
  fm : U16
  fe : U16
  fn : U16
  deriving DecidableEq, Repr

/-- `Interpreter::SetAccFlag` -/
def accFlags (value : U64) : AccFlags :=
  let fz := value == 0
  let fm := (value >>> 39) != 0
  let fe := value != signExtend 32 value
  let bit31 := (value >>> 31) &&& 1
  let bit30 := (value >>> 30) &&& 1
  let fn := fz || (!fe && (bit31 ^^^ bit30) != 0)
  { fz := b2u fz, fm := b2u fm, fe := b2u fe, fn := b2u fn }

/-- `Interpreter::SaturateAccNoFlag`; the `Bool` tells whether saturation happened
(`SaturateAcc` sets `flm` exactly then). -/
def saturate (value : U64) : U64 × Bool :=
  if value != signExtend 32 value then
    if (value >>> 39) != 0 then (0xFFFFFFFF80000000, true) else (0x000000007FFFFFFF, true)
  else (value, false)

structure ShiftOut where
  value : U64
  fc0 : U16
  fv : Option U16       -- `none`: `fv` left unchanged
  deriving DecidableEq, Repr

/-- The shifting part of `Interpreter::ShiftBus40` (before `SignExtend<40>`, flags and
saturation): `s` is the shift-mode bit (`0` arithmetic, otherwise logic). -/
def shiftCore (value : U64) (sv : U16) (s : U16) : ShiftOut :=
  let value := value &&& mask40
  if (sv >>> 15) == 0 then
    -- left shift
    if sv.toNat ≥ 40 then
      { value := 0, fc0 := 0, fv := if s == 0 then some (b2u (value != 0)) else none }
    else
      let fv := if s == 0 then
          some (b2u (signExtend 40 value != signExtend (40 - sv.toNat) value)) else none
      let v' := value <<< sv.toNat
      { value := v', fc0 := b2u ((v' &&& (1 <<< 40)) != 0), fv := fv }
  else
    let nsv : U16 := ~~~sv + 1
    let fvR := if s == 0 then some 0 else none
    if nsv.toNat ≥ 40 then
      if s == 0 then
        let c := (value >>> 39) &&& 1
        { value := if c != 0 then mask40 else 0, fc0 := c.setWidth 16, fv := fvR }
      else { value := 0, fc0 := 0, fv := fvR }
    else
      let fc0 := b2u ((value &&& (1 <<< (nsv.toNat - 1))) != 0)
      let v' := value >>> nsv.toNat
      let v' := if s == 0 then signExtend (40 - nsv.toNat) v' else v'
      { value := v', fc0 := fc0, fv := fvR }

/-- `Interpreter::Exp` -/
def expLoop (value : U64) (sign : Bool) : Nat → Nat → Nat
  | 0, count => if value.getLsbD 0 != sign then count else count + 1
  | bit + 1, count =>
    if value.getLsbD (bit + 1) != sign then count else expLoop value sign bit (count + 1)

def exp (value : U64) : U16 :=
  let sign := value.getLsbD 39
  BitVec.ofNat 16 (expLoop value sign 38 0) - 8

/-- The factor transformation and multiplication of `Interpreter::DoMultiplication`:
returns `(p, pe)`. -/
def multiply (x y : U16) (hwm : U16) (unit : Nat) (xSign ySign : Bool) : U32 × U16 :=
  let x32 : U32 := x.setWidth 32
  let y32 : U32 := y.setWidth 32
  let y32 := if hwm == 1 || (hwm == 3 && unit == 0) then y32 >>> 8
             else if hwm == 2 || (hwm == 3 && unit == 1) then y32 &&& 0xFF else y32
  let x32 := if xSign then signExtend32 16 x32 else x32
  let y32 := if ySign then signExtend32 16 y32 else y32
  let p := x32 * y32
  let pe : U16 := if xSign || ySign then (p >>> 31).setWidth 16 else 0
  (p, pe)

/-- `Interpreter::ProductToBus40` -/
def productToBus40 (p : U32) (pe : U16) (ps : U16) : U64 :=
  let value : U64 := p.setWidth 64 ||| (pe.setWidth 64 <<< 32)
  if ps == 0 then signExtend 33 value
  else if ps == 1 then signExtend 32 (value >>> 1)
  else if ps == 2 then signExtend 34 (value <<< 1)
  else if ps == 3 then signExtend 35 (value <<< 2)
  else value

/-- `BitReverse(u16)` -/
def bitReverse (v : U16) : U16 := v.reverse

end Alu
end Teakra
